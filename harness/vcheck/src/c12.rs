//! C12 - connection lifecycle follows the AMQP open/close state machine.
//!
//! Exhaustive search over histories of local operations and scripted-peer behaviour against the real
//! connection engine (client role via `Connection::builder().open_with_stream`, listener role via
//! `ConnectionAcceptor::accept`), judged by a trace automaton written from spec §2.4.6, plus
//! deviation-bounded schedule exploration of "local close races peer close".
use fe2o3_amqp::acceptor::{ConnectionAcceptor, ListenerConnectionHandle};
use fe2o3_amqp::connection::{ConnectionHandle, Error as ConnError};
use fe2o3_amqp::{Connection, Session};
use fe2o3_amqp_types::definitions::{self, AmqpError};
use fe2o3_amqp_types::performatives::*;
use serde_json::json;
use std::sync::Arc;
use std::time::{Duration, Instant};
use vlib::explore::{explore, Bounds};
use vlib::history::{search, HistOut};
use vlib::peer::{amqp_error, drive, settle, trace_to_strings, Auto, Body, Dirn, Peer, WFrame, AMQP_HEADER, SASL_HEADER};
use vlib::report::{Ctx, Outcome};
use vlib::runner::{run_exec, RunCfg, Scenario};
use vlib::tape::Kind;
use vlib::util::{h64, par_map};
use vlib::vpipe::Pipe;

#[derive(Debug, Clone, Copy, PartialEq, Eq, Hash)]
pub enum Role {
    Client,
    Listener,
}

/// how the peer behaves during the opening handshake
#[derive(Debug, Clone, Copy, PartialEq, Eq, Hash)]
pub enum OpenVariant {
    Default,
    Pipelined,
    LateOpen,
    FrameBeforeOpen,
    WrongHeaderVersion,
    SaslHeader,
    HeaderThenEof,
    OpenClosePipelined,
    Silence,
    EofImmediately,
    /// the peer's first frame is a close (no open); afterwards it is silent like a peer that has closed
    CloseBeforeOpen,
    /// an empty frame, then an open with idle-time-out 0 (= no time-out)
    EmptyThenOpenIdleZero,
}
pub const OPEN_VARIANTS: [OpenVariant; 12] = [
    OpenVariant::Default,
    OpenVariant::Pipelined,
    OpenVariant::LateOpen,
    OpenVariant::FrameBeforeOpen,
    OpenVariant::WrongHeaderVersion,
    OpenVariant::SaslHeader,
    OpenVariant::HeaderThenEof,
    OpenVariant::OpenClosePipelined,
    OpenVariant::Silence,
    OpenVariant::EofImmediately,
    OpenVariant::CloseBeforeOpen,
    OpenVariant::EmptyThenOpenIdleZero,
];

#[derive(Debug, Clone, Copy, PartialEq, Eq, Hash)]
pub enum Ev {
    LBegin,
    LClose,
    LCloseErr,
    LDrop,
    PClose,
    PCloseErr,
    PBeginUnknown,
    PEndUnmapped,
    PFlowUnmapped,
    PEmpty,
    PEof,
    PWithholdClose,
    /// let one second of virtual time pass (heartbeats fire if the peer advertised an idle time-out)
    Wait,
    /// close() crossed by frames the peer sent before it saw the close: when the library's close is on the wire the
    /// peer (which has not answered yet) sends an empty frame and a begin for a session of its own - both legal for a
    /// peer that has not seen the close - and only then its clean close
    LCloseCrossed,
}
pub const ALPHABET: [Ev; 14] = [
    Ev::LBegin,
    Ev::LClose,
    Ev::PClose,
    Ev::PCloseErr,
    Ev::LCloseErr,
    Ev::LDrop,
    Ev::PBeginUnknown,
    Ev::PEndUnmapped,
    Ev::PFlowUnmapped,
    Ev::PEmpty,
    Ev::PEof,
    Ev::PWithholdClose,
    Ev::Wait,
    Ev::LCloseCrossed,
];

enum Handle {
    Client(ConnectionHandle<()>),
    Listener(ListenerConnectionHandle),
}

#[derive(Debug, Clone, Default)]
pub struct Obs {
    pub executed: usize,
    pub opened: bool,
    pub open_result: String,
    pub trace: Vec<String>,
    pub fails: Vec<(String, String)>,
    pub state_keys: Vec<u64>,
}

fn peer_open_idle(idle: bool) -> Open {
    let mut o = peer_open();
    if idle {
        o.idle_time_out = Some(200);
    }
    o
}

fn peer_open() -> Open {
    Open {
        container_id: "scripted-peer".into(),
        hostname: None,
        max_frame_size: 4096.into(),
        channel_max: 10.into(),
        idle_time_out: None,
        outgoing_locales: None,
        incoming_locales: None,
        offered_capabilities: None,
        desired_capabilities: None,
        properties: None,
    }
}

fn peer_err() -> definitions::Error {
    amqp_error(AmqpError::ResourceLimitExceeded, "peer says no")
}

/// safety part of the automaton over everything the library has written so far
pub fn judge_trace(trace: &[WFrame], sasl_expected: bool) -> Vec<(String, String)> {
    let mut f = vec![];
    let lib: Vec<&WFrame> = trace.iter().filter(|w| w.dir == Dirn::FromLib).collect();
    if lib.is_empty() {
        return f;
    }
    match &lib[0].body {
        Body::ProtoHeader(h) if *h == AMQP_HEADER || (sasl_expected && *h == SASL_HEADER) => {}
        other => f.push(("header-not-first".to_string(), format!("the first thing written is {:?}, not the protocol header", other))),
    }
    let mut opens = 0;
    let mut closes = 0;
    let mut after_close = 0;
    let mut first_frame_is_open = None;
    for w in lib.iter().skip(1) {
        match &w.body {
            Body::ProtoHeader(_) => f.push(("second-header".to_string(), "a second protocol header was written".to_string())),
            Body::Undecodable(e) => f.push(("undecodable-frame".to_string(), format!("the library wrote an undecodable frame: {e}"))),
            Body::Sasl(_) => {}
            Body::Empty => {
                if closes > 0 {
                    after_close += 1;
                }
                if first_frame_is_open.is_none() {
                    // an empty frame before open is a frame before open
                    first_frame_is_open = Some(false);
                }
            }
            Body::Perf(p) => {
                if closes > 0 {
                    after_close += 1;
                }
                if first_frame_is_open.is_none() {
                    first_frame_is_open = Some(matches!(p, Performative::Open(_)));
                }
                match p {
                    Performative::Open(_) => {
                        opens += 1;
                        if w.channel != 0 {
                            f.push(("open-not-on-channel-0".into(), format!("open sent on channel {}", w.channel)));
                        }
                    }
                    Performative::Close(_) => closes += 1,
                    _ => {}
                }
            }
        }
    }
    if first_frame_is_open == Some(false) {
        f.push(("frame-before-open".into(), "the library sent a frame before its open".into()));
    }
    if opens > 1 {
        f.push(("open-twice".into(), format!("the library sent {opens} open frames")));
    }
    if closes > 1 {
        f.push(("close-twice".into(), format!("the library sent {closes} close frames")));
    }
    if after_close > 0 {
        f.push(("frame-after-close".into(), format!("the library sent {after_close} frame(s) after its close")));
    }
    f
}

fn lib_closed(trace: &[WFrame]) -> Option<Option<definitions::Error>> {
    trace.iter().find_map(|w| match (&w.body, w.dir) {
        (Body::Perf(Performative::Close(c)), Dirn::FromLib) => Some(c.error.clone()),
        _ => None,
    })
}
fn lib_opened(trace: &[WFrame]) -> bool {
    trace.iter().any(|w| matches!((&w.body, w.dir), (Body::Perf(Performative::Open(_)), Dirn::FromLib)))
}

pub async fn scenario(role: Role, ov: OpenVariant, idle: bool, events: Vec<Ev>) -> Obs {
    let mut obs = Obs::default();
    let (pipe, a, _b) = Pipe::new();
    let mut auto = Auto::default();
    auto.max_frame_size = 4096;
    if idle {
        auto.idle_time_out = Some(200);
    }
    let h = Duration::from_secs(5);
    // ---------------------------------------------------------------- stage A: opening handshake
    let mut peer;
    let handle: Option<Handle>;
    match role {
        Role::Client => {
            match ov {
                OpenVariant::LateOpen | OpenVariant::FrameBeforeOpen | OpenVariant::HeaderThenEof | OpenVariant::OpenClosePipelined | OpenVariant::CloseBeforeOpen | OpenVariant::EmptyThenOpenIdleZero => auto.open = false,
                OpenVariant::WrongHeaderVersion | OpenVariant::SaslHeader | OpenVariant::Silence | OpenVariant::EofImmediately | OpenVariant::Pipelined => {
                    auto.header = false;
                    auto.open = false;
                }
                OpenVariant::Default => {}
            }
            peer = Peer::new(pipe.clone(), 1, auto);
            match ov {
                OpenVariant::Pipelined => {
                    peer.send_proto_header(AMQP_HEADER);
                    peer.send(0, Performative::Open(peer_open_idle(idle)));
                }
                OpenVariant::WrongHeaderVersion => peer.send_proto_header([b'A', b'M', b'Q', b'P', 0, 1, 1, 0]),
                OpenVariant::SaslHeader => peer.send_proto_header(SASL_HEADER),
                OpenVariant::EofImmediately => peer.close_write(),
                _ => {}
            }
            let fut = Connection::builder().container_id("lib").max_frame_size(4096).channel_max(5).open_with_stream(a);
            tokio::pin!(fut);
            let mut result = None;
            // drive by hand so that the scripted peer can act at chosen quiescence points
            let mut round = 0;
            let start = tokio::time::Instant::now();
            loop {
                tokio::select! {
                    biased;
                    r = &mut fut => { result = Some(r); break; }
                    _ = tokio::time::sleep(Duration::from_millis(1)) => {
                        peer.pump();
                        round += 1;
                        if round == 2 {
                            match ov {
                                OpenVariant::LateOpen => peer.send(0, Performative::Open(peer_open_idle(idle))),
                                OpenVariant::FrameBeforeOpen => {
                                    let b = Begin { remote_channel: None, next_outgoing_id: 0, incoming_window: 10, outgoing_window: 10, handle_max: Default::default(), offered_capabilities: None, desired_capabilities: None, properties: None };
                                    peer.send(0, Performative::Begin(b));
                                    peer.send(0, Performative::Open(peer_open_idle(idle)));
                                }
                                OpenVariant::HeaderThenEof => peer.close_write(),
                                OpenVariant::OpenClosePipelined => {
                                    peer.send(0, Performative::Open(peer_open_idle(idle)));
                                    peer.send(0, Performative::Close(Close { error: None }));
                                }
                                OpenVariant::CloseBeforeOpen => {
                                    peer.send(0, Performative::Close(Close { error: None }));
                                }
                                OpenVariant::EmptyThenOpenIdleZero => {
                                    peer.send_raw(&[0, 0, 0, 8, 2, 0, 0, 0]);
                                    let mut o = peer_open();
                                    o.idle_time_out = Some(0);
                                    peer.send(0, Performative::Open(o));
                                }
                                _ => {}
                            }
                        }
                        if start.elapsed() > h { break; }
                    }
                }
            }
            settle(&mut peer, 2).await;
            obs.open_result = match &result {
                None => "pending".into(),
                Some(Ok(_)) => "ok".into(),
                Some(Err(e)) => format!("err:{:?}", std::mem::discriminant(e)).chars().take(40).collect::<String>() + &format!(" {e}"),
            };
            handle = match result {
                Some(Ok(c)) => Some(Handle::Client(c)),
                _ => None,
            };
            // open-phase expectations
            let res = obs.open_result.as_str();
            match ov {
                OpenVariant::Default | OpenVariant::Pipelined | OpenVariant::LateOpen => {
                    if res != "ok" {
                        obs.fails.push((format!("open-failed {:?}", ov), format!("a conforming peer ({:?}) but open returned {res}", ov)));
                    }
                }
                OpenVariant::WrongHeaderVersion | OpenVariant::SaslHeader | OpenVariant::HeaderThenEof | OpenVariant::EofImmediately => {
                    if res == "ok" || res == "pending" {
                        obs.fails.push((format!("open-not-failed {:?}", ov), format!("peer behaviour {:?} but open returned {res}", ov)));
                    }
                }
                OpenVariant::FrameBeforeOpen => {
                    // a frame before open is illegal: the connection must not simply come up and act on the begin
                    let replied_begin = peer.trace.iter().any(|w| w.dir == Dirn::FromLib && matches!(&w.body, Body::Perf(Performative::Begin(_))));
                    if replied_begin {
                        obs.fails.push(("acted-on-frame-before-open".into(), "the library answered a begin that arrived before the peer's open".into()));
                    }
                    if res == "ok" && lib_closed(&peer.trace).is_none() && !replied_begin {
                        obs.fails.push(("frame-before-open-accepted".into(), "a begin frame arriving before the peer's open was silently accepted: the connection opened and was not closed with an error".into()));
                    }
                    if let Some(None) = lib_closed(&peer.trace) {
                        obs.fails.push(("illegal-frame-closed-without-error begin-before-open".into(), "a begin that arrived before the peer's open closed the connection, but the close carries no error".into()));
                    }
                }
                OpenVariant::OpenClosePipelined => {
                    // peer's close must be answered by a close
                    if lib_opened(&peer.trace) && lib_closed(&peer.trace).is_none() {
                        obs.fails.push(("peer-close-unanswered (open-close pipelined)".into(), "the peer sent open and close back to back; the library never sent its close".into()));
                    }
                }
                OpenVariant::Silence => {
                    if res != "pending" {
                        obs.fails.push(("open-completed-without-peer".into(), format!("the peer sent nothing but open returned {res}")));
                    }
                }
                OpenVariant::CloseBeforeOpen => {
                    // the peer has closed: whatever the library makes of a close without open, the call must
                    // come back (the peer's close will not come a second time) and must not report success
                    if res == "pending" {
                        obs.fails.push(("open-hangs-after-close-without-open".into(), format!("the peer answered the header with a close; open() was still pending after {h:?} (the library waits for a close that has already come)")));
                    } else if res == "ok" {
                        obs.fails.push(("open-ok-after-close-without-open".into(), "the peer answered the header with a close but open() reported success".into()));
                    }
                }
                OpenVariant::EmptyThenOpenIdleZero => {
                    // an empty frame before the open may be tolerated or refused; either way the call comes back
                    if res == "pending" {
                        obs.fails.push(("open-hangs-after-empty-frame-before-open".into(), format!("an empty frame, then open(idle-time-out 0): open() still pending after {h:?}")));
                    }
                }
            }
        }
        Role::Listener => {
            // scripted client against the real acceptor
            let mut auto = Auto::none();
            auto.max_frame_size = 4096;
            // a client that sent something odd still answers a close like a conforming peer
            auto.close = matches!(ov, OpenVariant::EmptyThenOpenIdleZero);
            peer = Peer::new(pipe.clone(), 1, auto);
            match ov {
                OpenVariant::Default | OpenVariant::LateOpen | OpenVariant::OpenClosePipelined | OpenVariant::FrameBeforeOpen | OpenVariant::HeaderThenEof | OpenVariant::CloseBeforeOpen | OpenVariant::EmptyThenOpenIdleZero => peer.send_proto_header(AMQP_HEADER),
                OpenVariant::Pipelined => {
                    peer.send_proto_header(AMQP_HEADER);
                    peer.send(0, Performative::Open(peer_open_idle(idle)));
                }
                OpenVariant::WrongHeaderVersion => peer.send_proto_header([b'A', b'M', b'Q', b'P', 0, 1, 1, 0]),
                OpenVariant::SaslHeader => peer.send_proto_header(SASL_HEADER),
                OpenVariant::EofImmediately => peer.close_write(),
                OpenVariant::Silence => {}
            }
            let acceptor = ConnectionAcceptor::new("lib-listener");
            let fut = acceptor.accept(a);
            tokio::pin!(fut);
            let mut result = None;
            let mut round = 0;
            let start = tokio::time::Instant::now();
            loop {
                tokio::select! {
                    biased;
                    r = &mut fut => { result = Some(r); break; }
                    _ = tokio::time::sleep(Duration::from_millis(1)) => {
                        peer.pump();
                        round += 1;
                        if round == 2 {
                            match ov {
                                OpenVariant::Default | OpenVariant::LateOpen => peer.send(0, Performative::Open(peer_open_idle(idle))),
                                OpenVariant::FrameBeforeOpen => {
                                    let b = Begin { remote_channel: None, next_outgoing_id: 0, incoming_window: 10, outgoing_window: 10, handle_max: Default::default(), offered_capabilities: None, desired_capabilities: None, properties: None };
                                    peer.send(0, Performative::Begin(b));
                                    peer.send(0, Performative::Open(peer_open_idle(idle)));
                                }
                                OpenVariant::HeaderThenEof => peer.close_write(),
                                OpenVariant::OpenClosePipelined => {
                                    peer.send(0, Performative::Open(peer_open_idle(idle)));
                                    peer.send(0, Performative::Close(Close { error: None }));
                                }
                                OpenVariant::CloseBeforeOpen => {
                                    peer.send(0, Performative::Close(Close { error: None }));
                                }
                                OpenVariant::EmptyThenOpenIdleZero => {
                                    peer.send_raw(&[0, 0, 0, 8, 2, 0, 0, 0]);
                                    let mut o = peer_open();
                                    o.idle_time_out = Some(0);
                                    peer.send(0, Performative::Open(o));
                                }
                                _ => {}
                            }
                        }
                        if start.elapsed() > h { break; }
                    }
                }
            }
            settle(&mut peer, 2).await;
            obs.open_result = match &result {
                None => "pending".into(),
                Some(Ok(_)) => "ok".into(),
                Some(Err(e)) => format!("err {e}"),
            };
            let res = obs.open_result.clone();
            match ov {
                OpenVariant::Default | OpenVariant::Pipelined | OpenVariant::LateOpen => {
                    if res != "ok" {
                        obs.fails.push((format!("accept-failed {:?}", ov), format!("a conforming client ({:?}) but accept returned {res}", ov)));
                    }
                }
                OpenVariant::WrongHeaderVersion | OpenVariant::HeaderThenEof | OpenVariant::EofImmediately => {
                    if res == "ok" || res == "pending" {
                        obs.fails.push((format!("accept-not-failed {:?}", ov), format!("client behaviour {:?} but accept returned {res}", ov)));
                    }
                }
                OpenVariant::SaslHeader => {
                    // no SASL acceptor configured: must not open an AMQP connection
                    if res == "ok" {
                        obs.fails.push(("accept-ok-on-sasl-header".into(), "accept succeeded although the client sent a SASL header to a listener without SASL".into()));
                    }
                }
                OpenVariant::FrameBeforeOpen => {
                    let replied_begin = peer.trace.iter().any(|w| w.dir == Dirn::FromLib && matches!(&w.body, Body::Perf(Performative::Begin(_))));
                    if replied_begin {
                        obs.fails.push(("acted-on-frame-before-open".into(), "the listener answered a begin that arrived before the client's open".into()));
                    }
                    if let Some(None) = lib_closed(&peer.trace) {
                        obs.fails.push(("illegal-frame-closed-without-error begin-before-open".into(), "a begin that arrived before the client's open closed the connection, but the close carries no error".into()));
                    }
                }
                OpenVariant::OpenClosePipelined => {
                    if lib_opened(&peer.trace) && lib_closed(&peer.trace).is_none() {
                        obs.fails.push(("peer-close-unanswered (open-close pipelined)".into(), "the client sent open and close back to back; the listener never sent its close".into()));
                    }
                }
                OpenVariant::Silence => {
                    if res != "pending" {
                        obs.fails.push(("accept-completed-without-peer".into(), format!("the client sent nothing but accept returned {res}")));
                    }
                }
                OpenVariant::CloseBeforeOpen => {
                    if res == "pending" {
                        obs.fails.push(("open-hangs-after-close-without-open".into(), format!("the client followed its header with a close; accept() was still pending after {h:?}")));
                    } else if res == "ok" {
                        obs.fails.push(("open-ok-after-close-without-open".into(), "the client followed its header with a close but accept() reported success".into()));
                    }
                }
                OpenVariant::EmptyThenOpenIdleZero => {
                    if res == "pending" {
                        obs.fails.push(("open-hangs-after-empty-frame-before-open".into(), format!("an empty frame, then open(idle-time-out 0): accept() still pending after {h:?}")));
                    }
                }
            }
            handle = match result {
                Some(Ok(c)) => Some(Handle::Listener(c)),
                _ => None,
            };
            // from here on the scripted client answers like a conforming peer
            peer.auto.close = true;
            peer.auto.begin = true;
            peer.auto.end = true;
        }
    }
    obs.fails.extend(judge_trace(&peer.trace, false));
    obs.opened = handle.is_some();
    obs.state_keys.push(h64(&(obs.opened, obs.open_result.split(' ').next().map(|s| s.to_string()))));
    let Some(mut handle) = handle.map(Some) else {
        obs.trace = trace_to_strings(&peer.trace);
        return obs;
    };
    // ---------------------------------------------------------------- stage B: events
    let mut sessions: Vec<fe2o3_amqp::session::SessionHandle<()>> = vec![];
    let mut peer_closed: Option<Option<definitions::Error>> = None; // peer's close and its error
    let mut peer_eof = false;
    let mut local_close_done = false;
    let mut illegal_sent: Vec<(&'static str, usize)> = vec![];
    let mut close_results: Vec<(String, Result<(), String>)> = vec![];
    for (i, ev) in events.iter().enumerate() {
        // enabledness
        let enabled = match ev {
            Ev::LBegin => matches!(handle, Some(Handle::Client(_))) && !local_close_done,
            Ev::LClose | Ev::LCloseErr | Ev::LDrop => handle.is_some() && !local_close_done,
            Ev::LCloseCrossed => handle.is_some() && !local_close_done && !peer_eof && peer_closed.is_none() && peer.auto.close && lib_closed(&peer.trace).is_none(),
            Ev::PClose | Ev::PCloseErr => !peer_eof && peer_closed.is_none(),
            Ev::PBeginUnknown | Ev::PEndUnmapped | Ev::PFlowUnmapped | Ev::PEmpty => !peer_eof,
            Ev::PEof => !peer_eof,
            Ev::PWithholdClose => peer.auto.close && !peer_eof && peer_closed.is_none(),
            Ev::Wait => idle,
        };
        if !enabled {
            break;
        }
        let mark = peer.trace.len();
        // (for "ignores everything until the peer's close") the situation before the event: the library has
        // sent a close with an error, the peer has neither closed nor gone, the library's side of the transport is up
        let discarding_before = matches!(lib_closed(&peer.trace), Some(Some(_))) && peer_closed.is_none() && !peer_eof && !pipe.peer_closed(1);
        match ev {
            Ev::LBegin => {
                if let Some(Handle::Client(c)) = handle.as_mut() {
                    let r = drive(&mut peer, Session::begin(c), h).await;
                    match r {
                        Some(Ok(s)) => sessions.push(s),
                        Some(Err(_)) => {}
                        None => {
                            // begin may legitimately hang only if the connection can no longer answer and the library
                            // does not know yet; with a peer that answered close / EOF it must fail
                            if peer_closed.is_some() || peer_eof {
                                obs.fails.push(("begin-hangs-after-close".into(), format!("Session::begin never returned after the peer {}", if peer_eof { "closed the transport" } else { "closed the connection" })));
                            }
                        }
                    }
                }
            }
            Ev::LClose | Ev::LCloseErr => {
                let with_err = *ev == Ev::LCloseErr;
                let r = match handle.as_mut().unwrap() {
                    Handle::Client(c) => {
                        if with_err {
                            drive(&mut peer, c.close_with_error(amqp_error(AmqpError::InternalError, "local error")), h).await
                        } else {
                            drive(&mut peer, c.close(), h).await
                        }
                    }
                    Handle::Listener(c) => {
                        if with_err {
                            drive(&mut peer, c.close_with_error(amqp_error(AmqpError::InternalError, "local error")), h).await
                        } else {
                            drive(&mut peer, c.close(), h).await
                        }
                    }
                };
                match r {
                    None => {
                        // still pending: only fine while the peer has not answered and the transport is up
                        let answered = peer.trace.iter().any(|w| w.dir == Dirn::FromPeer && matches!(&w.body, Body::Perf(Performative::Close(_))));
                        if answered || peer_eof {
                            obs.fails.push(("close-hangs".into(), format!("close() still pending after the peer {}", if peer_eof { "closed the transport" } else { "sent its close" })));
                        }
                        close_results.push((format!("{:?}", ev), Err("pending".into())));
                    }
                    Some(res) => {
                        local_close_done = true;
                        // what did the peer's close carry (if it sent one at all)?
                        let pc = peer.trace.iter().find_map(|w| match (&w.body, w.dir) {
                            (Body::Perf(Performative::Close(c)), Dirn::FromPeer) => Some(c.error.clone()),
                            _ => None,
                        });
                        let lib_close_err = lib_closed(&peer.trace).flatten();
                        match (&res, &pc) {
                            (Ok(()), Some(Some(e))) => obs.fails.push((
                                "peer-error-not-reported".into(),
                                format!("the peer closed with error {:?} but close() returned Ok", e.condition),
                            )),
                            (Err(ConnError::RemoteClosedWithError(got)), Some(Some(e))) => {
                                if got.condition != e.condition {
                                    obs.fails.push(("wrong-peer-error".into(), format!("close() reports {:?}, the peer sent {:?}", got.condition, e.condition)));
                                }
                            }
                            (Err(e), Some(None)) => {
                                // clean close on both sides.  `Err(RemoteClosed)` (no error attached) is the library's
                                // way of saying "the peer closed first" and counts as a clean report; it is only wrong
                                // when the library's close went out BEFORE the peer's close (locally initiated)
                                let lib_pos = peer.trace.iter().position(|w| w.dir == Dirn::FromLib && matches!(&w.body, Body::Perf(Performative::Close(_))));
                                let peer_pos = peer.trace.iter().position(|w| w.dir == Dirn::FromPeer && matches!(&w.body, Body::Perf(Performative::Close(_))));
                                let locally_initiated = matches!((lib_pos, peer_pos), (Some(l), Some(p)) if l < p);
                                let benign = matches!(e, ConnError::RemoteClosed) && !locally_initiated;
                                if !benign && lib_close_err.is_none() && illegal_sent.is_empty() && !peer_eof {
                                    obs.fails.push(("clean-close-reported-as-error".into(), format!("both sides closed without error but close() returned {e}")));
                                }
                            }
                            _ => {}
                        }
                        close_results.push((format!("{:?}", ev), res.map_err(|e| e.to_string())));
                    }
                }
            }
            Ev::LCloseCrossed => {
                peer.auto.close = false;
                let crossed = std::cell::Cell::new(false);
                let r = {
                    let fut = async {
                        match handle.as_mut().unwrap() {
                            Handle::Client(c) => c.close().await,
                            Handle::Listener(c) => c.close().await,
                        }
                    };
                    tokio::pin!(fut);
                    let start = tokio::time::Instant::now();
                    loop {
                        tokio::select! {
                            biased;
                            r = &mut fut => break Some(r),
                            _ = tokio::time::sleep(Duration::from_millis(1)) => {
                                peer.pump();
                                if !crossed.get() && lib_closed(&peer.trace).is_some() {
                                    crossed.set(true);
                                    peer.send_empty();
                                    let b = Begin { remote_channel: None, next_outgoing_id: 0, incoming_window: 10, outgoing_window: 10, handle_max: Default::default(), offered_capabilities: None, desired_capabilities: None, properties: None };
                                    peer.send(6, Performative::Begin(b));
                                    peer.send(0, Performative::Close(Close { error: None }));
                                }
                                if start.elapsed() > h { break None; }
                            }
                        }
                    }
                };
                peer.auto.close = true;
                if crossed.get() {
                    peer_closed = Some(None);
                }
                match r {
                    None => {
                        if crossed.get() {
                            obs.fails.push(("close-hangs".into(), "close() still pending after the peer sent its close (behind an empty frame and a begin that crossed the library's close)".into()));
                        }
                        close_results.push(("LCloseCrossed".into(), Err("pending".into())));
                    }
                    Some(res) => {
                        local_close_done = true;
                        if let (Err(e), true) = (&res, crossed.get()) {
                            if illegal_sent.is_empty() && lib_closed(&peer.trace).flatten().is_none() {
                                obs.fails.push((
                                    "clean-close-reported-as-error (frames crossing the close)".into(),
                                    format!("the library closed first, the peer's empty frame and begin (sent before it saw the close) crossed it, then the peer closed cleanly: no error on the wire, but close() returned {e}"),
                                ));
                            }
                        }
                        close_results.push(("LCloseCrossed".into(), res.map_err(|e| e.to_string())));
                    }
                }
            }
            Ev::LDrop => {
                sessions.clear();
                handle = None;
                local_close_done = true;
            }
            Ev::PClose => {
                peer.send(0, Performative::Close(Close { error: None }));
                peer_closed = Some(None);
            }
            Ev::PCloseErr => {
                peer.send(0, Performative::Close(Close { error: Some(peer_err()) }));
                peer_closed = Some(Some(peer_err()));
            }
            Ev::PBeginUnknown => {
                let b = Begin {
                    remote_channel: Some(7),
                    next_outgoing_id: 0,
                    incoming_window: 10,
                    outgoing_window: 10,
                    handle_max: Default::default(),
                    offered_capabilities: None,
                    desired_capabilities: None,
                    properties: None,
                };
                peer.send(3, Performative::Begin(b));
                illegal_sent.push(("begin-with-unknown-remote-channel", peer.trace.len()));
            }
            Ev::PEndUnmapped => {
                peer.send(9, Performative::End(End { error: None }));
                illegal_sent.push(("end-on-unmapped-channel", peer.trace.len()));
            }
            Ev::PFlowUnmapped => {
                let f = Flow {
                    next_incoming_id: Some(0),
                    incoming_window: 10,
                    next_outgoing_id: 0,
                    outgoing_window: 10,
                    handle: None,
                    delivery_count: None,
                    link_credit: None,
                    available: None,
                    drain: false,
                    echo: false,
                    properties: None,
                };
                peer.send(9, Performative::Flow(f));
                illegal_sent.push(("flow-on-unmapped-channel", peer.trace.len()));
            }
            Ev::PEmpty => peer.send_empty(),
            Ev::PEof => {
                peer.close_write();
                peer_eof = true;
            }
            Ev::PWithholdClose => peer.auto.close = false,
            Ev::Wait => {
                for _ in 0..10 {
                    tokio::time::sleep(Duration::from_millis(100)).await;
                    peer.pump();
                    // a conforming peer keeps the connection alive from its side too
                    if !peer_eof && peer_closed.is_none() {
                        peer.send_empty();
                    }
                }
            }
        }
        settle(&mut peer, 3).await;
        obs.executed = i + 1;
        // ---- obligations at this quiescent state
        let lib_close = lib_closed(&peer.trace);
        let lib_close_before_mark = lib_closed(&peer.trace[..mark]);
        // a peer's close is always answered with a close
        if peer_closed.is_some() && !peer_eof && lib_close.is_none() {
            obs.fails.push((
                "peer-close-unanswered".into(),
                format!("the peer's close was not answered with a close at the next quiescent state (after event {:?})", ev),
            ));
        }
        // a clean close from the peer, with nothing illegal having happened and no local close-with-error, is
        // answered with a clean close (queued frames are flushed first; flushing them must not turn into an error)
        if let (Some(None), Some(Some(e))) = (&peer_closed, &lib_close) {
            let local_err_close = events[..=i].iter().any(|e| *e == Ev::LCloseErr);
            if illegal_sent.is_empty() && !local_err_close {
                obs.fails.push((
                    "clean-peer-close-answered-with-error".into(),
                    format!("the peer closed cleanly and nothing illegal happened, but the library's close carries {:?}", e.condition),
                ));
            }
        }
        // an illegal frame closes the connection with an error and is not acted on - unless the library had
        // already sent its close (then everything is ignored) or the peer had already closed
        if matches!(ev, Ev::PBeginUnknown | Ev::PEndUnmapped | Ev::PFlowUnmapped) {
            let what = illegal_sent.last().unwrap().0;
            let acted = peer.trace[mark..].iter().any(|w| {
                w.dir == Dirn::FromLib && matches!(&w.body, Body::Perf(Performative::Begin(_)) | Body::Perf(Performative::End(_)) | Body::Perf(Performative::Flow(_)))
            });
            if acted {
                obs.fails.push((format!("acted-on-illegal-frame {what}"), format!("the library answered a {what} with a frame of its own")));
            }
            if lib_close_before_mark.is_none() && peer_closed.is_none() && handle.is_some() && !local_close_done {
                match &lib_close {
                    None => obs.fails.push((
                        format!("illegal-frame-not-closed {what}"),
                        format!("a {what} did not close the connection (no close frame at the next quiescent state)"),
                    )),
                    Some(None) => obs.fails.push((
                        format!("illegal-frame-closed-without-error {what}"),
                        format!("a {what} closed the connection but the close carries no error"),
                    )),
                    Some(Some(_)) => {}
                }
            }
        }
        // after closing with an error the endpoint ignores everything until the peer's close: a frame from the
        // peer (which has not closed yet) must not make it go away (shut / drop the transport)
        if discarding_before && matches!(ev, Ev::PBeginUnknown | Ev::PEndUnmapped | Ev::PFlowUnmapped | Ev::PEmpty) && pipe.peer_closed(1) {
            obs.fails.push((
                "stopped-before-peer-close".into(),
                format!("the library had closed with an error and was waiting for the peer's close; the peer's next frame ({:?}) was not ignored: the library shut the transport although the peer's close has not come", ev),
            ));
        }
        obs.fails.extend(judge_trace(&peer.trace, false));
        // canonical observable state
        let key = h64(&(
            lib_close.is_some(),
            lib_close.as_ref().map(|e| e.is_some()),
            peer_closed.is_some(),
            peer_eof,
            handle.is_some(),
            local_close_done,
            sessions.len(),
            peer.auto.close,
            close_results.len(),
        ));
        obs.state_keys.push(key);
    }
    obs.fails.sort();
    obs.fails.dedup();
    obs.trace = trace_to_strings(&peer.trace);
    obs.trace.push(format!("open_result={} close_results={:?}", obs.open_result, close_results));
    drop(handle);
    drop(sessions);
    obs
}

fn run_history(role: Role, ov: OpenVariant, idle: bool, evs: Vec<Ev>) -> HistOut {
    let scen: Scenario<Obs> = {
        let evs = evs.clone();
        Arc::new(move || {
            let evs = evs.clone();
            Box::pin(scenario(role, ov, idle, evs))
        })
    };
    let ex = run_exec(vec![], &RunCfg::none(), &scen);
    let mut out = HistOut::default();
    let ctxs = format!("{:?}/{:?}{}", role, ov, if idle { "/peer-idle-time-out=200ms" } else { "" });
    match ex.out {
        Some(o) => {
            out.executed = o.executed;
            out.fails = o.fails.into_iter().map(|(s, d)| (format!("{s} [{:?}]", role), format!("{ctxs}: {d}"))).collect();
            out.state_keys = o.state_keys;
            out.trace = o.trace;
        }
        None => {
            out.executed = evs.len();
            if ex.watchdog {
                out.fails.push((format!("real-time-hang [{:?}]", role), format!("{ctxs}: the execution did not finish in real time")));
            } else {
                out.machinery = Some(format!("scenario panicked: {:?}", ex.panics));
            }
        }
    }
    if ex.spun {
        out.fails.push((format!("spin [{:?}]", role), format!("{ctxs}: some task polled more than 20000 times at one virtual instant (busy loop)")));
    }
    for p in ex.panics.iter().filter(|p| !p.contains("vcheck/src")) {
        out.fails.push((format!("panic [{:?}]", role), format!("{ctxs}: a library task panicked: {p}")));
    }
    out
}

pub fn run(ctx: &Ctx) -> Outcome {
    let mut out = Outcome::new("model_checking");
    if let Some(p) = &ctx.replay {
        return replay(p, out);
    }
    let depth = if ctx.quick() { 4 } else { 5 };
    let deadline = Instant::now() + Duration::from_secs_f64(ctx.budget_s);
    let mut states = 0u64;
    let mut transitions = 0u64;
    let mut executions = 0u64;
    let mut events = 0u64;
    let mut truncated = false;
    let mut samples = vec![];
    // stage A: every open variant in both roles (no further events)
    for role in [Role::Client, Role::Listener] {
        for ov in OPEN_VARIANTS {
            let o = run_history(role, ov, false, vec![]);
            executions += 1;
            states += 1;
            if let Some(m) = o.machinery {
                out.machinery_errors.push(m);
            }
            for (s, d) in o.fails {
                out.violation(s, d, json!({"role": format!("{:?}", role), "open": format!("{:?}", ov), "events": [], "trace": o.trace}));
            }
        }
    }
    // stage B: histories after a default and a pipelined open
    for role in [Role::Client, Role::Listener] {
        for ov in [OpenVariant::Default, OpenVariant::Pipelined] {
            if ov == OpenVariant::Pipelined && ctx.quick() {
                continue;
            }
          for idle in [false, true] {
            if idle && ov != OpenVariant::Default {
                continue;
            }
            // without an idle time-out `Wait` is disabled, so the search prunes it
            let st = search(ALPHABET.len(), depth, ctx.threads, deadline, |h| {
                run_history(role, ov, idle, h.iter().map(|i| ALPHABET[*i]).collect())
            });
            executions += st.executions;
            events += st.events_executed;
            states += st.distinct_states;
            transitions += st.distinct_transitions;
            truncated |= st.truncated;
            for m in st.machinery {
                out.machinery_errors.push(m);
            }
            for (h, sig, detail, trace) in st.violations {
                let evs: Vec<String> = h.iter().map(|i| format!("{:?}", ALPHABET[*i])).collect();
                out.violation(
                    sig,
                    format!("history {:?}: {detail}", evs),
                    json!({"role": format!("{:?}", role), "open": format!("{:?}", ov), "idle": idle, "events": h, "event_names": evs, "trace": trace}),
                );
            }
            if samples.len() < 3 {
                samples.extend(st.sample_traces.into_iter().take(1));
            }
          }
        }
    }
    // series: frames behind an illegal frame (the library has closed with an error and waits for the peer's close)
    let behind = behind_series(ctx, deadline, &mut out);
    executions += behind.0;
    states += behind.1;
    transitions += behind.2;
    truncated |= behind.4;
    out.set("frames_behind_an_illegal_frame_series", behind.3.clone());
    // schedule exploration: local close races the peer's close (real client <-> real listener)
    let sched1 = schedule_race(ctx, deadline, &mut out);
    let sched2 = schedule_close_vs_queued_ends(ctx, deadline, &mut out);
    let bp = backpressure_flush(&mut out);
    out.set("backpressure_flush_scenarios", bp);
    let sched = (sched1.0 + sched2.0, sched1.1 + sched2.1, format!("{}; {}", sched1.2, sched2.2));
    out.set("states", states.max(1));
    out.set("transitions", transitions.max(1) + sched.1);
    out.set("traces_validated_against_impl", executions + sched.0);
    out.set("executions", executions + sched.0);
    out.set("events_executed", events);
    out.set("schedule_executions", sched.0);
    out.set("samples", json!(samples));
    out.set("exhaustive", !truncated);
    out.set(
        "bound",
        format!(
            "open variants: all {} x 2 roles; histories: depth {depth} over {} events x roles x open variants; frames behind an illegal frame: {}; schedules: {}",
            OPEN_VARIANTS.len(),
            ALPHABET.len(),
            behind.3["bound"].as_str().unwrap_or(""),
            sched.2
        ),
    );
    out.set("rule", "states = distinct canonical observable states (close sent/with error, peer closed, EOF, handle alive, sessions, pending calls) reached at quiescence; transitions = distinct (state, event, state) triples; every state is reached by executing the real connection engine");
    out.assume("the scripted peer reacts at quiescent points only (peer frames are never interleaved inside a library step) except in the schedule exploration, which runs two real endpoints");
    out.assume("'illegal frame' is taken to be a frame on a channel the endpoint never mapped (begin naming an unknown remote-channel, end or flow on an unmapped channel), a frame before open and a second open");
    out.assume("'ignores everything until the peer's close' is taken to include: while the peer has neither closed nor gone away, no frame from the peer makes the endpoint go away (pending close()/on_close() does not return, the transport is not shut); which error the handle reports for a connection the library itself closed with an error is not judged, only that it is not a clean result");
    out
}


/// The transport takes no bytes, `n` sessions are ended (their end frames queue up behind the stuck write), then
/// the peer closes and the transport takes bytes again: every end frame that was queued when the peer's close
/// was handled has to be on the wire before the library's answering close.
fn backpressure_flush(out: &mut Outcome) -> u64 {
    let mut runs = 0;
    for n in [1usize, 2, 4] {
        for peer_err in [false, true] {
            let scen: Scenario<(Vec<String>, Vec<(String, String)>)> = Arc::new(move || {
                Box::pin(async move {
                    let (pipe, a, _b) = Pipe::new();
                    let mut auto = Auto::default();
                    auto.max_frame_size = 4096;
                    let mut peer = Peer::new(pipe.clone(), 1, auto);
                    let h = Duration::from_secs(5);
                    let mut fails = vec![];
                    let Some(Ok(mut conn)) = drive(&mut peer, Connection::builder().container_id("lib").open_with_stream(a), h).await else {
                        return (vec![], vec![("machinery".to_string(), "open failed".to_string())]);
                    };
                    let mut sessions = vec![];
                    for _ in 0..n {
                        match drive(&mut peer, Session::begin(&mut conn), h).await {
                            Some(Ok(s)) => sessions.push(s),
                            _ => return (vec![], vec![("machinery".to_string(), "begin failed".to_string())]),
                        }
                    }
                    settle(&mut peer, 2).await;
                    pipe.stall_writes(0, true);
                    // end every session: each call queues its end frame and then waits for the peer's answer
                    let mut tasks = vec![];
                    for mut s in sessions {
                        tasks.push(tokio::spawn(async move {
                            let _ = s.end().await;
                        }));
                    }
                    tokio::time::sleep(Duration::from_millis(5)).await;
                    // the peer closes while those frames are queued; then the transport takes bytes again
                    let err = if peer_err { Some(vlib::peer::amqp_error(definitions::AmqpError::InternalError, "peer closes")) } else { None };
                    peer.send(0, Performative::Close(Close { error: err }));
                    tokio::time::sleep(Duration::from_millis(5)).await;
                    pipe.stall_writes(0, false);
                    settle(&mut peer, 4).await;
                    let _ = drive(&mut peer, conn.on_close(), h).await;
                    settle(&mut peer, 2).await;
                    for t in tasks {
                        t.abort();
                    }
                    let ends_before_close = {
                        let mut k = 0;
                        for w in peer.trace.iter().filter(|w| w.dir == Dirn::FromLib) {
                            match w.perf() {
                                Some(Performative::End(_)) => k += 1,
                                Some(Performative::Close(_)) => break,
                                _ => {}
                            }
                        }
                        k
                    };
                    if lib_closed(&peer.trace).is_none() {
                        fails.push(("backpressure: peer-close-unanswered".to_string(), "the peer's close was never answered".to_string()));
                    } else if ends_before_close < n {
                        fails.push((
                            "backpressure: queued-frames-dropped-at-peer-close".to_string(),
                            format!("{n} sessions had queued their end frame behind a stalled transport when the peer's close arrived; only {ends_before_close} end frame(s) were written before the library's close"),
                        ));
                    }
                    fails.extend(judge_trace(&peer.trace, false).into_iter().map(|(s, d)| (format!("backpressure: {s}"), d)));
                    (trace_to_strings(&peer.trace), fails)
                })
            });
            let ex = run_exec(vec![], &RunCfg::none(), &scen);
            runs += 1;
            match ex.out {
                Some((trace, fails)) => {
                    for (s, d) in fails {
                        if s == "machinery" {
                            out.machinery_errors.push(d);
                        } else {
                            out.violation(s, d, json!({"kind": "backpressure", "sessions": n, "peer_error": peer_err, "trace": trace}));
                        }
                    }
                }
                None => out.machinery_errors.push(format!("backpressure scenario died: {:?}", ex.panics)),
            }
        }
    }
    runs
}

/// real client against real listener: both close at the same time, all schedules within the bound
fn schedule_race(ctx: &Ctx, deadline: Instant, out: &mut Outcome) -> (u64, u64, String) {
    #[derive(Debug, Hash)]
    struct R {
        client: String,
        listener: String,
        alive: usize,
    }
    let scen: Scenario<R> = Arc::new(|| {
        Box::pin(async {
            let (_pipe, a, b) = Pipe::new();
            let acceptor = ConnectionAcceptor::new("l");
            let lst = tokio::spawn(async move {
                let mut c = acceptor.accept(b).await.map_err(|e| e.to_string())?;
                c.close().await.map_err(|e| e.to_string())
            });
            let cli = tokio::spawn(async move {
                let mut c = Connection::builder().container_id("c").open_with_stream(a).await.map_err(|e| e.to_string())?;
                c.close().await.map_err(|e| e.to_string())
            });
            let t = Duration::from_secs(20);
            let c = tokio::time::timeout(t, cli).await;
            let l = tokio::time::timeout(t, lst).await;
            tokio::time::sleep(Duration::from_millis(5)).await;
            R {
                client: format!("{:?}", c),
                listener: format!("{:?}", l),
                alive: 0,
            }
        })
    });
    let bounds = if ctx.quick() { Bounds::new(1) } else { Bounds::new(2).kind(Kind::Select, 1) };
    let cfg = RunCfg::default();
    let fails = std::sync::Mutex::new(vec![]);
    let st = explore(&cfg, &bounds, &scen, ctx.threads, deadline, |e| {
        let mut f = vec![];
        match &e.out {
            None => f.push(("race: scenario-died".to_string(), format!("panics {:?} watchdog {}", e.panics, e.watchdog))),
            Some(r) => {
                for (who, s) in [("client", &r.client), ("listener", &r.listener)] {
                    if s.contains("Elapsed") {
                        f.push((format!("race: close-hangs {who}"), format!("{who}.close() did not return within 20 s of virtual time when both sides close simultaneously: {s}")));
                    } else if !s.contains("Ok(Ok(Ok(())))") && !s.contains("Remote peer closed\")") {
                        f.push((format!("race: clean-close-reported-as-error {who}"), format!("both sides close cleanly and simultaneously but {who} got {s}")));
                    }
                }
            }
        }
        if e.spun {
            f.push(("race: spin".to_string(), "busy loop detected".to_string()));
        }
        for p in &e.panics {
            f.push(("race: panic".to_string(), p.clone()));
        }
        if !f.is_empty() {
            fails.lock().unwrap().push((f, e.points.clone()));
        }
        h64(&e.out)
    });
    for (f, points) in fails.into_inner().unwrap() {
        for (s, d) in f {
            out.violation(s, d, json!({"schedule": points}));
        }
    }
    for d in &st.divergences {
        out.machinery_errors.push(d.clone());
    }
    (st.executions, st.points_total, format!("open+close race, {} ({} executions, level {:?} complete)", bounds.describe(), st.executions, st.completed_level))
}

/// real client against the scripted peer: two sessions are dropped (their end frames get queued) at the same
/// instant as the peer's clean close arrives; all schedules within the bound.  The peer's close must be
/// answered by a clean close and whatever end frames are written come before it.
fn schedule_close_vs_queued_ends(ctx: &Ctx, deadline: Instant, out: &mut Outcome) -> (u64, u64, String) {
    let scen: Scenario<(Vec<String>, Vec<(String, String)>)> = Arc::new(|| {
        Box::pin(async {
            let (pipe, a, _b) = Pipe::new();
            let mut auto = Auto::default();
            auto.max_frame_size = 4096;
            let mut peer = Peer::new(pipe, 1, auto);
            let h = Duration::from_secs(5);
            let mut fails = vec![];
            let Some(Ok(mut conn)) = drive(&mut peer, Connection::builder().container_id("lib").open_with_stream(a), h).await else {
                return (vec![], vec![("machinery".to_string(), "open failed".to_string())]);
            };
            let s1 = drive(&mut peer, Session::begin(&mut conn), h).await;
            let s2 = drive(&mut peer, Session::begin(&mut conn), h).await;
            let s3 = drive(&mut peer, Session::begin(&mut conn), h).await;
            settle(&mut peer, 2).await;
            // the racing step: three session handles dropped and a clean close from the peer, at one instant
            drop(s1);
            drop(s2);
            drop(s3);
            peer.auto.end = true;
            peer.send(0, Performative::Close(Close { error: None }));
            settle(&mut peer, 4).await;
            let res = drive(&mut peer, conn.on_close(), h).await;
            settle(&mut peer, 2).await;
            match lib_closed(&peer.trace) {
                None => fails.push(("race2: peer-close-unanswered".to_string(), "the peer's close was never answered".to_string())),
                Some(Some(e)) => fails.push((
                    "race2: clean-peer-close-answered-with-error".to_string(),
                    format!("sessions were being ended while the peer closed cleanly; the library's close carries {:?}", e.condition),
                )),
                Some(None) => {}
            }
            match res {
                None => fails.push(("race2: on_close-hangs".to_string(), "on_close() never returned".to_string())),
                Some(Ok(())) | Some(Err(ConnError::RemoteClosed)) => {}
                Some(Err(e)) => fails.push(("race2: clean-close-reported-as-error".to_string(), format!("on_close() returned {e}"))),
            }
            fails.extend(judge_trace(&peer.trace, false).into_iter().map(|(s, d)| (format!("race2: {s}"), d)));
            (trace_to_strings(&peer.trace), fails)
        })
    });
    let bounds = if ctx.quick() { Bounds::new(1) } else { Bounds::new(2).kind(Kind::Select, 1) };
    let cfg = RunCfg::default();
    let fails = std::sync::Mutex::new(vec![]);
    let st = explore(&cfg, &bounds, &scen, ctx.threads, deadline, |e| {
        let mut f = vec![];
        match &e.out {
            None => f.push(("race2: scenario-died".to_string(), format!("panics {:?}", e.panics))),
            Some((_, fl)) => f.extend(fl.iter().cloned()),
        }
        if e.spun {
            f.push(("race2: spin".to_string(), "busy loop detected".to_string()));
        }
        if !f.is_empty() {
            fails.lock().unwrap().push((f, e.points.clone(), e.out.as_ref().map(|o| o.0.clone())));
        }
        h64(&e.out.as_ref().map(|o| &o.0))
    });
    for (f, points, trace) in fails.into_inner().unwrap() {
        for (s, d) in f {
            if s == "machinery" {
                out.machinery_errors.push(d);
            } else {
                out.violation(s, d, json!({"schedule": points, "trace": trace}));
            }
        }
    }
    (st.executions, st.points_total, format!("sessions-ending vs peer close, {} ({} executions, {} distinct traces)", bounds.describe(), st.executions, st.distinct_obs))
}


// ------------------------------------------------------------------------------------------------------------
// Series "frames behind an illegal frame".
//
// The LIBRARY closes with an error (its reaction to an illegal frame of the peer).  The peer, which has not seen
// that close yet, goes on sending (legal and illegal frames), and only then closes (or goes away).  The
// statement: "after closing with an error the endpoint ignores everything until the peer's close; a frame that
// is illegal in the current state closes the connection with an error instead of being acted on".
//
// Monitor (nothing beyond those words):
//  * the illegal frame is answered by a close carrying an error (same classes as in the history search);
//  * from then on the library writes nothing, whatever arrives;
//  * it ignores what arrives *until the peer's close*: as long as the peer has neither closed nor gone away,
//    no later frame makes the endpoint go away - the pending `on_close()` / `close()` of the application has
//    not returned and the library's side of the transport has not been shut at any quiescent point before the
//    harness sends the peer's close;
//  * when the peer's close (clean or with an error) or EOF has arrived the call returns, and it does not
//    report a clean result: the connection was closed with an error by the library itself ("a clean result
//    for a clean close").  Permissive: ANY error is accepted (the library's own, the peer's, a transport
//    error after EOF).
#[derive(Debug, Clone, Copy, PartialEq, Eq, Hash)]
pub enum Trig {
    EndUnmapped,
    BeginUnknown,
    FlowUnmapped,
    /// an open on an open connection
    SecondOpen,
}
pub const TRIGS: [Trig; 4] = [Trig::EndUnmapped, Trig::BeginUnknown, Trig::FlowUnmapped, Trig::SecondOpen];

/// what the peer sends while the library waits for the peer's close (the last two need a mapped session)
#[derive(Debug, Clone, Copy, PartialEq, Eq, Hash)]
pub enum Later {
    Empty,
    /// a begin for a session of the peer's own (legal for a peer that has not seen the close)
    BeginNew,
    BeginUnknown,
    EndUnmapped,
    FlowUnmapped,
    SecondOpen,
    /// a flow on the channel of the session the library began (legal)
    FlowMapped,
    /// an end of that session (legal)
    EndMapped,
}
pub const LATERS: [Later; 8] = [
    Later::Empty,
    Later::BeginNew,
    Later::BeginUnknown,
    Later::EndUnmapped,
    Later::FlowUnmapped,
    Later::SecondOpen,
    Later::FlowMapped,
    Later::EndMapped,
];
const LATERS_WITHOUT_SESSION: usize = 6;

#[derive(Debug, Clone, Copy, PartialEq, Eq, Hash)]
pub enum Fin {
    Close,
    CloseErr,
    Eof,
}
pub const FINS: [Fin; 3] = [Fin::Close, Fin::CloseErr, Fin::Eof];

/// the application's call whose result is watched
#[derive(Debug, Clone, Copy, PartialEq, Eq, Hash)]
pub enum Watch {
    OnClose,
    Close,
}
pub const WATCHES: [Watch; 2] = [Watch::OnClose, Watch::Close];

#[derive(Debug, Clone, PartialEq, Eq, Hash)]
pub struct Behind {
    pub role: Role,
    pub trig: Trig,
    /// (client only) the library has begun a session before
    pub session: bool,
    pub later: Vec<Later>,
    pub fin: Fin,
    pub watch: Watch,
    /// the illegal frame, the later frames and the peer's close arrive in one write (a pipelining peer); the
    /// application's call is made when all of it has been processed.  Otherwise: one frame, quiescence, look.
    pub burst: bool,
}

impl Behind {
    fn to_json(&self) -> serde_json::Value {
        json!({
            "kind": "behind-illegal-frame",
            "role": format!("{:?}", self.role),
            "trig": TRIGS.iter().position(|t| *t == self.trig),
            "session": self.session,
            "later": self.later.iter().map(|l| LATERS.iter().position(|x| x == l).unwrap_or(0)).collect::<Vec<_>>(),
            "fin": FINS.iter().position(|t| *t == self.fin),
            "watch": WATCHES.iter().position(|t| *t == self.watch),
            "burst": self.burst,
            "names": format!("{:?}", self),
        })
    }
    fn from_json(r: &serde_json::Value) -> Behind {
        let ix = |k: &str, n: usize| (r[k].as_u64().unwrap_or(0) as usize).min(n - 1);
        Behind {
            role: if r["role"] == "Listener" { Role::Listener } else { Role::Client },
            trig: TRIGS[ix("trig", TRIGS.len())],
            session: r["session"].as_bool().unwrap_or(false),
            later: r["later"].as_array().map(|a| a.iter().filter_map(|x| x.as_u64()).map(|i| LATERS[(i as usize).min(LATERS.len() - 1)]).collect()).unwrap_or_default(),
            fin: FINS[ix("fin", FINS.len())],
            watch: WATCHES[ix("watch", WATCHES.len())],
            burst: r["burst"].as_bool().unwrap_or(false),
        }
    }
}

fn a_begin(remote_channel: Option<u16>) -> Begin {
    Begin {
        remote_channel,
        next_outgoing_id: 0,
        incoming_window: 10,
        outgoing_window: 10,
        handle_max: Default::default(),
        offered_capabilities: None,
        desired_capabilities: None,
        properties: None,
    }
}

fn a_flow() -> Flow {
    Flow {
        next_incoming_id: Some(0),
        incoming_window: 10,
        next_outgoing_id: 0,
        outgoing_window: 10,
        handle: None,
        delivery_count: None,
        link_credit: None,
        available: None,
        drain: false,
        echo: false,
        properties: None,
    }
}

fn send_trig(peer: &mut Peer, t: Trig) -> &'static str {
    match t {
        Trig::EndUnmapped => {
            peer.send(9, Performative::End(End { error: None }));
            "end-on-unmapped-channel"
        }
        Trig::BeginUnknown => {
            peer.send(3, Performative::Begin(a_begin(Some(7))));
            "begin-with-unknown-remote-channel"
        }
        Trig::FlowUnmapped => {
            peer.send(9, Performative::Flow(a_flow()));
            "flow-on-unmapped-channel"
        }
        Trig::SecondOpen => {
            peer.send(0, Performative::Open(peer_open()));
            "second-open"
        }
    }
}

fn send_later(peer: &mut Peer, l: Later, session_channel: u16) {
    match l {
        Later::Empty => peer.send_empty(),
        Later::BeginNew => peer.send(6, Performative::Begin(a_begin(None))),
        Later::BeginUnknown => peer.send(4, Performative::Begin(a_begin(Some(8)))),
        Later::EndUnmapped => peer.send(9, Performative::End(End { error: None })),
        Later::FlowUnmapped => peer.send(9, Performative::Flow(a_flow())),
        Later::SecondOpen => peer.send(0, Performative::Open(peer_open())),
        Later::FlowMapped => {
            let f = peer.flow_for(0);
            peer.send(session_channel, Performative::Flow(f));
        }
        Later::EndMapped => peer.send(session_channel, Performative::End(End { error: None })),
    }
}

fn send_fin(peer: &mut Peer, f: Fin) {
    match f {
        Fin::Close => peer.send(0, Performative::Close(Close { error: None })),
        Fin::CloseErr => peer.send(0, Performative::Close(Close { error: Some(peer_err()) })),
        Fin::Eof => peer.close_write(),
    }
}

#[derive(Debug, Clone, Default)]
pub struct BehindObs {
    pub setup_error: Option<String>,
    pub fails: Vec<(String, String)>,
    pub trace: Vec<String>,
    /// (event label, canonical observable state after it)
    pub steps: Vec<(String, u64)>,
    /// quiescent points at which the library was seen still waiting for the peer's close
    pub waiting_checks: u64,
    /// frames that reached the library while it was waiting for the peer's close
    pub frames_while_waiting: u64,
    pub result: String,
}

pub async fn behind_scenario(c: Behind) -> BehindObs {
    let mut obs = BehindObs::default();
    let (pipe, a, _b) = Pipe::new();
    let h = Duration::from_secs(5);
    let mut auto = if c.role == Role::Client { Auto::default() } else { Auto::none() };
    auto.max_frame_size = 4096;
    // the peer's close is sent by the script, never as an automatic answer
    auto.close = false;
    let mut peer = Peer::new(pipe.clone(), 1, auto);
    let mut session = None;
    // ---- start state: an open connection (client: optionally with one session)
    let mut handle = match c.role {
        Role::Client => match drive(&mut peer, Connection::builder().container_id("lib").max_frame_size(4096).channel_max(5).open_with_stream(a), h).await {
            Some(Ok(mut conn)) => {
                if c.session {
                    match drive(&mut peer, Session::begin(&mut conn), h).await {
                        Some(Ok(s)) => session = Some(s),
                        other => {
                            obs.setup_error = Some(format!("begin: {:?}", other.map(|r| r.map(|_| ()).map_err(|e| e.to_string()))));
                            return obs;
                        }
                    }
                }
                Handle::Client(conn)
            }
            other => {
                obs.setup_error = Some(format!("open: {:?}", other.map(|r| r.map(|_| ()).map_err(|e| e.to_string()))));
                return obs;
            }
        },
        Role::Listener => {
            peer.send_proto_header(AMQP_HEADER);
            peer.send(0, Performative::Open(peer_open()));
            let acceptor = ConnectionAcceptor::new("lib-listener");
            match drive(&mut peer, acceptor.accept(a), h).await {
                Some(Ok(conn)) => Handle::Listener(conn),
                other => {
                    obs.setup_error = Some(format!("accept: {:?}", other.map(|r| r.map(|_| ()).map_err(|e| e.to_string()))));
                    return obs;
                }
            }
        }
    };
    settle(&mut peer, 2).await;
    if lib_closed(&peer.trace).is_some() || !lib_opened(&peer.trace) || pipe.peer_closed(1) {
        obs.setup_error = Some("start state not reached: the connection is not open".into());
        return obs;
    }
    let session_channel = if c.session { peer.our_channel(0) } else { 0 };
    // ---- the illegal frame (burst: and everything behind it)
    let what = send_trig(&mut peer, c.trig);
    if c.burst {
        for l in &c.later {
            send_later(&mut peer, *l, session_channel);
        }
        send_fin(&mut peer, c.fin);
    }
    settle(&mut peer, 3).await;
    let own_error = match lib_closed(&peer.trace) {
        None => {
            obs.fails.push((format!("illegal-frame-not-closed {what}"), format!("a {what} did not close the connection (no close frame at the next quiescent state)")));
            None
        }
        Some(None) => {
            obs.fails.push((format!("illegal-frame-closed-without-error {what}"), format!("a {what} closed the connection but the close carries no error")));
            None
        }
        Some(Some(e)) => Some(e),
    };
    let close_at = peer.trace.iter().position(|w| w.dir == Dirn::FromLib && matches!(&w.body, Body::Perf(Performative::Close(_))));
    let key = |label: &str, peer: &Peer, returned: bool| -> (String, u64) {
        let lc = lib_closed(&peer.trace);
        (label.to_string(), h64(&(lc.is_some(), lc.map(|e| e.is_some()), returned, pipe.peer_closed(1), peer.close_sent)))
    };
    obs.steps.push(key(what, &peer, false));
    if let Some(own_error) = own_error {
        // ---- the application's call, kept pending across the steps
        let watch = c.watch;
        let mut fut: std::pin::Pin<Box<dyn std::future::Future<Output = Result<(), ConnError>> + '_>> = match (&mut handle, watch) {
            (Handle::Client(conn), Watch::OnClose) => Box::pin(conn.on_close()),
            (Handle::Client(conn), Watch::Close) => Box::pin(conn.close()),
            (Handle::Listener(conn), Watch::OnClose) => Box::pin(conn.on_close()),
            (Handle::Listener(conn), Watch::Close) => Box::pin(conn.close()),
        };
        let mut done: Option<Result<(), ConnError>> = None;
        macro_rules! quiesce {
            ($rounds:expr) => {
                for _ in 0..$rounds {
                    if done.is_none() {
                        tokio::select! {
                            biased;
                            r = &mut fut => { done = Some(r); }
                            _ = tokio::time::sleep(Duration::from_millis(1)) => {}
                        }
                    } else {
                        tokio::time::sleep(Duration::from_millis(1)).await;
                    }
                    peer.pump();
                }
            };
        }
        // the library wrote something after its close: it acted on what it has to ignore
        let wrote_after_close = |peer: &Peer| -> Option<String> { close_at.and_then(|k| peer.trace[k + 1..].iter().find(|w| w.dir == Dirn::FromLib).map(|w| w.short())) };
        let mut stopped_early = false;
        if !c.burst {
            quiesce!(3);
            let mut after = "its-own-close".to_string();
            let mut sent = 0;
            loop {
                // still there, waiting for the peer's close?
                if let Some(r) = &done {
                    obs.fails.push((
                        format!("stopped-before-peer-close on-{after}"),
                        format!("the library closed with {:?} on a {what} and has to ignore everything until the peer's close; after {after} (peer has neither closed nor gone) {:?}() returned {:?}", own_error.condition, watch, r.as_ref().map_err(|e| e.to_string())),
                    ));
                    stopped_early = true;
                } else if pipe.peer_closed(1) {
                    obs.fails.push((
                        format!("stopped-before-peer-close on-{after}"),
                        format!("the library closed with {:?} on a {what} and has to ignore everything until the peer's close; after {after} (peer has neither closed nor gone) it shut its side of the transport", own_error.condition),
                    ));
                    stopped_early = true;
                } else {
                    obs.waiting_checks += 1;
                }
                if let Some(w) = wrote_after_close(&peer) {
                    obs.fails.push((format!("acted-on-frame-after-error-close on-{after}"), format!("after its close({:?}) the library wrote {w} (after {after})", own_error.condition)));
                }
                if stopped_early || sent == c.later.len() {
                    break;
                }
                let l = c.later[sent];
                sent += 1;
                send_later(&mut peer, l, session_channel);
                obs.frames_while_waiting += 1;
                after = format!("{:?}", l);
                quiesce!(3);
                obs.steps.push(key(&after, &peer, done.is_some()));
            }
            if !stopped_early {
                send_fin(&mut peer, c.fin);
            }
        }
        if !stopped_early {
            quiesce!(6);
            obs.steps.push(key(&format!("{:?}", c.fin), &peer, done.is_some()));
            let fin_s = match c.fin {
                Fin::Close => "the peer's close",
                Fin::CloseErr => "the peer's close (with an error)",
                Fin::Eof => "the peer shut the transport",
            };
            match &done {
                None => obs.fails.push((
                    "close-hangs after-error-close".into(),
                    format!("the library closed with {:?} on a {what}; {fin_s} has arrived but {:?}() is still pending", own_error.condition, watch),
                )),
                Some(Ok(())) => obs.fails.push((
                    "own-error-close-reported-clean".into(),
                    format!("the library itself closed the connection with {:?} (on a {what}); after {fin_s} {:?}() returned Ok(()) - a clean result for a connection that was closed with an error", own_error.condition, watch),
                )),
                // permissive: any error
                Some(Err(_)) => {}
            }
            if let Some(w) = wrote_after_close(&peer) {
                obs.fails.push(("acted-on-frame-after-error-close".into(), format!("after its close({:?}) the library wrote {w}", own_error.condition)));
            }
        }
        obs.result = match &done {
            None => "pending".into(),
            Some(Ok(())) => "Ok".into(),
            Some(Err(e)) => format!("Err({})", format!("{:?}", e).split(|ch: char| !ch.is_alphanumeric()).next().unwrap_or("")),
        };
        drop(fut);
    }
    obs.fails.extend(judge_trace(&peer.trace, false));
    obs.fails.sort();
    obs.fails.dedup();
    obs.trace = trace_to_strings(&peer.trace);
    obs.trace.push(format!("case={:?} result={}", c, obs.result));
    drop(session);
    drop(handle);
    obs
}

fn run_behind(c: &Behind) -> (BehindObs, Option<String>) {
    let scen: Scenario<BehindObs> = {
        let c = c.clone();
        Arc::new(move || Box::pin(behind_scenario(c.clone())))
    };
    let ex = run_exec(vec![], &RunCfg::none(), &scen);
    let mut machinery = None;
    let mut o = match ex.out {
        Some(o) => o,
        None => {
            let mut o = BehindObs::default();
            if ex.watchdog {
                o.fails.push(("real-time-hang".into(), "the execution did not finish in real time".into()));
            } else {
                machinery = Some(format!("behind-illegal-frame scenario panicked: {:?} ({:?})", ex.panics, c));
            }
            o
        }
    };
    if let Some(e) = o.setup_error.take() {
        machinery = Some(format!("behind-illegal-frame series, {:?}: {e}", c));
    }
    if ex.spun {
        o.fails.push(("spin".into(), "some task polled more than 20000 times at one virtual instant (busy loop)".into()));
    }
    for p in ex.panics.iter().filter(|p| !p.contains("vcheck/src")) {
        o.fails.push(("panic".into(), format!("a library task panicked: {p}")));
    }
    let role = c.role;
    o.fails = o.fails.into_iter().map(|(s, d)| (format!("{s} [{:?}]", role), format!("{:?}: {d}", c))).collect();
    (o, machinery)
}

fn behind_cases(quick: bool) -> Vec<Behind> {
    let maxlen = if quick { 2 } else { 3 };
    let mut v = vec![];
    for (role, session) in [(Role::Client, false), (Role::Client, true), (Role::Listener, false)] {
        let a = if session { LATERS.len() } else { LATERS_WITHOUT_SESSION };
        // all sequences of 0..=maxlen later frames
        let mut seqs: Vec<Vec<Later>> = vec![vec![]];
        let mut layer: Vec<Vec<Later>> = vec![vec![]];
        for _ in 0..maxlen {
            layer = layer
                .iter()
                .flat_map(|p| {
                    LATERS[..a].iter().map(move |l| {
                        let mut q = p.clone();
                        q.push(*l);
                        q
                    })
                })
                .collect();
            seqs.extend(layer.iter().cloned());
        }
        for trig in TRIGS {
            for later in &seqs {
                for fin in FINS {
                    for watch in WATCHES {
                        for burst in [false, true] {
                            v.push(Behind { role, trig, session, later: later.clone(), fin, watch, burst });
                        }
                    }
                }
            }
        }
    }
    v
}

/// returns (executions, distinct states, distinct transitions, evidence)
fn behind_series(ctx: &Ctx, deadline: Instant, out: &mut Outcome) -> (u64, u64, u64, serde_json::Value, bool) {
    let cases = behind_cases(ctx.quick());
    let results = par_map(&cases, ctx.threads, |_, c| {
        if Instant::now() > deadline {
            return None;
        }
        Some(run_behind(c))
    });
    let mut states: std::collections::HashSet<u64> = Default::default();
    let mut transitions: std::collections::HashSet<(u64, String, u64)> = Default::default();
    let mut executions = 0u64;
    let mut waiting = 0u64;
    let mut frames = 0u64;
    let mut skipped = 0u64;
    let mut by_result: std::collections::BTreeMap<String, u64> = Default::default();
    let mut kept: std::collections::BTreeMap<String, usize> = Default::default();
    let mut sample = None;
    for (c, r) in cases.iter().zip(results) {
        let Some((o, machinery)) = r else {
            skipped += 1;
            continue;
        };
        executions += 1;
        waiting += o.waiting_checks;
        frames += o.frames_while_waiting;
        *by_result.entry(format!("{:?}/{:?}: {}", c.fin, c.watch, o.result)).or_insert(0) += 1;
        if let Some(m) = machinery {
            if out.machinery_errors.len() < 10 {
                out.machinery_errors.push(m);
            }
        }
        let mut prev = 0u64;
        for (label, k) in &o.steps {
            states.insert(*k);
            transitions.insert((prev, label.clone(), *k));
            prev = *k;
        }
        for (s, d) in &o.fails {
            // the cases are enumerated shortest first: the first ones of a class are the smallest
            let n = kept.entry(s.clone()).or_insert(0);
            if *n < 3 {
                *n += 1;
                let mut rp = c.to_json();
                rp["trace"] = json!(o.trace);
                out.violation(s.clone(), d.clone(), rp);
            }
        }
        if sample.is_none() && !c.burst && c.later.len() == 2 && c.session && o.fails.is_empty() {
            sample = Some(json!({"case": format!("{:?}", c), "trace": o.trace}));
        }
    }
    let ev = json!({
        "executions": executions,
        "cases_not_run_budget": skipped,
        "quiescent_points_library_seen_waiting_for_peer_close": waiting,
        "frames_sent_while_library_waits_for_peer_close": frames,
        "results_by_ending_and_call": by_result,
        "bound": format!("roles client (with and without a session) and listener x 4 illegal frames (end/flow on an unmapped channel, begin with an unknown remote-channel, second open) x all sequences of 0..={} later frames over {} kinds ({} without a session) x peer ends with close / close(error) / EOF x the application waits in on_close() / close() x frame-by-frame / one burst", if ctx.quick() { 2 } else { 3 }, LATERS.len(), LATERS_WITHOUT_SESSION),
        "sample": sample,
    });
    (executions, states.len() as u64, transitions.len() as u64, ev, skipped > 0)
}

fn replay(p: &std::path::Path, mut out: Outcome) -> Outcome {
    let s = std::fs::read_to_string(p).unwrap_or_default();
    let j: serde_json::Value = serde_json::from_str(&s).unwrap_or_default();
    let r = &j["replay"];
    if r["kind"] == "behind-illegal-frame" {
        let c = Behind::from_json(r);
        println!("replaying {:?}", c);
        let (o, machinery) = run_behind(&c);
        for l in &o.trace {
            println!("  {l}");
        }
        if let Some(m) = machinery {
            out.machinery_errors.push(m);
        }
        for (s, d) in o.fails {
            println!("  FAIL {s}: {d}");
            out.violation(s, d, r.clone());
        }
        out.set("states", 1);
        out.set("transitions", 1);
        out.set("traces_validated_against_impl", 1);
        out.set("samples", json!([r]));
        return out;
    }
    let role = if r["role"] == "Listener" { Role::Listener } else { Role::Client };
    let ov = OPEN_VARIANTS.iter().copied().find(|o| format!("{:?}", o) == r["open"].as_str().unwrap_or("")).unwrap_or(OpenVariant::Default);
    let evs: Vec<Ev> = r["events"].as_array().map(|a| a.iter().filter_map(|x| x.as_u64()).map(|i| ALPHABET[i as usize]).collect()).unwrap_or_default();
    println!("replaying {:?} {:?} {:?}", role, ov, evs);
    let o = run_history(role, ov, r["idle"].as_bool().unwrap_or(false), evs);
    for l in &o.trace {
        println!("  {l}");
    }
    for (s, d) in o.fails {
        println!("  FAIL {s}: {d}");
        out.violation(s, d, r.clone());
    }
    out.set("states", 1);
    out.set("transitions", 1);
    out.set("traces_validated_against_impl", 1);
    out.set("samples", json!([r]));
    out
}
