//! C20 - all codec entry points agree: serialized_size vs to_vec, slice reader vs io reader (results
//! and bytes consumed, under every read chunking), to_value/from_value vs bytes, and the frame
//! decoder leaving a transfer's payload untouched.
use crate::c03::{hex_full, trunc};
use crate::typed::{self, dbg, Expect, Visitor};
use bytes::BytesMut;
use fe2o3_amqp::frames::amqp::{FrameBody, FrameDecoder};
use fe2o3_amqp_types::messaging::message::__private::{Deserializable, Serializable};
use fe2o3_amqp_types::messaging::{Body, Message};
use refamqp::RVal;
use serde::de::DeserializeOwned;
use serde::Serialize;
use serde_amqp::Value;
use serde_json::json;
use std::collections::HashSet;
use std::fmt::Debug;
use std::io::Read;
use std::sync::atomic::{AtomicU64, Ordering};
use std::sync::Mutex;
use tokio_util::codec::Decoder;
use vlib::corpus;
use vlib::report::{Ctx, Outcome};
use vlib::util::{catch, h64, hex, par_map};

/// io::Read that hands out at most `k` bytes per call and counts what it handed out
struct Chunked<'a> {
    data: &'a [u8],
    pos: usize,
    k: usize,
}
impl Read for Chunked<'_> {
    fn read(&mut self, buf: &mut [u8]) -> std::io::Result<usize> {
        let n = buf.len().min(self.k).min(self.data.len() - self.pos);
        buf[..n].copy_from_slice(&self.data[self.pos..self.pos + n]);
        self.pos += n;
        Ok(n)
    }
}

fn trailer() -> Vec<u8> {
    let mut t: Vec<u8> = vec![0x00, 0x53, 0x77, 0xa1, 0x03, b'x', b'y', b'z'];
    t.extend((0..=255u8).rev());
    t
}

fn chunk_sizes(len: usize, quick: bool) -> Vec<usize> {
    let cap = if quick { 24 } else { 300 };
    let mut v: Vec<usize> = (1..=len.min(cap)).collect();
    for k in [len.saturating_sub(1), len, len + 1, len + 7, 4096] {
        if k >= 1 && !v.contains(&k) {
            v.push(k);
        }
    }
    v
}

struct Cnt {
    reads: AtomicU64,
}

/// generic agreement oracle; `eq` compares decoded items
fn agree<T, E>(what: &str, shape: &str, item_dbg: &str, enc: &[u8], size: Result<usize, String>, quick: bool, cnt: &Cnt, eq: E) -> Vec<(String, String)>
where
    T: DeserializeOwned + Debug,
    E: Fn(&T, &T) -> bool,
{
    let mut f = vec![];
    match size {
        Ok(n) if n != enc.len() => f.push((
            format!("size-mismatch {what} {shape}"),
            format!("serialized_size = {n} but to_vec produced {} bytes for {item_dbg}: {}", enc.len(), hex(enc)),
        )),
        Err(e) => f.push((
            format!("size-error {what} {shape}"),
            format!("serialized_size failed ({e}) although to_vec succeeded for {item_dbg}"),
        )),
        _ => {}
    }
    let from_slice = catch(|| serde_amqp::from_slice::<T>(enc));
    let Ok(Ok(a)) = from_slice else {
        // decoding its own encoding fails: C03's business; still both readers must agree on failing
        let r = catch(|| serde_amqp::from_reader::<T>(std::io::Cursor::new(enc)));
        if let Ok(Ok(b)) = r {
            f.push((
                format!("reader-accepts-slice-rejects {what} {shape}"),
                format!("from_slice fails but from_reader returns {} for {}", dbg(&b), hex(enc)),
            ));
        }
        return f;
    };
    // slice reader with trailer: result equal (from_slice ignores trailing bytes? then it must equal; if it
    // rejects trailing bytes that is fine too)
    let mut with_trailer = enc.to_vec();
    let tr = trailer();
    with_trailer.extend_from_slice(&tr);
    // io reader over a cursor
    {
        let mut cur = std::io::Cursor::new(&with_trailer[..]);
        cnt.reads.fetch_add(1, Ordering::Relaxed);
        match catch(|| serde_amqp::from_reader::<T>(&mut cur)) {
            Ok(Ok(b)) => {
                if !eq(&a, &b) {
                    f.push((
                        format!("slice-vs-reader {what} {shape}"),
                        format!("from_slice -> {} but from_reader -> {} for {}", dbg(&a), dbg(&b), hex(enc)),
                    ));
                }
                if cur.position() as usize != enc.len() {
                    f.push((
                        format!("reader-consumed {what} {shape}"),
                        format!(
                            "from_reader consumed {} bytes of a {}-byte encoding followed by a trailer ({})",
                            cur.position(),
                            enc.len(),
                            hex(enc)
                        ),
                    ));
                }
            }
            Ok(Err(e)) => f.push((
                format!("reader-rejects {what} {shape}"),
                format!("from_slice accepts but from_reader (cursor, with trailer) fails: {e}; {}", hex(enc)),
            )),
            Err(p) => f.push((format!("reader-panic {what} {shape}"), format!("{p}; {}", hex(enc)))),
        }
    }
    // io reader fed k bytes at a time
    for k in chunk_sizes(enc.len(), quick) {
        let mut rd = Chunked {
            data: &with_trailer,
            pos: 0,
            k,
        };
        cnt.reads.fetch_add(1, Ordering::Relaxed);
        match catch(|| serde_amqp::from_reader::<T>(&mut rd)) {
            Ok(Ok(b)) => {
                if !eq(&a, &b) {
                    f.push((
                        format!("slice-vs-chunked-reader {what} {shape}"),
                        format!("chunk={k}: from_slice -> {} but from_reader -> {} for {}", dbg(&a), dbg(&b), hex(enc)),
                    ));
                    break;
                }
                if rd.pos != enc.len() {
                    f.push((
                        format!("reader-consumed {what} {shape}"),
                        format!("chunk={k}: from_reader consumed {} bytes of a {}-byte encoding ({})", rd.pos, enc.len(), hex(enc)),
                    ));
                    break;
                }
            }
            Ok(Err(e)) => {
                f.push((
                    format!("chunked-reader-rejects {what} {shape}"),
                    format!("chunk={k}: from_reader fails: {e}; {}", hex(enc)),
                ));
                break;
            }
            Err(p) => {
                f.push((format!("reader-panic {what} {shape}"), format!("chunk={k}: {p}; {}", hex(enc))));
                break;
            }
        }
    }
    f
}


// ------------------------------------------------------------------------------------ typed pairs
/// Two NATIVE typed values (the wrappers that switch the deserializer into a special mode: symbol, symbol
/// reference, timestamp, uuid, decimals, array, lazy value ...) written as a pair and read back as the same pair
/// of types through both readers: whatever mode the first one sets must be gone when the second is read.
fn typed_pair_cases() -> Vec<(String, Vec<(String, String)>)> {
    use serde_amqp::lazy::LazyValue;
    use serde_amqp::primitives::{Array, Dec128, Dec32, Dec64, Symbol, SymbolRef, Timestamp, Uuid};
    use serde_bytes::ByteBuf;
    let mut out: Vec<(String, Vec<(String, String)>)> = vec![];
    fn one<A, B>(label: String, a: A, b: B) -> (String, Vec<(String, String)>)
    where
        A: Serialize + for<'de> serde::Deserialize<'de> + PartialEq + Debug + Clone,
        B: Serialize + for<'de> serde::Deserialize<'de> + PartialEq + Debug + Clone,
    {
        let mut f = vec![];
        let pair = (a.clone(), b.clone());
        let bytes = match catch(|| serde_amqp::to_vec(&pair)) {
            Ok(Ok(x)) => x,
            Ok(Err(e)) => return (label, vec![("typed-pair-encode-error".into(), format!("to_vec failed: {e}"))]),
            Err(p) => return (label, vec![("panic typed-pair encode".into(), p)]),
        };
        for io in [false, true] {
            let how = if io { "io reader" } else { "slice reader" };
            let r = catch(|| if io { serde_amqp::from_reader::<(A, B)>(&bytes[..]) } else { serde_amqp::from_slice::<(A, B)>(&bytes) });
            match r {
                Err(p) => f.push(("panic typed-pair decode".into(), format!("{how}: decoding {} panicked: {p}", hex(&bytes)))),
                Ok(Err(e)) => f.push(("typed-pair-decode-error".into(), format!("{how}: the library's own encoding {} of the pair is refused: {e}", hex(&bytes)))),
                Ok(Ok(got)) => {
                    if got != pair {
                        f.push(("typed-pair-second-value-disturbed".into(), format!("{how}: {} decodes to {} instead of {:?}", hex(&bytes), trunc(&format!("{:?}", got)), pair)));
                    }
                }
            }
        }
        (label, f)
    }
    macro_rules! seconds {
        ($name:expr, $a:expr) => {{
            out.push(one(format!("({}, binary)", $name), $a, ByteBuf::from(vec![1u8, 2, 3])));
            out.push(one(format!("({}, string)", $name), $a, String::from("text")));
            out.push(one(format!("({}, long)", $name), $a, -5i64));
            out.push(one(format!("({}, symbol)", $name), $a, Symbol::from("sym")));
            out.push(one(format!("({}, timestamp)", $name), $a, Timestamp::from_milliseconds(7)));
            out.push(one(format!("({}, list of ubyte)", $name), $a, vec![1u8, 2]));
            out.push(one(format!("({}, array of ubyte)", $name), $a, Array::from(vec![1u8, 2])));
            out.push(one(format!("({}, uuid)", $name), $a, Uuid::from([9u8; 16])));
            out.push(one(format!("({}, value)", $name), $a, Value::Binary(ByteBuf::from(vec![4u8]))));
        }};
    }
    seconds!("symbol", Symbol::from("a"));
    seconds!("timestamp", Timestamp::from_milliseconds(1));
    seconds!("uuid", Uuid::from([1u8; 16]));
    seconds!("decimal32", Dec32::from([1u8; 4]));
    seconds!("decimal64", Dec64::from([1u8; 8]));
    seconds!("decimal128", Dec128::from([1u8; 16]));
    seconds!("array of ubyte", Array::from(vec![3u8]));
    seconds!("binary", ByteBuf::from(vec![0u8]));
    seconds!("char", 'x');
    // a symbol reference borrows from the input: slice reader only
    {
        let bytes = serde_amqp::to_vec(&(Symbol::from("a"), ByteBuf::from(vec![1u8]))).unwrap_or_default();
        let r = catch(|| serde_amqp::from_slice::<(SymbolRef, ByteBuf)>(&bytes).map(|(s, b)| (s.0.to_string(), b)));
        let mut f = vec![];
        match r {
            Err(p) => f.push(("panic typed-pair decode".into(), format!("slice reader: decoding {} as (SymbolRef, binary) panicked: {p}", hex(&bytes)))),
            Ok(Err(e)) => f.push(("typed-pair-decode-error".into(), format!("slice reader: {} as (SymbolRef, binary) is refused: {e}", hex(&bytes)))),
            Ok(Ok((s, b))) => {
                if s != "a" || b != ByteBuf::from(vec![1u8]) {
                    f.push(("typed-pair-second-value-disturbed".into(), format!("slice reader: {} as (SymbolRef, binary) gives ({s:?}, {b:?})", hex(&bytes))));
                }
            }
        }
        out.push(("(symbol reference, binary)".into(), f));
    }
    // a lazy value first
    {
        let bytes = serde_amqp::to_vec(&(Symbol::from("a"), ByteBuf::from(vec![1u8]))).unwrap_or_default();
        for io in [false, true] {
            let r = catch(|| if io { serde_amqp::from_reader::<(LazyValue, ByteBuf)>(&bytes[..]) } else { serde_amqp::from_slice::<(LazyValue, ByteBuf)>(&bytes) });
            let mut f = vec![];
            match r {
                Err(p) => f.push(("panic typed-pair decode".into(), format!("decoding {} as (LazyValue, binary) panicked: {p}", hex(&bytes)))),
                Ok(Err(e)) => f.push(("typed-pair-decode-error".into(), format!("{} as (LazyValue, binary) is refused: {e}", hex(&bytes)))),
                Ok(Ok((_, b))) => {
                    if b != ByteBuf::from(vec![1u8]) {
                        f.push(("typed-pair-second-value-disturbed".into(), format!("{} as (LazyValue, binary): the binary reads {b:?}", hex(&bytes))));
                    }
                }
            }
            out.push((format!("(lazy value, binary) {}", if io { "io" } else { "slice" }), f));
        }
    }
    out
}

// ------------------------------------------------------------------------------------ two values, one deserializer
/// `a` then `b` encoded back to back and decoded with ONE deserializer (as every composite, frame and message
/// decoder does): reading `a` - as a Value or as a LazyValue - must leave `b` untouched, through both readers.
pub fn check_sequence(a: &Value, b: &Value) -> Vec<(String, String)> {
    use serde::Deserialize;
    use serde_amqp::de::Deserializer;
    use serde_amqp::lazy::LazyValue;
    use serde_amqp::read::{IoReader, SliceReader};
    let mut f = vec![];
    let (Ok(Ok(ea)), Ok(Ok(eb))) = (catch(|| serde_amqp::to_vec(a)), catch(|| serde_amqp::to_vec(b))) else {
        return f;
    };
    if catch(|| serde_amqp::from_slice::<Value>(&ea)).map(|r| r.ok()).ok().flatten().as_ref() != Some(a)
        || catch(|| serde_amqp::from_slice::<Value>(&eb)).map(|r| r.ok()).ok().flatten().as_ref() != Some(b)
    {
        return f; // does not round-trip on its own: C03's business
    }
    let mut both = ea.clone();
    both.extend_from_slice(&eb);
    let what = format!("{} then {}", corpus::shape(a), corpus::shape(b));
    for lazy_first in [false, true] {
        for io in [false, true] {
            let r = catch(|| -> Result<(bool, Value), String> {
                if io {
                    let mut de = Deserializer::new(IoReader::new(std::io::Cursor::new(&both[..])));
                    let first_ok = if lazy_first {
                        LazyValue::deserialize(&mut de).map_err(|e| format!("first: {e}"))?.as_slice() == &ea[..]
                    } else {
                        &Value::deserialize(&mut de).map_err(|e| format!("first: {e}"))? == a
                    };
                    let second = Value::deserialize(&mut de).map_err(|e| format!("second: {e}"))?;
                    Ok((first_ok, second))
                } else {
                    let mut de = Deserializer::new(SliceReader::new(&both[..]));
                    let first_ok = if lazy_first {
                        LazyValue::deserialize(&mut de).map_err(|e| format!("first: {e}"))?.as_slice() == &ea[..]
                    } else {
                        &Value::deserialize(&mut de).map_err(|e| format!("first: {e}"))? == a
                    };
                    let second = Value::deserialize(&mut de).map_err(|e| format!("second: {e}"))?;
                    Ok((first_ok, second))
                }
            });
            let how = format!("{} first, {} reader", if lazy_first { "LazyValue" } else { "Value" }, if io { "io" } else { "slice" });
            match r {
                Ok(Ok((first_ok, second))) => {
                    if !first_ok {
                        f.push((format!("sequence-first-differs [{}]", if lazy_first { "lazy" } else { "value" }), format!("{what} ({how}): the first value read from {} is not the first value written", hex(&both))));
                    }
                    if &second != b {
                        f.push((
                            format!("sequence-second-value-disturbed [{} first]", if lazy_first { "lazy" } else { "value" }),
                            format!("{what} ({how}): after reading the first value from {} the second one decodes to {} instead of {}", hex(&both), trunc(&format!("{:?}", second)), trunc(&format!("{:?}", b))),
                        ));
                    }
                }
                Ok(Err(e)) => f.push((
                    format!("sequence-error [{} first]", if lazy_first { "lazy" } else { "value" }),
                    format!("{what} ({how}): {e} for {}", hex(&both)),
                )),
                Err(p) => f.push((format!("sequence-panic [{} first]", if lazy_first { "lazy" } else { "value" }), format!("{what} ({how}): {p}"))),
            }
        }
    }
    f.sort();
    f.dedup_by(|x, y| x.0 == y.0);
    f
}

pub fn check_value(v: &Value, quick: bool, cnt: &Cnt) -> Vec<(String, String)> {
    let Ok(Ok(enc)) = catch(|| serde_amqp::to_vec(v)) else {
        return vec![];
    };
    let shape = corpus::shape(v);
    let size = match catch(|| serde_amqp::serialized_size(v)) {
        Ok(Ok(n)) => Ok(n),
        Ok(Err(e)) => Err(e.to_string()),
        Err(p) => Err(format!("panic: {p}")),
    };
    let mut f = agree::<Value, _>("value", &shape, &trunc(&format!("{:?}", v)), &enc, size, quick, cnt, |a, b| a == b);
    // the widest spec-valid encoding of the same value: the readers must agree on it as well
    let rv = corpus::value_to_rval(v);
    if rv.well_formed().is_ok() && crate::c05::array_of_compound(v).is_none() && !crate::c05::zero_width_array(v) {
        let wenc = refamqp::encode_widest(&rv);
        if wenc != enc {
            let fw = agree::<Value, _>("value(widest)", &shape, &trunc(&format!("{:?}", v)), &wenc, Ok(wenc.len()), true, cnt, |a, b| a == b);
            f.extend(fw);
        }
    }
    // the same bytes read as a LazyValue (the undecoded bytes of one value): slice and stream must agree too
    if crate::c05::array_of_compound(v).is_none() && !crate::c05::zero_width_array(v) {
        let fl = agree::<serde_amqp::lazy::LazyValue, _>("lazy", "value", &trunc(&format!("{:?}", v)), &enc, Ok(enc.len()), true, cnt, |a, b| a.as_slice() == b.as_slice());
        f.extend(fl);
        if let Ok(Ok(l)) = catch(|| serde_amqp::from_slice::<serde_amqp::lazy::LazyValue>(&enc)) {
            if l.as_slice() != &enc[..] {
                f.push(("lazy-bytes-differ value".to_string(), format!("from_slice::<LazyValue> of {} holds {}", hex(&enc), hex(l.as_slice()))));
            }
        }
    }
    // to_value is the identity on Value; from_value::<Value> too
    match catch(|| serde_amqp::to_value(v)) {
        Ok(Ok(tv)) => {
            if &tv != v {
                f.push((
                    format!("to_value {shape}"),
                    format!("to_value({}) = {}", trunc(&format!("{:?}", v)), trunc(&format!("{:?}", tv))),
                ));
            }
        }
        Ok(Err(e)) => f.push((format!("to_value-error {shape}"), format!("{e} for {}", trunc(&format!("{:?}", v))))),
        Err(p) => f.push((format!("to_value-panic {shape}"), format!("{p} for {}", trunc(&format!("{:?}", v))))),
    }
    // known structural root causes get one signature each
    if let Some(k) = crate::c05::array_of_compound(v) {
        for x in f.iter_mut() {
            x.0 = k.to_string();
        }
    } else if crate::c05::zero_width_array(v) {
        for x in f.iter_mut() {
            if !x.0.starts_with("from_value") {
                x.0 = "array-zero-width-elements".to_string();
            }
        }
    }
    f.dedup_by(|a, b| a.0 == b.0);
    f
}

struct TypedC20 {
    quick: bool,
    cnt: Cnt,
}

impl Visitor for TypedC20 {
    fn visit<T: Serialize + DeserializeOwned + Debug>(&self, ty: &'static str, mask: u64, _alt: bool, item: &T, _e: &Expect) -> Vec<(String, String)> {
        let Ok(Ok(enc)) = catch(|| serde_amqp::to_vec(item)) else {
            return vec![];
        };
        let size = match catch(|| serde_amqp::serialized_size(item)) {
            Ok(Ok(n)) => Ok(n),
            Ok(Err(e)) => Err(e.to_string()),
            Err(p) => Err(format!("panic: {p}")),
        };
        // chunked-reader sweep on a subset of masks only (cost), always for small types
        let quick = self.quick || mask % 7 != 0;
        let mut f = agree::<T, _>("typed", ty, &dbg(item), &enc, size, quick, &self.cnt, |a, b| dbg(a) == dbg(b));
        // reference-encoded variants of the same item (descriptor by code / by symbol, narrowest / widest):
        // slice and stream readers must agree on each of them too, for the concrete type and for the
        // descriptor-peeking enums
        for (label, venc) in crate::c05::composite_variants(_e) {
            if !label.starts_with("defaults-null,multi-array,trailing-elided") {
                continue;
            }
            let a = catch(|| serde_amqp::from_slice::<T>(&venc));
            let mut with_trailer = venc.clone();
            with_trailer.extend_from_slice(&trailer());
            for k in [1usize, 2, 3, 5, 8, venc.len().saturating_sub(1).max(1), venc.len() + 3, 4096] {
                let mut rd = Chunked { data: &with_trailer, pos: 0, k };
                self.cnt.reads.fetch_add(1, Ordering::Relaxed);
                let b = catch(|| serde_amqp::from_reader::<T>(&mut rd));
                let same = match (&a, &b) {
                    (Ok(Ok(x)), Ok(Ok(y))) => dbg(x) == dbg(y) && rd.pos == venc.len(),
                    (Ok(Err(_)), Ok(Err(_))) => true,
                    (Err(_), Err(_)) => true,
                    _ => false,
                };
                if !same {
                    f.push((
                        format!("slice-vs-chunked-reader typed {ty} [{label}]"),
                        format!(
                            "chunk={k}: valid encoding {}: slice -> {:?}, reader -> {:?} (consumed {} of {})",
                            hex(&venc),
                            a.as_ref().map(|r| r.as_ref().map(dbg).map_err(|e| e.to_string())),
                            b.as_ref().map(|r| r.as_ref().map(dbg).map_err(|e| e.to_string())),
                            rd.pos,
                            venc.len()
                        ),
                    ));
                    break;
                }
            }
            let ws = typed::wrapper_decodes(ty, &venc, &dbg(item), false);
            let wr = typed::wrapper_decodes(ty, &with_trailer, &dbg(item), true);
            for ((w, _, x), (_, _, y)) in ws.into_iter().zip(wr) {
                if x.is_ok() != y.is_ok() || (x.is_ok() && x != y) {
                    f.push((
                        format!("slice-vs-reader typed {ty} as {w} [{label}]"),
                        format!("valid encoding {}: slice -> {:?}, reader -> {:?}", hex(&venc), x, y),
                    ));
                }
            }
        }
        // typed -> Value tree -> typed   vs   typed -> bytes -> typed
        match catch(|| serde_amqp::to_value(item)) {
            Ok(Ok(tree)) => {
                // the tree must encode to bytes that decode to the same item
                match catch(|| serde_amqp::to_vec(&tree)) {
                    Ok(Ok(tb)) => match catch(|| serde_amqp::from_slice::<T>(&tb)) {
                        Ok(Ok(back)) => {
                            if dbg(&back) != dbg(item) {
                                f.push((
                                    format!("value-tree-bytes typed {ty}"),
                                    format!("to_value -> to_vec -> from_slice gives {} for {}", dbg(&back), dbg(item)),
                                ));
                            }
                        }
                        other => f.push((
                            format!("value-tree-bytes-rejected typed {ty}"),
                            format!("bytes of to_value({}) = {} are not accepted as {ty}: {:?}", dbg(item), hex(&tb), other.map(|r| r.map(|_| ()).map_err(|e| e.to_string()))),
                        )),
                    },
                    other => f.push((
                        format!("value-tree-encode typed {ty}"),
                        format!("to_vec(to_value(x)) fails for {}: {:?}", dbg(item), other.map(|r| r.map(|_| ()).map_err(|e| e.to_string()))),
                    )),
                }
                match catch(|| serde_amqp::from_value::<T>(tree.clone())) {
                    Ok(Ok(back)) => {
                        if dbg(&back) != dbg(item) {
                            f.push((
                                format!("from_value(to_value) typed {ty}"),
                                format!("from_value(to_value(x)) = {} for x = {}", dbg(&back), dbg(item)),
                            ));
                        }
                    }
                    Ok(Err(e)) => f.push((
                        format!("from_value-error typed {ty}"),
                        format!("from_value(to_value(x)) fails: {e}; x = {}; tree = {}", dbg(item), trunc(&dbg(&tree))),
                    )),
                    Err(p) => f.push((format!("from_value-panic typed {ty}"), format!("{p}; x = {}", dbg(item)))),
                }
                // and decoding the bytes as Value gives a tree that from_value accepts equally
                if let Ok(Ok(tree2)) = catch(|| serde_amqp::from_slice::<Value>(&enc)) {
                    match catch(|| serde_amqp::from_value::<T>(tree2.clone())) {
                        Ok(Ok(back)) => {
                            if dbg(&back) != dbg(item) {
                                f.push((
                                    format!("from_value(decoded-tree) typed {ty}"),
                                    format!("from_value(from_slice::<Value>(bytes)) = {} for x = {}", dbg(&back), dbg(item)),
                                ));
                            }
                        }
                        Ok(Err(e)) => f.push((
                            format!("from_value(decoded-tree)-error typed {ty}"),
                            format!("{e}; x = {}; tree = {}", dbg(item), trunc(&dbg(&tree2))),
                        )),
                        Err(p) => f.push((format!("from_value-panic typed {ty}"), format!("{p}; x = {}", dbg(item)))),
                    }
                }
            }
            Ok(Err(e)) => f.push((format!("to_value-error typed {ty}"), format!("{e}; x = {}", dbg(item)))),
            Err(p) => f.push((format!("to_value-panic typed {ty}"), format!("{p}; x = {}", dbg(item)))),
        }
        f
    }

    fn visit_message(&self, _mask: u64, _alt: bool, m: &Message<Body<Value>>, _secs: &[RVal]) -> Vec<(String, String)> {
        if matches!(m.body, Body::Empty) {
            return vec![];
        }
        let Ok(Ok(enc)) = catch(|| serde_amqp::to_vec(&Serializable(m))) else {
            return vec![];
        };
        let size = match catch(|| serde_amqp::serialized_size(&Serializable(m))) {
            Ok(Ok(n)) => Ok(n),
            Ok(Err(e)) => Err(e.to_string()),
            Err(p) => Err(format!("panic: {p}")),
        };
        // a message is a sequence of sections: the reader legitimately reads to the end of input to find the
        // last section, so no trailer here - compare results only
        let mut f = vec![];
        if let Ok(n) = &size {
            if *n != enc.len() {
                f.push((
                    format!("size-mismatch message body={}", typed::body_kind(m)),
                    format!("serialized_size = {n}, to_vec = {} bytes for {}", enc.len(), dbg(m)),
                ));
            }
        }
        let a = catch(|| serde_amqp::from_slice::<Deserializable<Message<Body<Value>>>>(&enc));
        for k in chunk_sizes(enc.len(), true) {
            let rd = Chunked { data: &enc, pos: 0, k };
            self.cnt.reads.fetch_add(1, Ordering::Relaxed);
            let b = catch(|| serde_amqp::from_reader::<Deserializable<Message<Body<Value>>>>(rd));
            let same = match (&a, &b) {
                (Ok(Ok(x)), Ok(Ok(y))) => x.0 == y.0,
                (Ok(Err(_)), Ok(Err(_))) => true,
                (Err(_), Err(_)) => true,
                _ => false,
            };
            if !same {
                f.push((
                    format!("slice-vs-chunked-reader message body={}", typed::body_kind(m)),
                    format!("chunk={k}: slice -> {:?}, reader -> {:?}; bytes {}", a.as_ref().map(|r| r.as_ref().map(|d| dbg(&d.0)).map_err(|e| e.to_string())), b.as_ref().map(|r| r.as_ref().map(|d| dbg(&d.0)).map_err(|e| e.to_string())), hex(&enc)),
                ));
                break;
            }
        }
        f
    }
}

/// frame decoder: performative followed by payload -> payload must come out untouched
fn frame_payload_cases(ctx: &Ctx, out: &mut Outcome) -> u64 {
    let mut n = 0u64;
    let payloads: Vec<Vec<u8>> = {
        let mut p: Vec<Vec<u8>> = vec![vec![]];
        // every single leading byte value (format codes!) followed by a fixed tail
        for b in 0..=255u8 {
            p.push(vec![b]);
            p.push(vec![b, 0x00, 0x53, 0x77, 0x45]);
        }
        // a real message, and its prefixes
        let (m, _, _) = typed::gen_message(0b111111 | (2 << 6), true);
        let mb = serde_amqp::to_vec(&Serializable(&m)).unwrap_or_default();
        let step = if ctx.quick() { 7 } else { 1 };
        for l in (0..=mb.len()).step_by(step) {
            p.push(mb[..l].to_vec());
        }
        p
    };
    let masks: Vec<u64> = if ctx.quick() { (0..1u64 << 10).step_by(37).collect() } else { (0..1u64 << 10).collect() };
    let cases: Vec<(u64, bool)> = masks.iter().flat_map(|m| [(*m, false), (*m, true)]).collect();
    let res = par_map(&cases, ctx.threads, |_, (mask, alt)| {
        let (t, _, _) = typed::gen_transfer(*mask, *alt);
        let Ok(perf) = serde_amqp::to_vec(&t) else { return (0u64, vec![]) };
        let mut fails = vec![];
        let mut k = 0u64;
        for p in &payloads {
            k += 1;
            let mut src = BytesMut::new();
            src.extend_from_slice(&[0x02, 0x00, 0x00, 0x05]);
            src.extend_from_slice(&perf);
            src.extend_from_slice(p);
            let mut dec = FrameDecoder {};
            match catch(|| dec.decode(&mut src)) {
                Ok(Ok(Some(frame))) => match frame.body {
                    FrameBody::Transfer { performative, payload } => {
                        if &payload[..] != &p[..] || dbg(&performative) != dbg(&t) || frame.channel != 5 {
                            fails.push((
                                "frame-payload transfer".to_string(),
                                format!(
                                    "frame decoder: transfer {} + payload {} decoded as {} + payload {}",
                                    dbg(&t),
                                    hex(p),
                                    dbg(&performative),
                                    hex(&payload)
                                ),
                                json!({"kind": "frame", "mask": mask, "alt": alt, "payload_hex": hex_full(p)}),
                            ));
                            break;
                        }
                    }
                    other => {
                        fails.push((
                            "frame-payload wrong-body".to_string(),
                            format!("transfer frame decoded as {:?}", other),
                            json!({"kind": "frame", "mask": mask, "alt": alt, "payload_hex": hex_full(p)}),
                        ));
                        break;
                    }
                },
                other => {
                    fails.push((
                        "frame-payload decode-failed".to_string(),
                        format!(
                            "frame decoder fails on transfer {} + payload {}: {:?}",
                            dbg(&t),
                            hex(p),
                            other.map(|r| r.map(|_| ()).map_err(|e| e.to_string()))
                        ),
                        json!({"kind": "frame", "mask": mask, "alt": alt, "payload_hex": hex_full(p)}),
                    ));
                    break;
                }
            }
        }
        (k, fails)
    });
    for (k, fails) in res {
        n += k;
        for (s, d, r) in fails {
            out.violation(s, d, r);
        }
    }
    n
}

/// native Rust values: typed -> Value tree -> typed must equal typed -> bytes -> typed, and the tree must
/// equal what decoding the bytes as `Value` gives
fn native_cases() -> Vec<(String, Vec<(String, String)>)> {
    use serde_amqp::primitives::{Array, Dec128, Dec32, Dec64, OrderedMap, Symbol, Timestamp, Uuid};
    use serde_bytes::ByteBuf;
    fn one<T: Serialize + DeserializeOwned + Debug + PartialEq>(name: &str, x: T) -> (String, Vec<(String, String)>) {
        let mut f = vec![];
        let label = format!("{name} {:?}", x);
        let bytes = serde_amqp::to_vec(&x);
        let tree = catch(|| serde_amqp::to_value(&x));
        match (&bytes, &tree) {
            (Ok(b), Ok(Ok(t))) => {
                match serde_amqp::from_slice::<Value>(b) {
                    Ok(tb) if &tb == t => {}
                    other => f.push((format!("to_value-vs-bytes native {name}"), format!("to_value = {:?} but bytes decode to {:?}", t, other.map_err(|e| e.to_string())))),
                }
                match catch(|| serde_amqp::from_value::<T>(t.clone())) {
                    Ok(Ok(back)) if back == x => {}
                    other => f.push((format!("from_value native {name}"), format!("from_value(to_value({:?})) = {:?}", x, other.map(|r| r.map_err(|e| e.to_string()))))),
                }
            }
            (Ok(_), other) => f.push((format!("to_value-error native {name}"), format!("{:?} for {:?}", other.as_ref().map(|r| r.as_ref().map(|_| ()).map_err(|e| e.to_string())), x))),
            _ => {}
        }
        (label, f)
    }
    let mut om: OrderedMap<Symbol, Vec<u32>> = OrderedMap::new();
    om.insert(Symbol::from("k"), vec![1]);
    om.insert(Symbol::from("l"), vec![]);
    let mut sm: OrderedMap<String, u32> = OrderedMap::new();
    sm.insert("a".into(), 1);
    sm.insert("é".into(), 300);
    vec![
        one("bool", true),
        one("bool", false),
        one("u8", 255u8),
        one("u16", 300u16),
        one("u32", 0u32),
        one("u32", 255u32),
        one("u32", u32::MAX),
        one("u64", 0u64),
        one("u64", u64::MAX),
        one("i8", -128i8),
        one("i16", -300i16),
        one("i32", -1i32),
        one("i32", i32::MIN),
        one("i64", 127i64),
        one("i64", i64::MIN),
        one("f32", 1.5f32),
        one("f64", -2.5f64),
        one("char", 'é'),
        one("string", "héllo".to_string()),
        one("string", "x".repeat(300)),
        one("symbol", Symbol::from("amqp:accepted:list")),
        one("timestamp", Timestamp::from(-1)),
        one("uuid", Uuid::from([7u8; 16])),
        one("dec32", Dec32::from([1, 2, 3, 4])),
        one("dec64", Dec64::from([1, 2, 3, 4, 5, 6, 7, 8])),
        one("dec128", Dec128::from([9u8; 16])),
        one("binary", ByteBuf::from(vec![0u8, 1, 2])),
        one("binary", ByteBuf::from(vec![7u8; 300])),
        one("option-none", Option::<u32>::None),
        one("option-some", Some(5u32)),
        one("vec<u32>", vec![1u32, 300, 0]),
        one("vec<string>", vec!["a".to_string(), "é".to_string()]),
        one("vec<empty>", Vec::<u32>::new()),
        one("array<symbol>", Array(vec![Symbol::from("a"), Symbol::from("bc")])),
        one("array<u32>", Array(vec![1u32, 300])),
        one("array<empty>", Array::<u32>(vec![])),
        one("tuple", (1u32, "a".to_string(), true)),
        one("map<symbol,vec<u32>>", om),
        one("map<string,u32>", sm),
        one("vec<option>", vec![Some(1u32), None]),
    ]
}

pub fn run(ctx: &Ctx) -> Outcome {
    let mut out = Outcome::new("exploration");
    if let Some(p) = &ctx.replay {
        return replay(ctx, p, out);
    }
    let depth = if ctx.quick() { 3 } else { 4 };
    let vals = corpus::values(depth);
    let cnt = Cnt { reads: AtomicU64::new(0) };
    let distinct = Mutex::new(HashSet::<u64>::new());
    let res = par_map(&vals, ctx.threads, |_, v| {
        if let Ok(Ok(b)) = catch(|| serde_amqp::to_vec(v)) {
            distinct.lock().unwrap().insert(h64(&b));
        }
        check_value(v, ctx.quick(), &cnt)
    });
    for (v, fs) in vals.iter().zip(res) {
        let rb = hex_full(&refamqp::encode_widest(&corpus::value_to_rval(v)));
        for (s, d) in fs {
            out.violation(s, d, json!({"kind": "value", "ref_encoding_hex": rb}));
        }
    }
    // two values read with one deserializer: every ordered pair of leaves and first-level values that are not
    // arrays of compounds (known root cause)
    let seq_vals: Vec<Value> = corpus::leaves()
        .into_iter()
        .chain(corpus::level1().into_iter().step_by(2))
        .filter(|v| crate::c05::array_of_compound(v).is_none() && !crate::c05::zero_width_array(v))
        .collect();
    let pairs: Vec<(usize, usize)> = (0..seq_vals.len()).flat_map(|i| (0..seq_vals.len()).map(move |j| (i, j))).collect();
    let resq = par_map(&pairs, ctx.threads, |_, (i, j)| check_sequence(&seq_vals[*i], &seq_vals[*j]));
    for ((i, j), fs) in pairs.iter().zip(resq) {
        for (s, d) in fs {
            out.violation(s, d, json!({"kind": "sequence", "first": format!("{:?}", seq_vals[*i]), "second": format!("{:?}", seq_vals[*j])}));
        }
    }
    out.set("sequence_pairs", pairs.len() as u64);
    let tp = typed_pair_cases();
    out.set("typed_pairs", tp.len() as u64);
    for (label, fs) in tp {
        for (sig, d) in fs {
            out.violation(sig, format!("{label}: {d}"), json!({"kind": "typed-pair", "label": label}));
        }
    }
    let tv = TypedC20 {
        quick: ctx.quick(),
        cnt: Cnt { reads: AtomicU64::new(0) },
    };
    let t = typed::enumerate(&tv, ctx);
    for f in t.fails {
        out.violation(f.0, f.1, f.2);
    }
    let natives = native_cases();
    let n_native = natives.len() as u64;
    for (label, fs) in natives {
        for (s, d) in fs {
            out.violation(s, format!("{label}: {d}"), json!({"kind": "native", "label": label}));
        }
    }
    out.set("native_typed_values", n_native);
    let frames = frame_payload_cases(ctx, &mut out);
    let reads = cnt.reads.load(Ordering::Relaxed) + tv.cnt.reads.load(Ordering::Relaxed);
    out.set("evaluations", vals.len() as u64 + t.evaluations + reads + frames + 4 * pairs.len() as u64);
    out.set("values", vals.len() as u64);
    out.set("typed_items", t.evaluations);
    out.set("reader_runs", reads);
    out.set("frame_payload_cases", frames);
    out.set("distinct_nontrivial", distinct.into_inner().unwrap().len() as u64 + t.distinct);
    out.set("rule", "for every corpus value and typed item: serialized_size == to_vec().len(); from_slice == from_reader; with a 264-byte trailer appended, from_reader over a Cursor and over a reader returning at most k bytes per read (every k in 1..=min(len,cap) plus len-1,len,len+1,len+7,4096) consumes exactly the encoding; to_value/from_value vs bytes; every transfer presence subset x 2 representatives x (every first payload byte 0..=255, message prefixes) through the frame decoder; every ordered pair of leaf / first-level values written back to back and read with ONE deserializer (first as Value or as LazyValue, slice and io reader): the second value is undisturbed. distinct = distinct encodings");
    out.set("exhaustive", true);
    out.set("bound", format!("grammar depth {depth}; chunk cap {}", if ctx.quick() { 24 } else { 300 }));
    out.set(
        "samples",
        json!([
            format!("value {:?}: chunk sizes {:?} over encoding+trailer", vals[150], chunk_sizes(serde_amqp::to_vec(&vals[150]).map(|b| b.len()).unwrap_or(0), ctx.quick())),
            "transfer(mask=0x3ff) + payload [0x00 0x53 0x77 0x45] through FrameDecoder",
            format!("trailer = {}", hex(&trailer())),
        ]),
    );
    out.assume("agreement is judged between the library's own entry points; absolute correctness of the encoding is C03/C05's business");
    out
}

fn replay(ctx: &Ctx, p: &std::path::Path, mut out: Outcome) -> Outcome {
    let Ok(s) = std::fs::read_to_string(p) else {
        out.machinery_errors.push(format!("cannot read {}", p.display()));
        return out;
    };
    let j: serde_json::Value = serde_json::from_str(&s).unwrap_or_default();
    let r = &j["replay"];
    let cnt = Cnt { reads: AtomicU64::new(0) };
    match r["kind"].as_str() {
        Some("value") => {
            let b = vlib::util::unhex(r["ref_encoding_hex"].as_str().unwrap_or("")).unwrap_or_default();
            if let Some(v) = refamqp::decode_all(&b).ok().and_then(|rv| corpus::rval_to_value(&rv)) {
                println!("replaying {}", trunc(&format!("{:?}", v)));
                for (s, d) in check_value(&v, false, &cnt) {
                    println!("  FAIL {s}: {d}");
                    out.violation(s, d, r.clone());
                }
            } else {
                out.machinery_errors.push("replay: cannot rebuild value".into());
            }
        }
        Some("typed") => {
            let tv = TypedC20 { quick: false, cnt };
            for (s, d) in typed::visit_one(&tv, r["type"].as_str().unwrap_or(""), r["mask"].as_u64().unwrap_or(0), r["alt"].as_bool().unwrap_or(false)) {
                println!("  FAIL {s}: {d}");
                out.violation(s, d, r.clone());
            }
        }
        Some("native") => {
            for (label, fs) in native_cases() {
                if Some(label.as_str()) == r["label"].as_str() {
                    for (s, d) in fs {
                        println!("  FAIL {s}: {d}");
                        out.violation(s, d, r.clone());
                    }
                }
            }
        }
        Some("frame") => {
            let mut o2 = Outcome::new("exploration");
            let _ = frame_payload_cases(ctx, &mut o2);
            out.violations = o2.violations;
        }
        Some("typed-sweep") => {
            let tv = TypedC20 { quick: false, cnt: Cnt { reads: AtomicU64::new(0) } };
            for (s, d, _) in typed::replay_sweep(&tv, r) {
                println!("  FAIL {s}: {d}");
                out.violation(s, d, r.clone());
            }
        }
        _ => out.machinery_errors.push("replay: unknown kind".into()),
    }
    out.set("evaluations", 1);
    out.set("distinct_nontrivial", 0);
    out.set("rule", "replay");
    out.set("samples", json!([r]));
    out
}
