//! C11 part B - scripted client against the real listener (stub, filled in below)
use serde_json::json;
use std::time::Instant;
use vlib::report::{Ctx, Outcome};

#[derive(Default)]
pub struct PartB {
    pub executions: u64,
    pub events: u64,
    pub states: u64,
    pub transitions: u64,
    pub truncated: bool,
    pub bound: String,
    pub summary: serde_json::Value,
    pub samples: Vec<serde_json::Value>,
}

pub fn run_part_b(_ctx: &Ctx, _deadline: Instant, _out: &mut Outcome) -> PartB {
    PartB { bound: "not built".into(), summary: json!({"built": false}), ..Default::default() }
}

pub fn replay(_r: &serde_json::Value, out: Outcome) -> Outcome {
    out
}
