//! C11 part B - scripted CLIENT against the real listener (ConnectionAcceptor / SessionAcceptor /
//! LinkAcceptor running in spawned tasks).  The scripted client picks its own channel and handle
//! numbers: sparse (3, 900), large (4 000 000 000) and reused after end / detach.
//!
//! Oracle: the same wire monitor as part A over the listener's frames (its own channel and handle numbers
//! must be unique among what it has mapped / attached, delivery-ids increasing), plus routing:
//!  * the listener answers begin / attach / detach / end for the session or link the client's channel or
//!    handle designates (begin reply names the client's channel, attach reply comes on the paired channel,
//!    detach reply carries the listener's handle of THAT link);
//!  * a message sent to client handle h on client channel c is returned by `recv()` of the Receiver the
//!    LinkAcceptor produced for that attach, once, and by no other;
//!  * a flow granting one credit to client handle h makes the Sender produced for that attach send one
//!    message (each listener-side Sender writes its own identity into the body) and no other.
use super::{encode_string_message, padded_body, Counters, WireMon, MAX_FRAME};
use fe2o3_amqp::acceptor::{ConnectionAcceptor, LinkAcceptor, LinkEndpoint, ListenerSessionHandle, SessionAcceptor};
use fe2o3_amqp_types::definitions::{Handle, ReceiverSettleMode, Role, SenderSettleMode};
use fe2o3_amqp_types::messaging::{Source, Target};
use fe2o3_amqp_types::performatives::*;
use serde_json::json;
use std::collections::{BTreeMap, BTreeSet, HashSet};
use std::sync::{Arc, Mutex, OnceLock};
use std::time::Instant;
use vlib::history::{search, HistOut};
use vlib::peer::{settle, Auto, Dirn, Peer, PeerLink, WFrame, AMQP_HEADER};
use vlib::report::{Ctx, Outcome};
use vlib::runner::{run_exec, RunCfg, Scenario};
use vlib::util::h64;
use vlib::vpipe::Pipe;

/// the client's channel numbers and handle numbers
pub const P_CH: [u16; 2] = [900, 3];
pub const P_H: [u32; 2] = [4_000_000_000, 1];

/// link kinds the client attaches: (name, the LISTENER's end is a receiver?)
pub const KINDS: [(&str, bool); 3] = [("a", true), ("b", true), ("c", false)];

#[derive(Debug, Clone, Copy, PartialEq, Eq, Hash)]
pub enum EvB {
    PBegin(u8),
    PEnd(u8),
    PAttach { c: u8, kind: u8, h: u8 },
    PDetach(u8, u8),
    PXfer(u8, u8),
    PCredit(u8, u8),
}

pub fn alphabet_b() -> &'static Vec<EvB> {
    static A: OnceLock<Vec<EvB>> = OnceLock::new();
    A.get_or_init(|| {
        let mut v = vec![];
        for c in 0..2u8 {
            v.push(EvB::PBegin(c));
            v.push(EvB::PEnd(c));
        }
        for c in 0..2u8 {
            for kind in 0..3u8 {
                for h in 0..2u8 {
                    v.push(EvB::PAttach { c, kind, h });
                }
            }
        }
        for c in 0..2u8 {
            for h in 0..2u8 {
                v.push(EvB::PDetach(c, h));
                v.push(EvB::PXfer(c, h));
                v.push(EvB::PCredit(c, h));
            }
        }
        v
    })
}

#[derive(Debug, Clone, Default, PartialEq, Eq, Hash)]
pub struct ModelB {
    /// per client channel index: per client handle index: attached kind
    pub sess: [Option<[Option<u8>; 2]>; 2],
}
impl ModelB {
    pub fn enabled(&self, e: EvB) -> bool {
        match e {
            EvB::PBegin(c) => self.sess[c as usize].is_none(),
            EvB::PEnd(c) => self.sess[c as usize].is_some(),
            // protocol-valid client: a name is attached once per session, a handle names one link
            EvB::PAttach { c, kind, h } => self.sess[c as usize].is_some_and(|l| l[h as usize].is_none() && !l.iter().flatten().any(|k| *k == kind)),
            EvB::PDetach(c, h) => self.sess[c as usize].is_some_and(|l| l[h as usize].is_some()),
            EvB::PXfer(c, h) => self.sess[c as usize].is_some_and(|l| l[h as usize].is_some_and(|k| KINDS[k as usize].1)),
            EvB::PCredit(c, h) => self.sess[c as usize].is_some_and(|l| l[h as usize].is_some_and(|k| !KINDS[k as usize].1)),
        }
    }
    pub fn apply(&mut self, e: EvB) {
        match e {
            EvB::PBegin(c) => self.sess[c as usize] = Some([None, None]),
            EvB::PEnd(c) => self.sess[c as usize] = None,
            EvB::PAttach { c, kind, h } => {
                if let Some(l) = self.sess[c as usize].as_mut() {
                    l[h as usize] = Some(kind)
                }
            }
            EvB::PDetach(c, h) => {
                if let Some(l) = self.sess[c as usize].as_mut() {
                    l[h as usize] = None
                }
            }
            _ => {}
        }
    }
}

pub fn first_disabled_b(evs: &[EvB]) -> Option<usize> {
    let mut m = ModelB::default();
    for (i, e) in evs.iter().enumerate() {
        if !m.enabled(*e) {
            return Some(i);
        }
        m.apply(*e);
    }
    None
}

#[derive(Debug, Default)]
struct AppLog {
    /// (index of the session in accept order, link name, body)
    recv: Vec<(usize, String, String)>,
    notes: Vec<String>,
    sessions_accepted: usize,
}

async fn session_task(idx: usize, mut sess: ListenerSessionHandle, log: Arc<Mutex<AppLog>>) {
    let lacc = LinkAcceptor::new();
    loop {
        match lacc.accept(&mut sess).await {
            Ok(LinkEndpoint::Receiver(mut r)) => {
                let log = log.clone();
                tokio::spawn(async move {
                    let name = r.name().to_string();
                    loop {
                        match r.recv::<String>().await {
                            Ok(d) => log.lock().unwrap().recv.push((idx, name.clone(), d.body().clone())),
                            Err(e) => {
                                log.lock().unwrap().notes.push(format!("receiver {idx}/{name}: recv error {e:?}"));
                                let _ = r.close().await;
                                break;
                            }
                        }
                    }
                });
            }
            Ok(LinkEndpoint::Sender(mut s)) => {
                let log = log.clone();
                tokio::spawn(async move {
                    let name = s.name().to_string();
                    let mut n = 0;
                    loop {
                        n += 1;
                        // blocks until the client grants credit; the body says who sends
                        match s.send(format!("lst-{idx}-{name}-{n}")).await {
                            Ok(_) => {}
                            Err(e) => {
                                log.lock().unwrap().notes.push(format!("sender {idx}/{name}: send error {e:?}"));
                                let _ = s.close().await;
                                break;
                            }
                        }
                    }
                });
            }
            Err(e) => {
                log.lock().unwrap().notes.push(format!("session {idx}: accept link: {e:?}"));
                break;
            }
        }
    }
    let r = sess.on_end().await;
    log.lock().unwrap().notes.push(format!("session {idx}: ended {r:?}"));
}

struct PLink {
    kind: u8,
    lib_handle: u32,
}
struct PSess {
    lib_channel: u16,
    idx: usize,
    links: [Option<PLink>; 2],
}

#[derive(Debug, Clone, Default)]
pub struct ObsB {
    pub executed: usize,
    pub fails: Vec<(String, String, usize)>,
    pub state_keys: Vec<u64>,
    pub trace: Vec<String>,
    pub anomalies: Vec<String>,
    pub counters: Counters,
    pub machinery: Option<String>,
}

fn lib_frames_since<'a>(peer: &'a Peer, mark: usize) -> impl Iterator<Item = &'a WFrame> {
    peer.trace[mark..].iter().filter(|w| w.dir == Dirn::FromLib)
}

pub async fn scenario_b(evs: Vec<EvB>) -> ObsB {
    let mut obs = ObsB::default();
    let (pipe, a, _b) = Pipe::new();
    let mut auto = Auto::none();
    auto.detach = true; // answers a detach only for a link the client has not itself detached
    auto.accept_transfers = true;
    auto.max_frame_size = MAX_FRAME;
    auto.channel_max = 2000;
    let mut peer = Peer::new(pipe.clone(), 1, auto);
    let log = Arc::new(Mutex::new(AppLog::default()));
    {
        let log = log.clone();
        tokio::spawn(async move {
            let acceptor = ConnectionAcceptor::builder().container_id("lib-listener").max_frame_size(MAX_FRAME).channel_max(2000).build();
            let mut conn = match acceptor.accept(a).await {
                Ok(c) => c,
                Err(e) => {
                    log.lock().unwrap().notes.push(format!("accept connection: {e:?}"));
                    return;
                }
            };
            let sacc = SessionAcceptor::new();
            loop {
                match sacc.accept(&mut conn).await {
                    Ok(sess) => {
                        let idx = {
                            let mut l = log.lock().unwrap();
                            l.sessions_accepted += 1;
                            l.sessions_accepted - 1
                        };
                        tokio::spawn(session_task(idx, sess, log.clone()));
                    }
                    Err(e) => {
                        log.lock().unwrap().notes.push(format!("accept session: {e:?}"));
                        break;
                    }
                }
            }
            let _ = conn.on_close().await;
        });
    }
    peer.send_proto_header(AMQP_HEADER);
    peer.send(
        0,
        Performative::Open(Open {
            container_id: "scripted-client".into(),
            hostname: None,
            max_frame_size: MAX_FRAME.into(),
            channel_max: 2000.into(),
            idle_time_out: None,
            outgoing_locales: None,
            incoming_locales: None,
            offered_capabilities: None,
            desired_capabilities: None,
            properties: None,
        }),
    );
    settle(&mut peer, 3).await;
    let opened = peer.trace.iter().any(|w| w.dir == Dirn::FromLib && matches!(w.perf(), Some(Performative::Open(_))));
    if !opened {
        obs.machinery = Some(format!("listener did not open: {:?} {:?}", vlib::peer::trace_to_strings(&peer.trace), log.lock().unwrap().notes));
        return obs;
    }
    let mut mon = WireMon::default();
    mon.ctx = "setup".into();
    mon.feed_all(&peer.trace);
    let mut shown = 0usize;
    let flush = |obs: &mut ObsB, peer: &Peer, shown: &mut usize| {
        for w in &peer.trace[*shown..] {
            obs.trace.push(format!("    {}", w.short()));
        }
        *shown = peer.trace.len();
    };
    obs.trace.push("== setup: scripted client opens against the real listener".into());
    flush(&mut obs, &peer, &mut shown);
    let mut model = ModelB::default();
    let mut ps: [Option<PSess>; 2] = [None, None];
    let mut begun = 0usize;
    let mut msg_seq = 0u32;
    let mut n_fail_seen = 0usize;
    let mut log_seen = 0usize;
    obs.state_keys.push(h64(&(&model, mon.key())));

    for (i, ev) in evs.iter().copied().enumerate() {
        if !model.enabled(ev) {
            break;
        }
        let mark = peer.trace.len();
        let result: String;
        let mut diverged = false;
        let mut fails: Vec<(String, String)> = vec![];
        mon.ctx = "listener".into();
        match ev {
            EvB::PBegin(c) => {
                let pc = P_CH[c as usize];
                peer.send(
                    pc,
                    Performative::Begin(Begin {
                        remote_channel: None,
                        next_outgoing_id: 5000,
                        incoming_window: 1000,
                        outgoing_window: 1000,
                        handle_max: Handle(u32::MAX),
                        offered_capabilities: None,
                        desired_capabilities: None,
                        properties: None,
                    }),
                );
                settle(&mut peer, 3).await;
                let replies: Vec<(u16, Option<u16>)> = lib_frames_since(&peer, mark)
                    .filter_map(|w| match w.perf() {
                        Some(Performative::Begin(b)) => Some((w.channel, b.remote_channel)),
                        _ => None,
                    })
                    .collect();
                match replies.as_slice() {
                    [(lc, Some(rc))] if *rc == pc => {
                        let lc = *lc;
                        // the scripted peer keeps its session record under the library's channel
                        let s = peer.sessions.entry(lc).or_default();
                        s.lib_channel = lc;
                        s.our_channel = pc;
                        s.incoming_window = 1000;
                        s.outgoing_window = 1000;
                        s.next_outgoing_id = 5000;
                        model.apply(ev);
                        ps[c as usize] = Some(PSess { lib_channel: lc, idx: begun, links: [None, None] });
                        begun += 1;
                        result = format!("listener channel {lc}");
                    }
                    [(lc, rc)] => {
                        fails.push(("begin-answered-for-wrong-channel".into(), format!("the client began a session on its channel {pc}; the listener's begin (on its channel {lc}) names remote-channel {rc:?}")));
                        result = "wrong remote-channel".into();
                        diverged = true;
                    }
                    [] => {
                        // the application accepts every session: an unanswered begin did not reach the acceptor
                        fails.push(("begin-not-answered".into(), format!("the client began a session on its channel {pc}; the listener (which accepts every session) sent no begin; listener frames: {:?}; notes {:?}", lib_frames_since(&peer, mark).map(|w| w.short()).collect::<Vec<_>>(), log.lock().unwrap().notes)));
                        result = "no answer".into();
                        diverged = true;
                    }
                    more => {
                        fails.push(("begin-answered-twice".into(), format!("the client began one session on its channel {pc}; the listener sent {} begin frames {more:?}", more.len())));
                        result = "several begins".into();
                        diverged = true;
                    }
                }
            }
            EvB::PEnd(c) => {
                let pc = P_CH[c as usize];
                let s = ps[c as usize].take().unwrap();
                model.apply(ev);
                peer.send(pc, Performative::End(End { error: None }));
                for l in peer.links.iter_mut().filter(|l| l.lib_channel == s.lib_channel) {
                    l.detached = true;
                }
                settle(&mut peer, 3).await;
                let ends: Vec<u16> = lib_frames_since(&peer, mark).filter(|w| matches!(w.perf(), Some(Performative::End(_)))).map(|w| w.channel).collect();
                peer.sessions.remove(&s.lib_channel);
                match ends.as_slice() {
                    [lc] if *lc == s.lib_channel => result = format!("listener ended its channel {lc}"),
                    [] => {
                        obs.anomalies.push(format!("PEnd on client channel {pc}: no end from the listener"));
                        result = "no answer".into();
                        diverged = true;
                    }
                    other => {
                        fails.push(("end-answered-on-wrong-channel".into(), format!("the client ended the session on its channel {pc} (listener channel {}); the listener sent end on channel(s) {other:?}", s.lib_channel)));
                        result = "wrong channel".into();
                        diverged = true;
                    }
                }
            }
            EvB::PAttach { c, kind, h } => {
                let pc = P_CH[c as usize];
                let ph = P_H[h as usize];
                let (name, lib_is_receiver) = KINDS[kind as usize];
                let lc = ps[c as usize].as_ref().unwrap().lib_channel;
                peer.links.push(PeerLink {
                    lib_channel: lc,
                    name: name.to_string(),
                    lib_handle: u32::MAX,
                    our_handle: ph,
                    lib_role: if lib_is_receiver { Role::Receiver } else { Role::Sender },
                    delivery_count: 77,
                    credit: 0,
                    attached_by_peer: true,
                    detached: false,
                    detach_sent: false,
                });
                peer.send(
                    pc,
                    Performative::Attach(Attach {
                        name: name.to_string(),
                        handle: Handle(ph),
                        role: if lib_is_receiver { Role::Sender } else { Role::Receiver },
                        snd_settle_mode: SenderSettleMode::Mixed,
                        rcv_settle_mode: ReceiverSettleMode::First,
                        source: Some(Box::new(Source::builder().address(format!("q-{name}")).build())),
                        target: Some(Box::new(Target::builder().address(format!("q-{name}")).build().into())),
                        unsettled: None,
                        incomplete_unsettled: false,
                        initial_delivery_count: if lib_is_receiver { Some(77) } else { None },
                        max_message_size: None,
                        offered_capabilities: None,
                        desired_capabilities: None,
                        properties: None,
                    }),
                );
                settle(&mut peer, 3).await;
                let replies: Vec<(u16, u32, String)> = lib_frames_since(&peer, mark)
                    .filter_map(|w| match w.perf() {
                        Some(Performative::Attach(a)) => Some((w.channel, a.handle.0, a.name.clone())),
                        _ => None,
                    })
                    .collect();
                match replies.as_slice() {
                    [(rlc, lh, n)] if *rlc == lc && n == name => {
                        model.apply(ev);
                        ps[c as usize].as_mut().unwrap().links[h as usize] = Some(PLink { kind, lib_handle: *lh });
                        result = format!("listener handle {lh}");
                    }
                    [] => {
                        // the application accepts every link: an unanswered attach did not reach the session its channel designates
                        fails.push(("attach-not-answered".into(), format!("the client attached link '{name}' with its handle {ph} on its channel {pc} (listener channel {lc}); the listener (which accepts every link) sent no attach; listener frames: {:?}; notes {:?}", lib_frames_since(&peer, mark).map(|w| w.short()).collect::<Vec<_>>(), log.lock().unwrap().notes)));
                        result = "no answer".into();
                        diverged = true;
                    }
                    other => {
                        fails.push(("attach-answered-on-wrong-session-or-name".into(), format!("the client attached link '{name}' with its handle {ph} on its channel {pc} (listener channel {lc}); the listener's attach frame(s): {other:?} (channel, handle, name)")));
                        result = "wrong answer".into();
                        diverged = true;
                    }
                }
            }
            EvB::PDetach(c, h) => {
                let pc = P_CH[c as usize];
                let ph = P_H[h as usize];
                let s = ps[c as usize].as_mut().unwrap();
                let l = s.links[h as usize].take().unwrap();
                model.apply(ev);
                for pl in peer.links.iter_mut().filter(|pl| pl.lib_channel == s.lib_channel && pl.our_handle == ph && !pl.detached) {
                    pl.detached = true;
                }
                peer.send(pc, Performative::Detach(Detach { handle: Handle(ph), closed: true, error: None }));
                settle(&mut peer, 4).await;
                let replies: Vec<(u16, u32)> = lib_frames_since(&peer, mark)
                    .filter_map(|w| match w.perf() {
                        Some(Performative::Detach(d)) => Some((w.channel, d.handle.0)),
                        _ => None,
                    })
                    .collect();
                match replies.as_slice() {
                    [(rlc, lh)] if *rlc == s.lib_channel && *lh == l.lib_handle => result = format!("listener detached its handle {lh}"),
                    [] => {
                        obs.anomalies.push(format!("PDetach handle {ph} on client channel {pc}: no detach from the listener"));
                        result = "no answer".into();
                        diverged = true;
                    }
                    other => {
                        fails.push(("detach-answered-for-wrong-link".into(), format!("the client detached its handle {ph} on its channel {pc} (listener channel {} handle {}); the listener's detach frame(s): {other:?} (channel, handle)", s.lib_channel, l.lib_handle)));
                        result = "wrong answer".into();
                        diverged = true;
                    }
                }
            }
            EvB::PXfer(c, h) => {
                let pc = P_CH[c as usize];
                let ph = P_H[h as usize];
                let s = ps[c as usize].as_ref().unwrap();
                let l = s.links[h as usize].as_ref().unwrap();
                let name = KINDS[l.kind as usize].0;
                let target = peer.links.iter().position(|pl| pl.lib_channel == s.lib_channel && pl.our_handle == ph && !pl.detached && pl.credit > 0);
                match target {
                    None => {
                        obs.anomalies.push(format!("PXfer: no credit from the listener's receiver '{name}'"));
                        result = "no credit".into();
                    }
                    Some(pi) => {
                        msg_seq += 1;
                        let body = padded_body(&format!("client-msg-{msg_seq}:"), 40);
                        let payload = encode_string_message(&body);
                        let did = peer.sessions.get(&s.lib_channel).map(|x| x.next_outgoing_id).unwrap_or(0);
                        let cut = payload.len() / 2;
                        let mk = |first: bool| Transfer {
                            handle: Handle(ph),
                            delivery_id: if first { Some(did) } else { None },
                            delivery_tag: if first { Some(serde_bytes::ByteBuf::from(format!("ct{msg_seq}").into_bytes())) } else { None },
                            message_format: if first { Some(0) } else { None },
                            settled: if first { Some(true) } else { None },
                            more: first,
                            rcv_settle_mode: None,
                            state: None,
                            resume: false,
                            aborted: false,
                            batchable: false,
                        };
                        peer.send_perf(pc, Performative::Transfer(mk(true)), &payload[..cut]);
                        peer.send_perf(pc, Performative::Transfer(mk(false)), &payload[cut..]);
                        peer.links[pi].delivery_count = peer.links[pi].delivery_count.wrapping_add(1);
                        peer.links[pi].credit -= 1;
                        settle(&mut peer, 3).await;
                        let new: Vec<(usize, String, String)> = log.lock().unwrap().recv[log_seen..].to_vec();
                        log_seen += new.len();
                        let want = (s.idx, name.to_string(), body.clone());
                        let short: Vec<(usize, String, String)> = new.iter().map(|(a, b, c)| (*a, b.clone(), c.trim_end_matches('.').to_string())).collect();
                        if new.len() == 1 && new[0] == want {
                            obs.counters.peer_msgs_routed += 1;
                        } else if new.is_empty() {
                            fails.push(("message-not-delivered-to-designated-link".into(), format!("the client sent '{}' to its handle {ph} on its channel {pc} (receiver '{name}' of accepted session #{}) but no Receiver returned it; listener notes: {:?}", body.trim_end_matches('.'), s.idx, log.lock().unwrap().notes)));
                        } else if new.iter().all(|x| *x == want) {
                            fails.push(("message-delivered-twice".into(), format!("receiver '{name}' of session #{} returned the client's message {} times", s.idx, new.len())));
                        } else {
                            fails.push(("message-delivered-to-wrong-link".into(), format!("the client sent '{}' to its handle {ph} on its channel {pc} (receiver '{name}' of accepted session #{}); Receivers returned {short:?} (session #, link name, body)", body.trim_end_matches('.'), s.idx)));
                        }
                        result = format!("delivery-id {did}; returned by {:?}", short.iter().map(|x| format!("#{}:{}", x.0, x.1)).collect::<Vec<_>>());
                    }
                }
            }
            EvB::PCredit(c, h) => {
                let pc = P_CH[c as usize];
                let ph = P_H[h as usize];
                let s = ps[c as usize].as_ref().unwrap();
                let l = s.links[h as usize].as_ref().unwrap();
                let name = KINDS[l.kind as usize].0;
                let dc = peer.links.iter().find(|pl| pl.lib_channel == s.lib_channel && pl.our_handle == ph && !pl.detached).map(|pl| pl.delivery_count);
                let mut f = peer.flow_for(s.lib_channel);
                f.handle = Some(Handle(ph));
                f.delivery_count = dc;
                f.link_credit = Some(1);
                peer.send(pc, Performative::Flow(f));
                settle(&mut peer, 4).await;
                // which listener-side senders sent something?
                let sent: Vec<(u16, u32, String)> = lib_frames_since(&peer, mark)
                    .filter_map(|w| match w.perf() {
                        Some(Performative::Transfer(t)) => {
                            let p = String::from_utf8_lossy(&w.payload).to_string();
                            let who = p.find("lst-").map(|k| p[k..].to_string()).unwrap_or_else(|| "<continuation>".into());
                            Some((w.channel, t.handle.0, who))
                        }
                        _ => None,
                    })
                    .collect();
                let want_prefix = format!("lst-{}-{name}-", s.idx);
                let ok = sent.len() == 1 && sent[0].0 == s.lib_channel && sent[0].1 == l.lib_handle && sent[0].2.starts_with(&want_prefix);
                if ok {
                    obs.counters.deliveries += 0; // counted by the wire monitor
                } else if sent.is_empty() {
                    fails.push(("flow-not-delivered-to-designated-link".into(), format!("the client granted one credit to its handle {ph} on its channel {pc} (sender '{name}' of accepted session #{}, listener channel {} handle {}) but nothing was sent; listener notes {:?}", s.idx, s.lib_channel, l.lib_handle, log.lock().unwrap().notes)));
                } else {
                    fails.push(("flow-delivered-to-wrong-link".into(), format!("the client granted one credit to its handle {ph} on its channel {pc} (sender '{name}' of accepted session #{}, listener channel {} handle {}); transfers seen (channel, handle, body): {sent:?}", s.idx, s.lib_channel, l.lib_handle)));
                }
                result = format!("transfers {sent:?}");
            }
        }
        settle(&mut peer, 1).await;
        mon.feed_all(&peer.trace);
        obs.trace.push(format!("== event {i}: {ev:?} -> {result}"));
        flush(&mut obs, &peer, &mut shown);
        for f in mon.fails[n_fail_seen..].iter() {
            obs.fails.push((f.0.clone(), f.1.clone(), i));
        }
        n_fail_seen = mon.fails.len();
        for (s, d) in fails {
            obs.fails.push((s, d, i));
        }
        // anything a Receiver returned outside a PXfer event is a stray
        let stray: Vec<(usize, String, String)> = log.lock().unwrap().recv[log_seen..].to_vec();
        if !stray.is_empty() {
            log_seen += stray.len();
            obs.fails.push(("message-delivered-to-wrong-link".into(), format!("Receivers returned messages nobody sent to them during {ev:?}: {stray:?}"), i));
        }
        if diverged {
            obs.trace.push(format!("   (history abandoned here; listener notes {:?})", log.lock().unwrap().notes));
            break;
        }
        obs.executed = i + 1;
        let ids: Vec<Option<(u16, usize, Vec<Option<u32>>)>> = ps.iter().map(|s| s.as_ref().map(|s| (s.lib_channel, s.idx.min(2), s.links.iter().map(|l| l.as_ref().map(|l| l.lib_handle)).collect()))).collect();
        obs.state_keys.push(h64(&(&model, ids, mon.key(), obs.fails.iter().map(|f| &f.0).collect::<BTreeSet<_>>())));
    }
    obs.counters.add(&mon.counters);
    obs
}

pub struct HistRunB {
    pub out: HistOut,
    pub fails: Vec<(String, String, usize)>,
    pub anomalies: Vec<String>,
    pub counters: Counters,
    pub real: bool,
}

pub fn run_history_b(evs: Vec<EvB>) -> HistRunB {
    let mut hr = HistRunB { out: HistOut::default(), fails: vec![], anomalies: vec![], counters: Counters::default(), real: false };
    if let Some(k) = first_disabled_b(&evs) {
        hr.out.executed = k;
        return hr;
    }
    hr.real = true;
    let scen: Scenario<ObsB> = {
        let evs = evs.clone();
        Arc::new(move || {
            let evs = evs.clone();
            Box::pin(scenario_b(evs))
        })
    };
    let ex = run_exec(vec![], &RunCfg::none(), &scen);
    match ex.out {
        Some(o) => {
            hr.out.executed = o.executed;
            hr.out.state_keys = o.state_keys;
            hr.out.trace = o.trace;
            hr.out.machinery = o.machinery;
            hr.fails = o.fails;
            hr.anomalies = o.anomalies;
            hr.counters = o.counters;
        }
        None => {
            hr.out.executed = evs.len();
            hr.out.machinery = Some(if ex.watchdog { format!("C11/B {:?}: the execution did not finish in real time", evs) } else { format!("C11/B {:?}: scenario panicked: {:?}", evs, ex.panics) });
        }
    }
    if ex.spun && hr.out.machinery.is_none() {
        hr.out.machinery = Some(format!("C11/B {:?}: some task polled more than 20000 times at one virtual instant", evs));
    }
    if let Some(p) = ex.panics.iter().find(|p| !p.contains("vcheck/src")) {
        if hr.out.machinery.is_none() {
            hr.out.machinery = Some(format!("C11/B {:?}: a library task panicked: {p}", evs));
        }
    }
    hr
}

#[derive(Default)]
pub struct PartB {
    pub executions: u64,
    pub events: u64,
    pub states: u64,
    pub transitions: u64,
    pub truncated: bool,
    pub bound: String,
    pub summary: serde_json::Value,
    pub samples: Vec<serde_json::Value>,
}

#[derive(Default)]
struct TotalsB {
    executions: u64,
    events: u64,
    states: HashSet<u64>,
    transitions: HashSet<(u64, usize, u64)>,
    counters: Counters,
    anomalies: BTreeMap<String, (u64, String)>,
    reported: HashSet<(String, Vec<usize>)>,
    violations: Vec<(String, String, serde_json::Value, usize)>,
    samples: Vec<serde_json::Value>,
}

pub fn run_part_b(ctx: &Ctx, deadline: Instant, out: &mut Outcome) -> PartB {
    let al = alphabet_b();
    let depth = if ctx.quick() { 5 } else { 6 };
    let totals = Mutex::new(TotalsB::default());
    let st = search(al.len(), depth, ctx.threads, deadline, |h| {
        let evs: Vec<EvB> = h.iter().map(|i| al[*i]).collect();
        let hr = run_history_b(evs.clone());
        if hr.real {
            let mut t = totals.lock().unwrap();
            t.executions += 1;
            t.events += hr.out.executed as u64;
            for k in &hr.out.state_keys {
                t.states.insert(*k);
            }
            for (j, w) in hr.out.state_keys.windows(2).enumerate() {
                t.transitions.insert((w[0], h[j], w[1]));
            }
            t.counters.add(&hr.counters);
            for a in &hr.anomalies {
                let e = t.anomalies.entry(super::anomaly_class(a)).or_insert((0, format!("{:?}: {a}", evs)));
                e.0 += 1;
            }
            for (sig, detail, at) in &hr.fails {
                let hist: Vec<usize> = if *at == usize::MAX { vec![] } else { h[..=(*at).min(h.len() - 1)].to_vec() };
                let sig = format!("{sig} [listener]");
                if t.reported.insert((sig.clone(), hist.clone())) {
                    let names: Vec<String> = hist.iter().map(|i| format!("{:?}", al[*i])).collect();
                    t.violations.push((
                        sig.clone(),
                        format!("scripted client vs real listener (client channels {:?}, client handles {:?}), history: {:?}: {detail}", P_CH, P_H, names),
                        json!({"part": "B", "events": hist, "event_names": names, "trace": hr.out.trace}),
                        hist.len(),
                    ));
                }
            }
            if t.samples.is_empty() && hr.out.executed == h.len() && t.executions > 300 {
                let names: Vec<String> = evs.iter().map(|e| format!("{e:?}")).collect();
                t.samples.push(json!({"part": "listener", "history": names, "trace": hr.out.trace}));
            }
        }
        hr.out
    });
    for m in st.machinery {
        if out.machinery_errors.len() < 8 {
            out.machinery_errors.push(m);
        }
    }
    let mut t = totals.into_inner().unwrap();
    t.violations.sort_by_key(|v| v.3);
    for (sig, detail, rep, _) in t.violations {
        out.violation(sig, detail, rep);
    }
    let an: Vec<serde_json::Value> = t.anomalies.iter().map(|(k, (n, ex))| json!({"class": k, "count": n, "example": ex})).collect();
    PartB {
        executions: t.executions,
        events: t.events,
        states: t.states.len() as u64,
        transitions: t.transitions.len() as u64,
        truncated: st.truncated,
        bound: format!(
            "ALL histories of depth {depth}{} over {} events (client begin/end on its channels {:?}; attach of link a|b (listener receives) | c (listener sends) with client handle from {:?}; detach; 2-frame transfer to a handle; one credit to a handle), <= 2 sessions x <= 2 links",
            if st.truncated { " (CUT by the budget)" } else { "" },
            al.len(),
            P_CH,
            P_H
        ),
        summary: json!({"executions": t.executions, "events": t.events, "states": t.states.len(), "transitions": t.transitions.len(), "depth": depth, "complete": !st.truncated, "nontrivial": t.counters.to_json(), "unjudged_api_anomalies": an}),
        samples: t.samples,
    }
}

pub fn replay(r: &serde_json::Value, mut out: Outcome) -> Outcome {
    let al = alphabet_b();
    let idx: Vec<usize> = r["events"].as_array().map(|a| a.iter().filter_map(|x| x.as_u64()).map(|i| i as usize).filter(|i| *i < al.len()).collect()).unwrap_or_default();
    let evs: Vec<EvB> = idx.iter().map(|i| al[*i]).collect();
    println!("replaying part B (scripted client vs listener) history {:?}", evs);
    let hr = run_history_b(evs);
    for l in &hr.out.trace {
        println!("  {l}");
    }
    for a in &hr.anomalies {
        println!("  (unjudged) {a}");
    }
    if let Some(m) = hr.out.machinery {
        out.machinery_errors.push(m);
    }
    let mut seen = BTreeSet::new();
    for (s, d, at) in hr.fails {
        println!("  FAIL at event {at} [{s}]: {d}");
        let s = format!("{s} [listener]");
        if seen.insert(s.clone()) {
            out.violation(s, d, r.clone());
        }
    }
    out.set("states", hr.out.state_keys.len().max(1));
    out.set("transitions", hr.out.executed.max(1));
    out.set("traces_validated_against_impl", 1);
    out.set("samples", json!([r["event_names"]]));
    out.set("exhaustive", true);
    out.set("bound", "replay of one history");
    out.set("rule", "replay");
    out
}
