//! Counting global allocator: per-thread, records the largest single request and the peak of live
//! bytes while tracking is switched on for that thread.  Off by default, negligible overhead.
use std::alloc::{GlobalAlloc, Layout, System};
use std::cell::Cell;

pub struct Tracking;

thread_local! {
    static ON: Cell<bool> = const { Cell::new(false) };
    static MAX_REQ: Cell<usize> = const { Cell::new(0) };
    static LIVE: Cell<isize> = const { Cell::new(0) };
    static PEAK: Cell<isize> = const { Cell::new(0) };
}

unsafe impl GlobalAlloc for Tracking {
    unsafe fn alloc(&self, l: Layout) -> *mut u8 {
        note(l.size());
        System.alloc(l)
    }
    unsafe fn alloc_zeroed(&self, l: Layout) -> *mut u8 {
        note(l.size());
        System.alloc_zeroed(l)
    }
    unsafe fn dealloc(&self, p: *mut u8, l: Layout) {
        let _ = ON.try_with(|on| {
            if on.get() {
                let _ = LIVE.try_with(|c| c.set(c.get() - l.size() as isize));
            }
        });
        System.dealloc(p, l)
    }
    unsafe fn realloc(&self, p: *mut u8, l: Layout, new: usize) -> *mut u8 {
        note(new);
        let _ = ON.try_with(|on| {
            if on.get() {
                let _ = LIVE.try_with(|c| c.set(c.get() - l.size() as isize));
            }
        });
        System.realloc(p, l, new)
    }
}

#[inline]
fn note(size: usize) {
    let _ = ON.try_with(|on| {
        if on.get() {
            let _ = MAX_REQ.try_with(|m| {
                if size > m.get() {
                    m.set(size)
                }
            });
            let _ = LIVE.try_with(|c| {
                let v = c.get() + size as isize;
                c.set(v);
                let _ = PEAK.try_with(|p| {
                    if v > p.get() {
                        p.set(v)
                    }
                });
            });
        }
    });
}

pub fn start() {
    MAX_REQ.with(|m| m.set(0));
    LIVE.with(|m| m.set(0));
    PEAK.with(|m| m.set(0));
    ON.with(|o| o.set(true));
}

/// returns (largest single request, peak live bytes) since `start`
pub fn stop() -> (usize, usize) {
    ON.with(|o| o.set(false));
    (MAX_REQ.with(|m| m.get()), PEAK.with(|p| p.get()).max(0) as usize)
}
