//! C18 helpers shared by the three series: event alphabet, reference model, listener under test,
//! wire tap, message bodies.
use fe2o3_amqp::acceptor::{ConnectionAcceptor, LinkAcceptor, LinkEndpoint, SessionAcceptor};
use fe2o3_amqp::transaction::coordinator::ControlLinkAcceptor;
use fe2o3_amqp::Receiver;
use fe2o3_amqp_types::messaging::DeliveryState;
use fe2o3_amqp_types::performatives::Performative;
use fe2o3_amqp_types::transaction::{Declare, Discharge};
use std::sync::{Arc, Mutex};
use vlib::peer::value_len;
use vlib::util::{h64, hex};
use vlib::vpipe::{End, Pipe};

/// negotiated max-frame-size: the AMQP minimum, so that the ~1200 byte body needs >= 3 frames
pub const MFS: u32 = 512;
pub const BIG: usize = 1200;

#[derive(Debug, Clone, Copy, PartialEq, Eq, Hash)]
pub enum Ev {
    Declare,
    /// link 1 carries 1-frame messages, link 2 carries ~1200 byte (3-frame) messages; txn 0 = none
    Post { link: u8, txn: u8 },
    Commit(u8),
    Rollback(u8),
    /// series dependent (see `x_name`)
    X1,
    X2,
    SessionEnd,
    /// series dependent, only used by S1-shared: drop(t1)
    X3,
    /// S2-relink only: the client closes data link k (closing detach, answered by the listener)
    CloseLink(u8),
    /// S2-relink only: the client attaches a NEW link (new name, new target) re-using the handle number that
    /// link k had; the listener application accepts it as a further Receiver with a log of its own
    AttachReuse(u8),
}

pub const ALPHABET: [Ev; 15] = [
    Ev::Declare,
    Ev::Post { link: 1, txn: 0 },
    Ev::Post { link: 1, txn: 1 },
    Ev::Post { link: 2, txn: 1 },
    Ev::Commit(1),
    Ev::Rollback(1),
    Ev::Post { link: 2, txn: 0 },
    Ev::Post { link: 1, txn: 2 },
    Ev::Post { link: 2, txn: 2 },
    Ev::Commit(2),
    Ev::Rollback(2),
    Ev::X1,
    Ev::X2,
    Ev::SessionEnd,
    Ev::X3,
];

/// Alphabet of the S2-relink series (scripted client, ONE transaction slot, data links that are closed and whose
/// handle numbers are re-used by new links).  `post(link k, ..)` means "on the handle number of link k", i.e. on
/// whichever link currently holds it.
pub const RELINK_ALPHABET: [Ev; 10] = [
    Ev::Declare,
    Ev::Post { link: 1, txn: 1 },
    Ev::Post { link: 2, txn: 1 },
    Ev::Post { link: 1, txn: 0 },
    Ev::CloseLink(1),
    Ev::AttachReuse(1),
    Ev::CloseLink(2),
    Ev::AttachReuse(2),
    Ev::Commit(1),
    Ev::Rollback(1),
];

pub fn alphabet(series: Series) -> &'static [Ev] {
    match series {
        Series::S2Relink | Series::S2RelinkSettled => &RELINK_ALPHABET,
        _ => &ALPHABET,
    }
}

#[derive(Debug, Clone, Copy, PartialEq, Eq, Hash)]
pub enum Series {
    /// real client API, one shared `Controller` + borrowed `Transaction`s, against the real listener
    S1Shared,
    /// real client API, `OwnedTransaction`s (one control link each), against the real listener
    S1Owned,
    /// scripted client against the real listener
    S2,
    /// like S2, but the scripted client sends every post on the data links PRE-SETTLED
    S2Settled,
    /// real client API against a scripted coordinator-capable server
    S3,
    /// scripted client against the real listener; data links are closed and their handle numbers re-used by new
    /// links while a transaction holds posts (own alphabet: `RELINK_ALPHABET`)
    S2Relink,
    /// like S2Relink, posts PRE-SETTLED
    S2RelinkSettled,
}
pub const ALL_SERIES: [Series; 7] = [Series::S1Shared, Series::S1Owned, Series::S2, Series::S3, Series::S2Settled, Series::S2Relink, Series::S2RelinkSettled];

impl Series {
    pub fn tag(self) -> &'static str {
        match self {
            Series::S1Shared => "S1-shared",
            Series::S1Owned => "S1-owned",
            Series::S2 => "S2",
            Series::S2Settled => "S2-presettled",
            Series::S3 => "S3",
            Series::S2Relink => "S2-relink",
            Series::S2RelinkSettled => "S2-relink-presettled",
        }
    }
    pub fn from_tag(s: &str) -> Option<Series> {
        ALL_SERIES.iter().copied().find(|x| x.tag() == s)
    }
}

pub fn ev_name(series: Series, ev: Ev) -> String {
    match ev {
        Ev::Declare => "declare".into(),
        Ev::Post { link, txn: 0 } => format!("post(link{link},no-txn)"),
        Ev::Post { link, txn } => format!("post(link{link},t{txn})"),
        Ev::Commit(t) => format!("commit(t{t})"),
        Ev::Rollback(t) => format!("rollback(t{t})"),
        Ev::X1 => match series {
            Series::S1Shared => "controller.close()".into(),
            Series::S1Owned => "drop(t1)".into(),
            Series::S2 | Series::S2Settled | Series::S2Relink | Series::S2RelinkSettled => "control-link detach(closed=true)".into(),
            Series::S3 => "coordinator-rejects-next-discharge".into(),
        },
        Ev::X2 => match series {
            Series::S1Shared => "drop(controller)".into(),
            Series::S1Owned => "drop(t2)".into(),
            Series::S2 | Series::S2Settled | Series::S2Relink | Series::S2RelinkSettled => "control-link detach(closed=false)".into(),
            Series::S3 => "drop(t1)".into(),
        },
        Ev::SessionEnd => "session-end".into(),
        Ev::X3 => match series {
            Series::S1Shared => "drop(t1)".into(),
            _ => "(unused)".into(),
        },
        Ev::CloseLink(k) => format!("close-link(link{k})"),
        Ev::AttachReuse(k) => format!("attach-new-link-reusing-handle-of(link{k})"),
    }
}

// ---------------------------------------------------------------------------------- message bodies

pub fn body_for(link: u8, k: usize) -> String {
    if link == 1 {
        format!("s{k}")
    } else {
        let mut s = format!("B{k}:");
        s.extend(std::iter::repeat('x').take(BIG));
        s
    }
}
pub fn label_for(link: u8, k: usize) -> String {
    if link == 1 {
        format!("s{k}")
    } else {
        format!("B{k}")
    }
}
/// what the listener application logs for a received body: the label if the body is intact
pub fn label_of(b: &str) -> String {
    if let Some(rest) = b.strip_prefix('B') {
        if let Some((k, tail)) = rest.split_once(':') {
            if tail.len() == BIG && tail.bytes().all(|c| c == b'x') {
                return format!("B{k}");
            }
        }
        return format!("corrupt({} bytes, starts {:?})", b.len(), b.chars().take(10).collect::<String>());
    }
    if b.len() > 16 {
        return format!("corrupt({} bytes, starts {:?})", b.len(), b.chars().take(10).collect::<String>());
    }
    b.to_string()
}

// ---------------------------------------------------------------------------------- reference model

#[derive(Debug, Clone, Copy, PartialEq, Eq, Hash)]
pub enum Slot {
    Never,
    Live,
    Committed,
    RolledBack,
    /// controlling link / session went away without a discharge
    Aborted,
}

/// Reference model written from the statement: map txn -> ordered posts; per link the list of
/// deliveries visible to the application.
///
/// A "link" of the model is one ATTACHMENT with its own receiving application (its own `Receiver`, its own log):
/// links 1 and 2 exist from the start; the S2-relink series closes them and attaches further links (3, 4, ...)
/// that re-use their handle numbers.  A post belongs to the link it was sent on, for good.
#[derive(Debug, Clone)]
pub struct Model {
    pub slot: [Slot; 2],
    /// current (latest) id of the slot
    pub ids: [Option<Vec<u8>>; 2],
    /// every id ever handed out by a declare in this history
    pub all_ids: Vec<Vec<u8>>,
    /// posts under the live transaction of the slot, in posting order: (link, label)
    pub pending: [Vec<(u8, String)>; 2],
    /// per link (index = link number - 1): what the application must have seen so far, in order
    pub delivered: Vec<Vec<String>>,
    /// labels that must never be delivered (rolled back, aborted, refused)
    pub never: Vec<String>,
    /// per link: the peer has closed it (its receiving application is gone)
    pub closed: Vec<bool>,
    /// every post of the history: (label, link it was sent on)
    pub posted_to: Vec<(String, u8)>,
    /// posts of a successfully committed transaction whose link had been closed before the commit.  The statement's
    /// "all of them are delivered" has no addressee left for these: delivery is NOT demanded (and cannot happen on
    /// their own link); handing them to the application of another link is what the oracle forbids.
    pub orphaned: Vec<String>,
}

impl Default for Model {
    fn default() -> Self {
        Model {
            slot: [Slot::Never; 2],
            ids: [None, None],
            all_ids: vec![],
            pending: [vec![], vec![]],
            delivered: vec![vec![], vec![]],
            never: vec![],
            closed: vec![false, false],
            posted_to: vec![],
            orphaned: vec![],
        }
    }
}

impl Model {
    pub fn live(&self, t: u8) -> bool {
        self.slot[t as usize - 1] == Slot::Live
    }
    /// slot that the next declare fills: first one that is not live
    pub fn free_slot(&self) -> Option<usize> {
        self.slot.iter().position(|s| *s != Slot::Live)
    }
    /// returns false if the id is not fresh
    pub fn declare(&mut self, slot: usize, id: Vec<u8>) -> bool {
        let fresh = !self.all_ids.contains(&id);
        self.slot[slot] = Slot::Live;
        self.ids[slot] = Some(id.clone());
        self.all_ids.push(id);
        self.pending[slot].clear();
        fresh
    }
    pub fn post(&mut self, link: u8, txn: u8, label: String) {
        self.posted_to.push((label.clone(), link));
        if txn == 0 {
            self.delivered[link as usize - 1].push(label);
        } else {
            self.pending[txn as usize - 1].push((link, label));
        }
    }
    pub fn refuse(&mut self, label: String) {
        self.never.push(label);
    }
    pub fn commit(&mut self, t: u8) {
        let i = t as usize - 1;
        for (l, lab) in std::mem::take(&mut self.pending[i]) {
            if self.closed[l as usize - 1] {
                self.orphaned.push(lab);
            } else {
                self.delivered[l as usize - 1].push(lab);
            }
        }
        self.slot[i] = Slot::Committed;
    }
    /// the peer closed `link`: its receiving application is gone
    pub fn close_link(&mut self, link: u8) {
        self.closed[link as usize - 1] = true;
    }
    /// a further link with a receiving application of its own; returns its number
    pub fn add_link(&mut self) -> u8 {
        self.delivered.push(vec![]);
        self.closed.push(false);
        self.delivered.len() as u8
    }
    fn discard(&mut self, i: usize, to: Slot) {
        for (_, lab) in std::mem::take(&mut self.pending[i]) {
            self.never.push(lab);
        }
        self.slot[i] = to;
    }
    pub fn rollback(&mut self, t: u8) {
        self.discard(t as usize - 1, Slot::RolledBack);
    }
    pub fn abort(&mut self, t: u8) {
        self.discard(t as usize - 1, Slot::Aborted);
    }
    pub fn abort_all_live(&mut self) {
        for i in 0..2 {
            if self.slot[i] == Slot::Live {
                self.discard(i, Slot::Aborted);
            }
        }
    }
    pub fn key(&self) -> u64 {
        h64(&(
            self.slot,
            self.pending.iter().map(|p| p.iter().map(|(l, _)| *l).collect::<Vec<u8>>()).collect::<Vec<_>>(),
            self.delivered.iter().map(|d| d.len()).collect::<Vec<_>>(),
            self.never.len(),
            self.closed.clone(),
            self.orphaned.len(),
        ))
    }
    pub fn describe(&self) -> String {
        let mut s = format!(
            "model: t1={:?} t2={:?} withheld t1={:?} t2={:?} visible link1={:?} link2={:?} never={:?}",
            self.slot[0], self.slot[1], self.pending[0], self.pending[1], self.delivered[0], self.delivered[1], self.never
        );
        for (i, d) in self.delivered.iter().enumerate().skip(2) {
            s.push_str(&format!(" visible link{}={:?}", i + 1, d));
        }
        if self.closed.iter().any(|c| *c) {
            s.push_str(&format!(" closed links={:?}", self.closed.iter().enumerate().filter(|(_, c)| **c).map(|(i, _)| i + 1).collect::<Vec<_>>()));
        }
        if !self.orphaned.is_empty() {
            s.push_str(&format!(" committed-but-link-gone={:?}", self.orphaned));
        }
        s
    }
    pub fn links(&self) -> u8 {
        self.delivered.len() as u8
    }

    /// THE ORACLE (statement, first two sentences): at a quiescent state the receiving application's
    /// log, projected on each link, equals the model's list for that link.
    /// Permissive reading: "in posting order" is judged per link (AMQP orders deliveries within a link
    /// only; two application tasks draining two links have no defined relative order).
    /// A committed post whose own link was closed before the commit is not demanded anywhere (see `orphaned`);
    /// a post that shows up in the log of a link other than the one it was sent on is a failure whatever the
    /// discharge answered: "withheld from the receiving application" / "delivered" speak of the application that
    /// receives on the link the message was posted to (and C11: a frame reaches the link its handle designated
    /// when it was sent and no other).
    pub fn judge_log(&self, log: &[(u8, String)]) -> Option<(String, String)> {
        for link in 1..=self.links() {
            let seen: Vec<&String> = log.iter().filter(|(l, _)| *l == link).map(|(_, s)| s).collect();
            let want: Vec<&String> = self.delivered[link as usize - 1].iter().collect();
            if seen == want {
                continue;
            }
            let what = format!("application log of link {link} = {:?}, reference model = {:?}; {}", seen, want, self.describe());
            // classify by the first offending item
            for s in &seen {
                if s.starts_with("corrupt") {
                    return Some(("delivered-message-corrupt".into(), what));
                }
                if let Some((_, l)) = self.posted_to.iter().find(|(lab, _)| lab == *s) {
                    if *l != link {
                        let state = if self.pending.iter().any(|p| p.iter().any(|(_, lab)| lab == *s)) {
                            "still withheld under a live transaction"
                        } else if self.orphaned.contains(s) {
                            "committed after its own link had been closed"
                        } else if self.never.contains(s) {
                            "discarded (rolled back, aborted or refused)"
                        } else {
                            "visible on its own link"
                        };
                        return Some(("post-delivered-to-another-link".into(), format!("message {s:?} was posted on link {l} ({state}) and was handed to the application of link {link}; {what}")));
                    }
                }
                if self.pending.iter().any(|p| p.iter().any(|(_, lab)| lab == *s)) {
                    return Some(("withheld-post-delivered-before-discharge".into(), what));
                }
                if self.never.contains(s) {
                    return Some(("discarded-post-delivered".into(), what));
                }
                if seen.iter().filter(|x| x == &s).count() > 1 {
                    return Some(("post-delivered-twice".into(), what));
                }
                if !want.contains(s) {
                    return Some(("unknown-message-delivered".into(), what));
                }
            }
            if let Some(missing) = want.iter().find(|w| !seen.contains(w)) {
                let _ = missing;
                return Some(("expected-delivery-missing".into(), what));
            }
            return Some(("delivery-order-differs-from-posting-order".into(), what));
        }
        if let Some((l, s)) = log.iter().find(|(l, _)| *l < 1 || *l > self.links()) {
            return Some(("delivery-on-unknown-link".into(), format!("message {s:?} delivered on link {l}")));
        }
        None
    }
}

// ---------------------------------------------------------------------------------- the listener under test

#[derive(Debug, Default)]
pub struct Shared {
    /// what the receiving application has seen: (link, label), in the order it saw it
    pub log: Vec<(u8, String)>,
    pub notes: Vec<String>,
    /// if set, every accepted receiver link lowers its credit to Auto(n) right away (so that the listener
    /// sends link flows of its own after every few deliveries)
    pub small_credit: Option<u32>,
}
pub type Sh = Arc<Mutex<Shared>>;

/// "link-<n>" -> n (0 if the name has no such number)
fn link_no(name: &str) -> u8 {
    name.rsplit('-').next().and_then(|d| d.parse::<u8>().ok()).unwrap_or(0)
}

async fn receiver_main(mut r: Receiver, sh: Sh) {
    let link = link_no(r.name());
    let small = sh.lock().unwrap().small_credit;
    if let Some(n) = small {
        if let Err(e) = r.set_credit(n).await {
            sh.lock().unwrap().notes.push(format!("listener link {link}: set_credit({n}) failed: {e:?}"));
        }
    }
    loop {
        match r.recv::<String>().await {
            Ok(d) => {
                let label = label_of(d.body());
                sh.lock().unwrap().log.push((link, label));
                if let Err(e) = r.accept(&d).await {
                    sh.lock().unwrap().notes.push(format!("listener link {link}: accept failed: {e:?}"));
                }
            }
            Err(e) => {
                sh.lock().unwrap().notes.push(format!("listener link {link}: recv ended: {e:?}"));
                break;
            }
        }
    }
}

/// A real listener as in examples/txn_enabled_listener: ConnectionAcceptor, SessionAcceptor with a control
/// link acceptor, LinkAcceptor; one task per accepted receiver link drains `recv()` into the shared log.
pub fn spawn_listener(io: End, sh: Sh) {
    tokio::spawn(async move {
        let acceptor = ConnectionAcceptor::builder().container_id("listener").max_frame_size(MFS).build();
        let mut conn = match acceptor.accept(io).await {
            Ok(c) => c,
            Err(e) => {
                sh.lock().unwrap().notes.push(format!("listener: accept failed: {e:?}"));
                return;
            }
        };
        let sacc = SessionAcceptor::builder().control_link_acceptor(ControlLinkAcceptor::default()).build();
        loop {
            match sacc.accept(&mut conn).await {
                Ok(mut session) => {
                    let sh2 = sh.clone();
                    tokio::spawn(async move {
                        let lacc = LinkAcceptor::new();
                        loop {
                            match lacc.accept(&mut session).await {
                                Ok(LinkEndpoint::Receiver(r)) => {
                                    tokio::spawn(receiver_main(r, sh2.clone()));
                                }
                                Ok(LinkEndpoint::Sender(_)) => {}
                                Err(e) => {
                                    sh2.lock().unwrap().notes.push(format!("listener: link accept ended: {e:?}"));
                                    break;
                                }
                            }
                        }
                    });
                }
                Err(e) => {
                    sh.lock().unwrap().notes.push(format!("listener: session accept ended: {e:?}"));
                    break;
                }
            }
        }
    });
}

// ---------------------------------------------------------------------------------- wire tap

#[derive(Debug, Clone)]
pub struct TFrame {
    pub dir: usize,
    pub channel: u16,
    pub perf: Performative,
    pub payload: Vec<u8>,
}

/// independent of the library's framing code: cut the byte log of one direction into frames
pub fn tap(pipe: &Pipe, dir: usize) -> Vec<TFrame> {
    let mut bytes = vec![];
    for e in pipe.log() {
        if e.dir == dir {
            bytes.extend_from_slice(&e.bytes);
        }
    }
    let mut out = vec![];
    let mut p = 0usize;
    if bytes.len() >= 8 && &bytes[..4] == b"AMQP" {
        p = 8;
    }
    while p + 8 <= bytes.len() {
        let size = u32::from_be_bytes(bytes[p..p + 4].try_into().unwrap()) as usize;
        if size < 8 || p + size > bytes.len() {
            break;
        }
        let doff = bytes[p + 4] as usize * 4;
        let channel = u16::from_be_bytes([bytes[p + 6], bytes[p + 7]]);
        let body = &bytes[p + doff.min(size)..p + size];
        p += size;
        if body.is_empty() {
            continue;
        }
        let Some(vl) = value_len(body) else { continue };
        if let Ok(perf) = serde_amqp::from_slice::<Performative>(&body[..vl]) {
            out.push(TFrame { dir, channel, perf, payload: body[vl..].to_vec() });
        }
    }
    out
}

pub fn tshort(f: &TFrame) -> String {
    let d = if f.dir == 0 { "client->" } else { "<-listener" };
    let b = match &f.perf {
        Performative::Transfer(t) => format!(
            "transfer(h={},id={:?},settled={:?},more={},state={})+{}B",
            t.handle.0,
            t.delivery_id,
            t.settled,
            t.more,
            state_short(&t.state),
            f.payload.len()
        ),
        Performative::Disposition(d) => format!("disposition({:?},{}..{:?},settled={},state={})", d.role, d.first, d.last, d.settled, state_short(&d.state)),
        Performative::Attach(a) => format!("attach({},h={},{:?},coordinator={})", a.name, a.handle.0, a.role, is_coord(&a.target)),
        Performative::Detach(d) => format!("detach(h={},closed={},err={:?})", d.handle.0, d.closed, d.error.as_ref().map(|e| format!("{:?}", e.condition))),
        Performative::End(e) => format!("end(err={:?})", e.error.as_ref().map(|e| format!("{:?}", e.condition))),
        Performative::Close(c) => format!("close(err={:?})", c.error.as_ref().map(|e| format!("{:?}", e.condition))),
        Performative::Flow(f) => format!("flow(h={:?},credit={:?})", f.handle.as_ref().map(|h| h.0), f.link_credit),
        Performative::Open(_) => "open".into(),
        Performative::Begin(_) => "begin".into(),
    };
    format!("{d} ch{} {b}", f.channel)
}

pub fn state_short(s: &Option<DeliveryState>) -> String {
    match s {
        None => "-".into(),
        Some(DeliveryState::TransactionalState(t)) => format!("txn[{}]{}", hex(&t.txn_id[..t.txn_id.len().min(4)]), match &t.outcome {
            None => "".to_string(),
            Some(o) => format!("/{}", format!("{:?}", o).split('(').next().unwrap_or("")),
        }),
        Some(DeliveryState::Declared(d)) => format!("declared[{}]", hex(&d.txn_id[..d.txn_id.len().min(4)])),
        Some(DeliveryState::Rejected(r)) => format!("rejected({:?})", r.error.as_ref().map(|e| format!("{:?}", e.condition))),
        Some(other) => format!("{:?}", other).split('(').next().unwrap_or("").to_string(),
    }
}

pub fn is_coord(t: &Option<Box<fe2o3_amqp_types::messaging::TargetArchetype>>) -> bool {
    matches!(t.as_deref(), Some(fe2o3_amqp_types::messaging::TargetArchetype::Coordinator(_)))
}

#[allow(dead_code)]
pub enum CtlBody {
    Declare(Declare),
    Discharge(Discharge),
}

/// body of a control-link message: walk the bare message sections to the amqp-value section
pub fn decode_ctl(payload: &[u8]) -> Option<CtlBody> {
    let mut p = 0usize;
    while p + 3 <= payload.len() {
        let total = value_len(&payload[p..])?;
        // section = 0x00 <descriptor> <value>
        if payload[p] != 0 {
            return None;
        }
        let dl = value_len(&payload[p + 1..])?;
        let desc = &payload[p + 1..p + 1 + dl];
        let val = &payload[p + 1 + dl..p + total];
        let is_value = desc == [0x53, 0x77] || desc == [0x80, 0, 0, 0, 0, 0, 0, 0, 0x77];
        if is_value {
            if let Ok(d) = serde_amqp::from_slice::<Discharge>(val) {
                return Some(CtlBody::Discharge(d));
            }
            if let Ok(d) = serde_amqp::from_slice::<Declare>(val) {
                return Some(CtlBody::Declare(d));
            }
            return None;
        }
        p += total;
    }
    None
}

/// What the controller put on the wire for one post, judged against the statement's last sentence.
/// `frames`: the transfer frames of this post in wire order.  Returns (fails, frame count).
pub fn judge_post_wire(frames: &[&fe2o3_amqp_types::performatives::Transfer], want: Option<&[u8]>) -> Vec<(String, String)> {
    let mut f = vec![];
    let Some(first) = frames.first() else {
        f.push(("post-put-no-transfer-on-the-wire".to_string(), "no transfer frame was written for the post".to_string()));
        return f;
    };
    match (want, &first.state) {
        (None, None) => {}
        (None, Some(DeliveryState::TransactionalState(t))) => f.push((
            "non-transactional-post-carries-txn-id".into(),
            format!("a post outside any transaction went out with transactional state txn-id {}", hex(&t.txn_id)),
        )),
        (None, Some(_)) => {}
        (Some(id), Some(DeliveryState::TransactionalState(t))) => {
            if t.txn_id.as_slice() != id {
                f.push(("post-carries-wrong-txn-id".into(), format!("posted under txn {} but the transfer carries txn-id {}", hex(id), hex(&t.txn_id))));
            }
        }
        (Some(id), other) => f.push(("transactional-post-without-txn-state".into(), format!("posted under txn {} but the first transfer frame carries state {:?}", hex(id), other))),
    }
    if let Some(id) = want {
        for (j, t) in frames.iter().enumerate().skip(1) {
            match &t.state {
                Some(DeliveryState::TransactionalState(ts)) => {
                    if ts.txn_id.as_slice() != id {
                        f.push(("post-carries-wrong-txn-id".into(), format!("frame {} of the post carries txn-id {} instead of {}", j + 1, hex(&ts.txn_id), hex(id))));
                    }
                }
                // spec 4.4.4: "if the delivery is split across several transfer frames then all frames MUST
                // be explicitly associated with the same transaction" - this is what "the right transaction
                // id on the wire" means for a multi-frame post
                _ => f.push(("post-continuation-frame-without-txn-state".into(), format!("frame {} of a {}-frame post under txn {} carries state {:?}", j + 1, frames.len(), hex(id), t.state))),
            }
        }
    }
    f
}
