//! C09 - receiver link credit: accurate accounting, enforcement and replenishment.
//!
//! The real `Receiver` (client side: `Receiver::builder().credit_mode(..).attach`; listener side: the
//! receiver handed out by `LinkAcceptor::accept`) is driven against a scripted peer that plays the
//! SENDING end of the link.  Two exhaustive stages, both executed on the real stack:
//!
//!  * history search: every history of the stated depth over an alphabet of sender events (transfer
//!    within credit / up to the limit / one beyond the limit / multi-frame / pre-settled / intact on the
//!    wire but not decodable as the type the application asks for / a flow carrying the sender's
//!    delivery-count) and application events (recv one / recv all / accept oldest / accept
//!    newest / accept_all / accept through a `ReceiverDisposer` / set_credit / drain), per credit policy;
//!    a delivery the application got only as `RecvError::MessageDecode` is disposed of through the
//!    `DeliveryInfo` the error carries (reject / reject_all / release) by the same disposal events;
//!  * long streams: for Auto(n) every combination of disposal discipline x sender style, a
//!    credit-respecting sender that sends whenever it has credit must get 5n+3 messages through (in two
//!    of the sender styles every third delivery / every delivery cannot be decoded by recv());
//!  * part R, resumed links: the application detaches the link (`Receiver::detach`, not closing) and resumes
//!    it (`DetachedReceiver::resume`); the scripted sender answers the detach and attaches again announcing an
//!    initial-delivery-count of its choosing.  Every combination of policy {Auto(1), Auto(2), Auto(4), Manual
//!    with set_credit(3)} x deliveries received before the detach (0..=n) x of which disposed of (0..=k) x
//!    deliveries still waiting inside the link at the detach (0, 1, 2; unsettled / pre-settled) x the new
//!    initial-delivery-count x sender style after the resume (three credit-respecting ones that then stream
//!    3n+3 deliveries, one that overruns the new limit by one) x disposal discipline x when the deliveries held
//!    across the detach are disposed of.  The three clauses are judged on the new attachment exactly as on a
//!    fresh link; the signatures carry the suffix " (resumed link)".
//!
//! The monitor keeps the three clauses of the statement apart (signatures start with c1 / c2 / c3):
//!  c1  every link flow the receiver emits carries delivery-count = the value last learnt from the sender
//!      (attach or flow) + the deliveries received since, and a link-credit value;
//!  c2  a delivery beyond the credit issued is never returned by `recv()`; it is refused as a
//!      transfer-limit violation;
//!  c3  Auto(n): a sender that respects credit never stalls (and is never refused) as long as the
//!      application keeps receiving and disposing.
use fe2o3_amqp::acceptor::{ConnectionAcceptor, LinkAcceptor, LinkEndpoint, SessionAcceptor};
use fe2o3_amqp::link::delivery::DeliveryInfo;
use fe2o3_amqp::link::{CreditMode, RecvError};
use fe2o3_amqp::{Connection, Receiver, ReceiverDisposer, Session};
use fe2o3_amqp_types::definitions::{Handle, ReceiverSettleMode, Role, SenderSettleMode};
use fe2o3_amqp_types::messaging::message::__private::Serializable;
use fe2o3_amqp_types::messaging::{Message, Source, Target};
use fe2o3_amqp_types::performatives::*;
use fe2o3_amqp_types::primitives::Value;
use serde_json::json;
use std::sync::Arc;
use std::time::{Duration, Instant};
use vlib::history::{search, HistOut};
use vlib::peer::{drive, settle, Auto, Body, Dirn, Peer, WFrame, AMQP_HEADER};
use vlib::report::{Ctx, Outcome};
use vlib::runner::{run_exec, RunCfg, Scenario};
use vlib::util::{h64, par_map};
use vlib::vpipe::Pipe;

// ------------------------------------------------------------------------------------------------
// configuration
// ------------------------------------------------------------------------------------------------

#[derive(Debug, Clone, Copy, PartialEq, Eq, Hash)]
pub enum Side {
    Client,
    Listener,
}

#[derive(Debug, Clone, Copy, PartialEq, Eq, Hash)]
pub enum Policy {
    Auto(u32),
    Manual,
}

impl Policy {
    fn name(&self) -> String {
        match self {
            Policy::Auto(n) => format!("Auto({n})"),
            Policy::Manual => "Manual".into(),
        }
    }
    fn parse(s: &str) -> Option<Policy> {
        if s == "Manual" {
            return Some(Policy::Manual);
        }
        s.strip_prefix("Auto(")?.strip_suffix(')')?.parse().ok().map(Policy::Auto)
    }
}

#[derive(Debug, Clone, Copy, PartialEq, Eq, Hash)]
pub struct Cfg {
    pub side: Side,
    pub policy: Policy,
    /// initial-delivery-count announced by the scripted sender
    pub idc: u32,
}

#[derive(Debug, Clone, Copy, PartialEq, Eq, Hash)]
pub enum Ev {
    /// one single-frame unsettled delivery, sender has credit
    TxOne,
    /// as many deliveries as the sender has credit for (reaches the limit exactly); credit >= 2
    TxLimit,
    /// one delivery although the sender has no credit (one beyond the limit)
    TxOver,
    /// one delivery in three transfer frames, sender has credit
    TxMulti,
    /// one pre-settled delivery, sender has credit
    TxSettled,
    /// one single-frame unsettled delivery, sender has credit; the frame is intact, the payload is not a
    /// message recv::<Value>() can decode (recv() fails with RecvError::MessageDecode).  For clauses 1 and 2
    /// this is a delivery like any other: the sender counted it and it used one credit.
    TxBad,
    /// the sender sends a link flow with its current delivery-count (echo=true).  If the receiver asked
    /// to drain, the sender first advances its delivery-count over the unused credit, as the spec says.
    SFlow,
    /// the same sender flow without echo: the receiver learns the sender's delivery-count (advanced over the
    /// unused credit if it had asked to drain) and sends nothing back
    SFlowQuiet,
    /// the sender starts a two-frame delivery and aborts it (second frame: aborted=true), then reports its
    /// delivery-count at once with a link flow (echo).  Whether an aborted delivery counts is not spelt out by
    /// the specification; the scripted sender counts it (like qpid-proton) and says so in that flow, which is
    /// the value "last learnt from the sender" from then on.  Nothing is handed to the application.
    TxAbort,
    /// application: recv() once (a complete delivery is waiting)
    Recv,
    /// application: recv() until nothing is waiting (at least two are waiting)
    RecvAll,
    /// application: accept the oldest delivery not yet disposed of
    AccOld,
    /// application: accept the newest delivery not yet disposed of (out of order; at least two)
    AccNew,
    /// application: accept_all on everything not yet disposed of (at least two)
    AccAll,
    /// application: accept the oldest through a ReceiverDisposer
    AccDisp,
    /// Manual only: set_credit(1)
    SetCreditLo,
    /// Manual only: set_credit(3)
    SetCreditHi,
    /// Manual only: drain()
    Drain,
}

pub const FULL: [Ev; 18] = [
    Ev::TxOne,
    Ev::Recv,
    Ev::AccOld,
    Ev::TxLimit,
    Ev::TxOver,
    Ev::SFlow,
    Ev::RecvAll,
    Ev::AccAll,
    Ev::AccNew,
    Ev::AccDisp,
    Ev::TxMulti,
    Ev::TxSettled,
    Ev::TxBad,
    Ev::SetCreditLo,
    Ev::SetCreditHi,
    Ev::Drain,
    Ev::SFlowQuiet,
    Ev::TxAbort,
];
/// the core of the alphabet (used for the deepest level)
pub const CORE: [Ev; 8] = [Ev::TxOne, Ev::Recv, Ev::AccOld, Ev::TxLimit, Ev::TxOver, Ev::SFlow, Ev::RecvAll, Ev::AccAll];
/// the core plus the undecodable delivery (deepest level of the small Auto(n), where every credit counts)
pub const CORE_BAD: [Ev; 10] = [Ev::TxOne, Ev::Recv, Ev::AccOld, Ev::TxLimit, Ev::TxOver, Ev::SFlow, Ev::RecvAll, Ev::AccAll, Ev::TxBad, Ev::TxAbort];

/// the core for Manual links (credit exists only after a set_credit)
pub const CORE_MANUAL: [Ev; 10] = [Ev::SetCreditHi, Ev::TxOne, Ev::Recv, Ev::TxLimit, Ev::TxOver, Ev::SFlow, Ev::RecvAll, Ev::SetCreditLo, Ev::Drain, Ev::SFlowQuiet];

const LO: u32 = 1;
const HI: u32 = 3;

// ------------------------------------------------------------------------------------------------
// monitor
// ------------------------------------------------------------------------------------------------

#[derive(Debug, Clone, Copy, PartialEq, Eq, Hash)]
enum DState {
    Queued,
    Handed,
    Rejected,
    /// (part R) it was waiting inside the link when the application detached the link: the attachment it
    /// was sent on is gone and so is the delivery
    Dropped,
}

#[derive(Debug, Clone)]
struct Sent {
    /// sender's delivery-count before this delivery
    dc_before: u32,
    /// index of the newest receiver flow the sender had seen when it sent this delivery
    flow_at_send: usize,
    frames: u8,
    settled: bool,
    /// the payload cannot be decoded by recv::<Value>()
    bad: bool,
    st: DState,
}

#[derive(Debug, Clone)]
struct RFlow {
    dc: u32,
    credit: u32,
    drain: bool,
    /// number of deliveries handed to the application when this flow was emitted
    handed_at: usize,
}

impl RFlow {
    fn limit(&self) -> u32 {
        self.dc.wrapping_add(self.credit)
    }
}

/// what the harness did in the step during which a receiver flow appeared
#[derive(Debug, Clone, Copy, PartialEq, Eq)]
enum Cause {
    /// attach of an Auto(n) link / disposal in Auto mode: a new grant of the library's choosing
    Grant,
    SetCredit(u32),
    /// echo requested by the sender, drain(): no new grant, the current credit is reported
    Report,
    /// nothing that asks for a flow
    Spontaneous,
}

/// a < b in RFC 1982 serial-number arithmetic
fn serial_lt(a: u32, b: u32) -> bool {
    (b.wrapping_sub(a) as i32) > 0
}

#[derive(Debug, Default, Clone)]
pub struct Counters {
    pub rflows_checked: u64,
    pub topups: u64,
    pub limit_reached: u64,
    pub overruns_sent: u64,
    pub overruns_refused: u64,
    pub handed: u64,
    pub multi_handed: u64,
    pub settled_handed: u64,
    pub dispositions: u64,
    pub sflows_with_queue: u64,
    pub stall_checks: u64,
    pub out_of_order_accepts: u64,
    pub bad_sent: u64,
    pub bad_handed: u64,
    pub bad_disposed: u64,
    pub bad_refused_over_limit: u64,
    pub aborted_sent: u64,
}

impl Counters {
    fn add(&mut self, o: &Counters) {
        self.rflows_checked += o.rflows_checked;
        self.topups += o.topups;
        self.limit_reached += o.limit_reached;
        self.overruns_sent += o.overruns_sent;
        self.overruns_refused += o.overruns_refused;
        self.handed += o.handed;
        self.multi_handed += o.multi_handed;
        self.settled_handed += o.settled_handed;
        self.dispositions += o.dispositions;
        self.sflows_with_queue += o.sflows_with_queue;
        self.stall_checks += o.stall_checks;
        self.out_of_order_accepts += o.out_of_order_accepts;
        self.bad_sent += o.bad_sent;
        self.bad_handed += o.bad_handed;
        self.bad_disposed += o.bad_disposed;
        self.bad_refused_over_limit += o.bad_refused_over_limit;
        self.aborted_sent += o.aborted_sent;
    }
    fn json(&self) -> serde_json::Value {
        json!({
            "receiver_flows_judged": self.rflows_checked,
            "credit_top_ups_seen": self.topups,
            "states_with_sender_credit_exhausted": self.limit_reached,
            "overrun_deliveries_sent": self.overruns_sent,
            "overrun_deliveries_refused_by_recv": self.overruns_refused,
            "deliveries_returned_by_recv": self.handed,
            "multi_frame_deliveries_returned": self.multi_handed,
            "pre_settled_deliveries_returned": self.settled_handed,
            "disposition_frames_seen": self.dispositions,
            "sender_flows_sent_while_deliveries_waited_in_the_link": self.sflows_with_queue,
            "auto_stall_obligations_evaluated": self.stall_checks,
            "out_of_order_accepts": self.out_of_order_accepts,
            "undecodable_deliveries_sent": self.bad_sent,
            "undecodable_deliveries_received_as_decode_error": self.bad_handed,
            "undecodable_deliveries_rejected_or_released_through_the_error_info": self.bad_disposed,
            "undecodable_deliveries_refused_as_transfer_limit_violation": self.bad_refused_over_limit,
            "aborted_deliveries_sent": self.aborted_sent,
        })
    }
}

struct Mon {
    cfg: Cfg,
    lib_ch: u16,
    lib_handle: u32,
    snd_dc: u32,
    sent: Vec<Sent>,
    /// index 0 is the state before any flow: (initial-delivery-count, credit 0)
    rflows: Vec<RFlow>,
    /// last delivery-count the receiver learnt from the sender and how many deliveries the sender had sent by then
    base_val: u32,
    base_sent: usize,
    base_is_flow: bool,
    handed: usize,
    /// the peer broke the protocol and the library said so: nothing further is judged
    poisoned: bool,
    over_sent: bool,
    sflow_over_queue: bool,
    detach_conditions: Vec<String>,
    session_or_connection_ended: bool,
    cursor: usize,
    fails: Vec<(String, String)>,
    /// the harness itself did not do what it meant to do (never a verdict)
    machinery: Vec<String>,
    cnt: Counters,
    /// (part R) the link has been detached and resumed: everything judged from now on is judged on the new
    /// attachment and reported with the suffix " (resumed link)"
    resumed: bool,
    /// (part R) deliveries sent before the detach that recv() returned after the resume
    dropped_returned: usize,
    /// (part R) deliveries that were waiting inside the link when it was detached
    waiting_at_detach: usize,
}

impl Mon {
    fn new(cfg: Cfg, lib_ch: u16, lib_handle: u32) -> Self {
        Mon {
            cfg,
            lib_ch,
            lib_handle,
            snd_dc: cfg.idc,
            sent: vec![],
            rflows: vec![RFlow { dc: cfg.idc, credit: 0, drain: false, handed_at: 0 }],
            base_val: cfg.idc,
            base_sent: 0,
            base_is_flow: false,
            handed: 0,
            poisoned: false,
            over_sent: false,
            sflow_over_queue: false,
            detach_conditions: vec![],
            session_or_connection_ended: false,
            cursor: 0,
            fails: vec![],
            machinery: vec![],
            cnt: Counters::default(),
            resumed: false,
            dropped_returned: 0,
            waiting_at_detach: 0,
        }
    }

    /// (part R) The link was detached and has been attached again: a new attachment begins.  The scripted
    /// sender announced `idc` as initial-delivery-count in its new attach; the receiver has issued no credit on
    /// this attachment yet (2.6.7: link-credit is initialised to zero when a link endpoint is created), which is
    /// the state recorded as the first "flow" of the attachment.  Deliveries that were still waiting inside the
    /// link are gone with the old attachment.  Frames of the trace before `cursor` belong to the old attachment.
    fn reattach(&mut self, idc: u32, lib_handle: u32, cursor: usize) -> usize {
        let mut dropped = 0;
        for s in self.sent.iter_mut().filter(|s| s.st == DState::Queued) {
            s.st = DState::Dropped;
            dropped += 1;
        }
        self.cfg.idc = idc;
        self.lib_handle = lib_handle;
        self.snd_dc = idc;
        self.base_val = idc;
        self.base_sent = self.sent.len();
        self.base_is_flow = false;
        self.rflows.push(RFlow { dc: idc, credit: 0, drain: false, handed_at: self.handed });
        self.detach_conditions.clear();
        self.sflow_over_queue = false;
        self.cursor = cursor;
        self.resumed = true;
        self.waiting_at_detach += dropped;
        dropped
    }

    fn fail(&mut self, sig: &str, detail: String) {
        // histories in which the sender reported its delivery-count while deliveries it had already counted
        // were still waiting inside the link get their own class, so that a defect reachable only that
        // way does not hide anything else
        let tag = if self.sflow_over_queue { "sender-flow-over-waiting-deliveries: " } else { "" };
        // likewise (part R) the resumed links that were detached while deliveries were waiting inside the link
        let tag = if self.waiting_at_detach > 0 { format!("deliveries-waiting-at-detach: {tag}") } else { tag.to_string() };
        let sfx = if self.resumed { " (resumed link)" } else { "" };
        self.fails.push((format!("{tag}{sig}{sfx} [{:?}]", self.cfg.side), detail));
    }

    /// the sender's link-credit by the formula of the spec (2.6.7):
    /// link-credit_snd := delivery-count_rcv + link-credit_rcv - delivery-count_snd
    fn snd_credit(&self) -> u32 {
        let lim = self.rflows.last().unwrap().limit();
        if serial_lt(self.snd_dc, lim) {
            lim.wrapping_sub(self.snd_dc)
        } else {
            0
        }
    }

    fn queued(&self) -> usize {
        self.sent.iter().filter(|s| s.st == DState::Queued).count()
    }

    /// judge every frame the library wrote since the last call
    fn absorb(&mut self, trace: &[WFrame], cause: Cause) {
        while self.cursor < trace.len() {
            let w = &trace[self.cursor];
            self.cursor += 1;
            if w.dir != Dirn::FromLib {
                continue;
            }
            match &w.body {
                Body::Perf(Performative::Flow(f)) if w.channel == self.lib_ch && f.handle.as_ref().map(|h| h.0) == Some(self.lib_handle) => {
                    self.on_rflow(f, cause);
                }
                Body::Perf(Performative::Detach(d)) if w.channel == self.lib_ch && d.handle.0 == self.lib_handle => {
                    self.detach_conditions.push(d.error.as_ref().map(|e| format!("{:?}", e.condition)).unwrap_or_else(|| "none".into()));
                }
                Body::Perf(Performative::Disposition(_)) => self.cnt.dispositions += 1,
                Body::Perf(Performative::End(_)) | Body::Perf(Performative::Close(_)) => self.session_or_connection_ended = true,
                _ => {}
            }
        }
    }

    fn on_rflow(&mut self, f: &Flow, cause: Cause) {
        if self.poisoned {
            // after a protocol violation by the peer the two ends no longer agree on the count; the
            // statement says nothing about flows sent then
            return;
        }
        self.cnt.rflows_checked += 1;
        let shown = format!(
            "flow(delivery-count={:?}, link-credit={:?}, drain={}, echo={})",
            f.delivery_count, f.link_credit, f.drain, f.echo
        );
        // ---------------- clause 1, delivery-count
        // The scripted sender reports every change of its delivery-count that is not a transfer at once
        // (SFlow), and the system is quiescent, so "the value last learnt from the sender advanced by the
        // deliveries received since" is the sender's current delivery-count - IF a delivery counts as
        // received when its last frame reaches the link.  An implementation may just as well count a
        // delivery when recv() hands it over (this one does); then the deliveries still waiting inside the
        // link are not yet "received", including those the sender had already counted in the value it
        // reported.  Every value between the two readings passes:
        //     sender's delivery-count - deliveries waiting in the link  <=  reported  <=  sender's delivery-count
        // What does not pass under either reading is counting a delivery twice or not at all.
        let waiting = self.queued() as u32;
        let hi = self.snd_dc;
        let lo = hi.wrapping_sub(waiting);
        debug_assert_eq!(self.base_val.wrapping_add((self.sent.len() - self.base_sent) as u32), self.snd_dc);
        let learnt = if self.base_is_flow { "flow" } else { "attach" };
        match f.delivery_count {
            None => self.fail(
                "c1 flow-without-delivery-count",
                format!("the receiver sent {shown} without a delivery-count although the sender announced {} ({learnt})", self.base_val),
            ),
            Some(dc) => {
                if dc.wrapping_sub(lo) > waiting {
                    let dir = if serial_lt(hi, dc) { "ahead" } else { "behind" };
                    self.fail(
                        &format!("c1 delivery-count-mismatch learnt-from={learnt} {dir}"),
                        format!(
                            "the receiver sent {shown}; the last delivery-count it learnt from the sender is {} (from the sender's {learnt}), \
                             the sender has sent {} complete deliveries after that, recv() has returned {} deliveries in all and {waiting} are waiting in the link: \
                             the sender's delivery-count is {hi}, expected a value in {lo}..={hi}",
                            self.base_val,
                            self.sent.len() - self.base_sent,
                            self.handed,
                        ),
                    );
                }
            }
        }
        // ---------------- clause 1, credit
        // "the credit it intends to grant": only what the application asked for by name is demanded
        // (set_credit(k) => k).  A flow that merely reports (echo / drain, or anything in Manual mode that
        // the application did not ask for) must report the credit still outstanding, counted either way
        // (at arrival or at hand-over).  A new grant in Auto mode may be any amount: what it has to be
        // good for is judged by clauses 2 and 3.
        let last = self.rflows.last().unwrap().clone();
        match f.link_credit {
            None => self.fail("c1 flow-without-link-credit", format!("the receiver sent {shown} without link-credit")),
            Some(c) => match cause {
                Cause::SetCredit(k) => {
                    if c != k {
                        self.fail("c1 credit-field-mismatch set_credit", format!("set_credit({k}) was answered with {shown}"));
                    }
                }
                Cause::Grant => {
                    self.cnt.topups += 1;
                }
                Cause::Report | Cause::Spontaneous => {
                    if cause == Cause::Report || self.cfg.policy == Policy::Manual {
                        let lib_view = last.credit.saturating_sub((self.handed - last.handed_at) as u32);
                        let wire_view = self.snd_credit();
                        let (lo, hi) = (lib_view.min(wire_view), lib_view.max(wire_view));
                        if c < lo || c > hi {
                            self.fail(
                                "c1 credit-field-mismatch report",
                                format!(
                                    "the receiver sent {shown} without a new grant being asked for; the credit outstanding is {lo}..={hi} \
                                     (last flow granted {}, {} deliveries returned since, sender-side credit {wire_view})",
                                    last.credit,
                                    self.handed - last.handed_at
                                ),
                            );
                        }
                    } else {
                        self.cnt.topups += 1;
                    }
                }
            },
        }
        self.rflows.push(RFlow {
            dc: f.delivery_count.unwrap_or(self.cfg.idc),
            credit: f.link_credit.unwrap_or(0),
            drain: f.drain,
            handed_at: self.handed,
        });
    }

    /// Is delivery `i` - the next one recv() would hand over - inside the credit of (any, all) flows the
    /// receiver had issued between the moment the delivery was sent and now?  (DESIGN 2.7: most permissive
    /// view.)  Each flow is read in both ways an implementation may mean it:
    ///  * wire reading: the sender may send while its delivery-count is below delivery-count+credit of the
    ///    flow - compared with the sender's count when it sent the delivery;
    ///  * hand-over reading (count at recv()): the flow's credit is the number of deliveries the receiver is
    ///    still prepared to hand over - compared with the number handed over since the flow.
    /// The two differ when credit is lowered, or the sender's count jumps (drain), while deliveries wait
    /// inside the link.  A delivered delivery is an overrun only if NO reading of NO flow covers it; a
    /// refusal is unjustified only if EVERY reading of EVERY flow covers the delivery.
    fn within(&self, i: usize) -> (bool, bool) {
        let s = &self.sent[i];
        let w = &self.rflows[s.flow_at_send..];
        let wire = |f: &RFlow| serial_lt(s.dc_before, f.limit());
        let hand_over = |f: &RFlow| ((self.handed - f.handed_at) as u32) < f.credit;
        let any = w.iter().any(|f| wire(f) || hand_over(f));
        let all = w.iter().all(|f| wire(f) && hand_over(f));
        (any, all)
    }

    fn note_send(&mut self, frames: u8, settled: bool, bad: bool) -> usize {
        let over = self.snd_credit() == 0;
        if over {
            self.cnt.overruns_sent += 1;
            self.over_sent = true;
        }
        if bad {
            self.cnt.bad_sent += 1;
        }
        self.sent.push(Sent {
            dc_before: self.snd_dc,
            flow_at_send: self.rflows.len() - 1,
            frames,
            settled,
            bad,
            st: DState::Queued,
        });
        self.snd_dc = self.snd_dc.wrapping_add(1);
        self.sent.len() - 1
    }

    /// recv() returned delivery number `i` - or, for a delivery whose payload cannot be decoded, recv()
    /// took it from the link and reported it as RecvError::MessageDecode together with its DeliveryInfo.
    /// The latter is a delivery RECEIVED (clause 1) and ACCEPTED against the credit (clause 2) like any
    /// other: the link keeps it in its unsettled map and the application has to dispose of it; only its
    /// content never reaches the application.
    fn on_handed(&mut self, i: usize) {
        let (any, _) = self.within(i);
        let bad = self.sent[i].bad;
        let what = if bad { "reported (as a decode error, with its delivery info)" } else { "returned" };
        match self.sent[i].st {
            DState::Rejected => self.fail(
                "c2 refused-delivery-delivered-later",
                format!("recv() {what} delivery m{i} after having refused it as a transfer-limit violation"),
            ),
            DState::Handed => self.fail("c2 delivery-returned-twice", format!("recv() {what} delivery m{i} twice")),
            DState::Queued | DState::Dropped => {}
        }
        if !any && !self.poisoned {
            let s = &self.sent[i];
            let lims: Vec<String> = self.rflows[s.flow_at_send..].iter().map(|f| format!("{}+{}", f.dc, f.credit)).collect();
            self.fail(
                // an overrun has to be refused "as a transfer-limit violation": a decode error with a
                // delivery info the application is expected to settle is not that
                if bad { "c2 overrun-accepted-as-decode-error" } else { "c2 overrun-delivered" },
                format!(
                    "recv() {what} delivery m{i}, which the sender sent at delivery-count {} although every flow the receiver had issued \
                     between then and now puts the limit at or below it (delivery-count+credit of those flows: {:?})",
                    s.dc_before, lims
                ),
            );
        }
        self.sent[i].st = DState::Handed;
        self.handed += 1;
        if bad {
            self.cnt.bad_handed += 1;
            return;
        }
        self.cnt.handed += 1;
        if self.sent[i].frames > 1 {
            self.cnt.multi_handed += 1;
        }
        if self.sent[i].settled {
            self.cnt.settled_handed += 1;
        }
    }

    /// recv() failed while delivery `i` was the next one waiting
    fn on_refused(&mut self, i: usize, err: &RecvError) {
        let (any, all) = self.within(i);
        let limit_err = matches!(err, RecvError::TransferLimitExceeded);
        let detach_says_so = self.detach_conditions.iter().any(|c| c.contains("TransferLimitExceeded"));
        // An Auto(n) link never lowers its credit: the flow the sender acted on is a promise the link keeps.
        // (The two-readings tolerance of `within` exists for credit lowered by the application, or the sender's
        // count jumping after a drain, while deliveries wait in the link - neither can happen on an Auto(n) link.)
        let auto_promise = matches!(self.cfg.policy, Policy::Auto(_)) && {
            let s = &self.sent[i];
            serial_lt(s.dc_before, self.rflows[s.flow_at_send].limit())
        };
        if auto_promise && !all && !self.poisoned {
            let s = &self.sent[i];
            let f = &self.rflows[s.flow_at_send];
            self.fail(
                "c2 within-credit-delivery-refused (auto)",
                format!(
                    "recv() failed with `{err}` on delivery m{i}: the sender sent it at delivery-count {} after the receiver's flow delivery-count {} link-credit {} \
                     (limit {}), and an Auto(n) link never takes credit back",
                    s.dc_before,
                    f.dc,
                    f.credit,
                    f.limit()
                ),
            );
        }
        if all && !self.poisoned {
            let s = &self.sent[i];
            let lims: Vec<String> = self.rflows[s.flow_at_send..].iter().map(|f| format!("{}+{}", f.dc, f.credit)).collect();
            self.fail(
                if limit_err { "c2 within-credit-delivery-refused" } else { "c2 within-credit-delivery-failed" },
                format!(
                    "recv() failed with `{err}` on delivery m{i}, which the sender sent at delivery-count {} inside the limit of every flow the \
                     receiver had issued between then and now (delivery-count+credit of those flows: {:?})",
                    s.dc_before, lims
                ),
            );
        }
        if self.sent[i].bad && limit_err {
            // (possible only after the credit was lowered while the delivery waited in the link)
            self.cnt.bad_refused_over_limit += 1;
        }
        if !any {
            self.cnt.overruns_refused += 1;
            // "rejecting an overrun as a transfer-limit violation": read permissively, either recv() says
            // so (RecvError::TransferLimitExceeded) or the link is detached with that condition
            if !limit_err && !detach_says_so {
                self.fail(
                    "c2 overrun-refused-without-transfer-limit-signal",
                    format!("delivery m{i} was beyond the credit issued; recv() failed with `{err}` and no detach names transfer-limit-exceeded"),
                );
            }
        }
        self.sent[i].st = DState::Rejected;
        self.poisoned = true;
    }
}

// ------------------------------------------------------------------------------------------------
// the harness around one real receiver
// ------------------------------------------------------------------------------------------------

struct Harness {
    cfg: Cfg,
    peer: Peer,
    rx: Receiver,
    disp: ReceiverDisposer,
    our_ch: u16,
    our_handle: u32,
    next_delivery_id: u32,
    mon: Mon,
    undisposed: Vec<(usize, DeliveryInfo)>,
    log: Vec<String>,
    log_cursor: usize,
    _keep: Vec<Box<dyn std::any::Any>>,
}

fn payload(seq: usize) -> Vec<u8> {
    let m = Message::builder().value(format!("m{seq}")).build();
    serde_amqp::to_vec(&Serializable(m)).expect("encode message")
}

/// A payload that travels in an intact transfer frame but is not a message recv::<Value>() can decode.
/// Three shapes, by sequence number:
///  0: an amqp-value section holding a str8 that announces 16 bytes and has 3;
///  1: an amqp-value section whose value starts with a byte that is no AMQP format code (0x3f);
///  2: bytes that are no AMQP value at all (no section descriptor).
/// The delivery is identified by its delivery-tag ("t<seq>") which the decode error reports.
fn bad_payload(seq: usize) -> Vec<u8> {
    match seq % 3 {
        0 => vec![0x00, 0x53, 0x77, 0xa1, 0x10, b'b', b'a', b'd'],
        1 => vec![0x00, 0x53, 0x77, 0x3f, 0x01, 0x02],
        _ => vec![0xff, 0xfe, 0xfd, 0xfc],
    }
}

const H: Duration = Duration::from_secs(5);
const RECV_WAIT: Duration = Duration::from_millis(4);

async fn setup(cfg: Cfg) -> Result<Harness, String> {
    let (pipe, a, b) = Pipe::new();
    let mut keep: Vec<Box<dyn std::any::Any>> = vec![Box::new(b)];
    let mode = match cfg.policy {
        Policy::Auto(n) => CreditMode::Auto(n),
        Policy::Manual => CreditMode::Manual,
    };
    match cfg.side {
        Side::Client => {
            let mut auto = Auto::default();
            auto.max_frame_size = 4096;
            auto.initial_delivery_count = cfg.idc;
            let mut peer = Peer::new(pipe.clone(), 1, auto);
            let mut conn = drive(&mut peer, Connection::builder().container_id("lib").max_frame_size(4096).open_with_stream(a), H)
                .await
                .ok_or("open hangs")?
                .map_err(|e| format!("open: {e}"))?;
            let mut sess = drive(&mut peer, Session::begin(&mut conn), H).await.ok_or("begin hangs")?.map_err(|e| format!("begin: {e}"))?;
            let rx = drive(&mut peer, Receiver::builder().name("r").source("q").credit_mode(mode).attach(&mut sess), H)
                .await
                .ok_or("attach hangs")?
                .map_err(|e| format!("attach: {e}"))?;
            settle(&mut peer, 2).await;
            let l = peer.links.first().cloned().ok_or("peer saw no attach")?;
            let our_ch = peer.our_channel(l.lib_channel);
            let mut mon = Mon::new(cfg, l.lib_channel, l.lib_handle);
            // the flow (if any) sent as part of the attach: a grant of the library's choosing
            mon.absorb(&peer.trace, Cause::Grant);
            let disp = rx.disposer();
            keep.push(Box::new(sess));
            keep.push(Box::new(conn));
            Ok(Harness {
                cfg,
                peer,
                rx,
                disp,
                our_ch,
                our_handle: l.our_handle,
                next_delivery_id: 0,
                mon,
                undisposed: vec![],
                log: vec![],
                log_cursor: 0,
                _keep: keep,
            })
        }
        Side::Listener => {
            // scripted client that attaches as the sending end; the library's LinkAcceptor hands out the Receiver
            let mut auto = Auto::none();
            auto.max_frame_size = 4096;
            let mut peer = Peer::new(pipe.clone(), 1, auto);
            peer.send_proto_header(AMQP_HEADER);
            peer.send(
                0,
                Performative::Open(Open {
                    container_id: "scripted-client".into(),
                    hostname: None,
                    max_frame_size: 4096.into(),
                    channel_max: 10.into(),
                    idle_time_out: None,
                    outgoing_locales: None,
                    incoming_locales: None,
                    offered_capabilities: None,
                    desired_capabilities: None,
                    properties: None,
                }),
            );
            let acceptor = ConnectionAcceptor::new("lib-listener");
            let mut conn = drive(&mut peer, acceptor.accept(a), H).await.ok_or("accept hangs")?.map_err(|e| format!("accept: {e}"))?;
            peer.send(
                0,
                Performative::Begin(Begin {
                    remote_channel: None,
                    next_outgoing_id: 0,
                    incoming_window: 1000,
                    outgoing_window: 1000,
                    handle_max: Handle(100),
                    offered_capabilities: None,
                    desired_capabilities: None,
                    properties: None,
                }),
            );
            let mut sess = drive(&mut peer, SessionAcceptor::new().accept(&mut conn), H)
                .await
                .ok_or("session accept hangs")?
                .map_err(|e| format!("session accept: {e}"))?;
            settle(&mut peer, 1).await;
            let lib_ch = peer
                .trace
                .iter()
                .find_map(|w| match (&w.body, w.dir) {
                    (Body::Perf(Performative::Begin(_)), Dirn::FromLib) => Some(w.channel),
                    _ => None,
                })
                .ok_or("the listener sent no begin")?;
            if let Some(s) = peer.sessions.get_mut(&lib_ch) {
                s.our_channel = 0;
                s.incoming_window = 1000;
                s.outgoing_window = 1000;
                s.next_outgoing_id = 0;
            }
            peer.send(
                0,
                Performative::Attach(Attach {
                    name: "r".into(),
                    handle: Handle(0),
                    role: Role::Sender,
                    snd_settle_mode: SenderSettleMode::Mixed,
                    rcv_settle_mode: ReceiverSettleMode::First,
                    source: Some(Box::new(Source::from("q"))),
                    target: Some(Box::new(Target::from("t").into())),
                    unsettled: None,
                    incomplete_unsettled: false,
                    initial_delivery_count: Some(cfg.idc),
                    max_message_size: None,
                    offered_capabilities: None,
                    desired_capabilities: None,
                    properties: None,
                }),
            );
            let ep = drive(&mut peer, LinkAcceptor::new().accept(&mut sess), H)
                .await
                .ok_or("link accept hangs")?
                .map_err(|e| format!("link accept: {e}"))?;
            let LinkEndpoint::Receiver(mut rx) = ep else {
                return Err("the acceptor returned a sender".into());
            };
            settle(&mut peer, 2).await;
            let lib_handle = peer
                .trace
                .iter()
                .find_map(|w| match (&w.body, w.dir) {
                    (Body::Perf(Performative::Attach(a)), Dirn::FromLib) => Some(a.handle.0),
                    _ => None,
                })
                .ok_or("the listener sent no attach")?;
            let mut mon = Mon::new(cfg, lib_ch, lib_handle);
            // the acceptor's default credit mode is Auto(200) and cannot be configured: its first flow is a grant
            mon.absorb(&peer.trace, Cause::Grant);
            // bring the link to the policy under test through the public API
            match cfg.policy {
                Policy::Auto(n) => {
                    drive(&mut peer, rx.set_credit(n), H).await.ok_or("set_credit hangs")?.map_err(|e| format!("set_credit: {e}"))?;
                    settle(&mut peer, 2).await;
                    mon.absorb(&peer.trace, Cause::SetCredit(n));
                }
                Policy::Manual => {
                    rx.set_credit_mode(CreditMode::Manual);
                    drive(&mut peer, rx.set_credit(0), H).await.ok_or("set_credit hangs")?.map_err(|e| format!("set_credit: {e}"))?;
                    settle(&mut peer, 2).await;
                    mon.absorb(&peer.trace, Cause::SetCredit(0));
                }
            }
            peer.auto.detach = true;
            peer.auto.end = true;
            peer.auto.close = true;
            let disp = rx.disposer();
            keep.push(Box::new(sess));
            keep.push(Box::new(conn));
            keep.push(Box::new(acceptor));
            Ok(Harness {
                cfg,
                peer,
                rx,
                disp,
                our_ch: 0,
                our_handle: 0,
                next_delivery_id: 0,
                mon,
                undisposed: vec![],
                log: vec![],
                log_cursor: 0,
                _keep: keep,
            })
        }
    }
}

impl Harness {
    fn note(&mut self, s: String) {
        self.log.push(s);
    }

    /// copy the link-relevant part of the wire trace into the log
    fn log_wire(&mut self) {
        log_wire_into(&self.peer, &mut self.log, &mut self.log_cursor);
    }
}

fn log_wire_into(peer: &Peer, log: &mut Vec<String>, log_cursor: &mut usize) {
    {
        while *log_cursor < peer.trace.len() {
            let w = &peer.trace[*log_cursor];
            *log_cursor += 1;
            let keep = matches!(
                &w.body,
                Body::Perf(Performative::Attach(_))
                    | Body::Perf(Performative::Flow(_))
                    | Body::Perf(Performative::Transfer(_))
                    | Body::Perf(Performative::Disposition(_))
                    | Body::Perf(Performative::Detach(_))
                    | Body::Perf(Performative::End(_))
                    | Body::Perf(Performative::Close(_))
                    | Body::Undecodable(_)
            );
            if keep {
                log.push(format!("    {}", w.short()));
            }
        }
    }
}

impl Harness {
    /// the sender puts one delivery on the wire (in `frames` transfer frames)
    fn send_delivery(&mut self, frames: u8, settled: bool) -> usize {
        self.send_delivery_x(frames, settled, false)
    }

    /// `bad`: the payload is one recv::<Value>() cannot decode
    fn send_delivery_x(&mut self, frames: u8, settled: bool, bad: bool) -> usize {
        let seq = self.mon.note_send(frames, settled, bad);
        let body = if bad { bad_payload(seq) } else { payload(seq) };
        let id = self.next_delivery_id;
        self.next_delivery_id = self.next_delivery_id.wrapping_add(1);
        let n = frames as usize;
        let chunk = body.len().div_ceil(n).max(1);
        for k in 0..n {
            let lo = (k * chunk).min(body.len());
            let hi = if k + 1 == n { body.len() } else { ((k + 1) * chunk).min(body.len()) };
            let t = Transfer {
                handle: Handle(self.our_handle),
                delivery_id: Some(id),
                delivery_tag: Some(serde_bytes::ByteBuf::from(format!("t{seq}").into_bytes())),
                message_format: Some(0),
                settled: Some(settled),
                more: k + 1 < n,
                rcv_settle_mode: None,
                state: None,
                resume: false,
                aborted: false,
                batchable: false,
            };
            self.peer.send_perf(self.our_ch, Performative::Transfer(t), &body[lo..hi]);
        }
        seq
    }

    /// a delivery of two frames whose second frame aborts it; the sender counts it (see `Ev::TxAbort`)
    fn send_aborted_delivery(&mut self) {
        let id = self.next_delivery_id;
        self.next_delivery_id = self.next_delivery_id.wrapping_add(1);
        for k in 0..2 {
            let t = Transfer {
                handle: Handle(self.our_handle),
                delivery_id: Some(id),
                delivery_tag: Some(serde_bytes::ByteBuf::from(format!("a{id}").into_bytes())),
                message_format: Some(0),
                settled: Some(false),
                more: k == 0,
                rcv_settle_mode: None,
                state: None,
                resume: false,
                aborted: k == 1,
                batchable: false,
            };
            let body: &[u8] = if k == 0 { &[0x00, 0x53, 0x77, 0xa1] } else { &[] };
            self.peer.send_perf(self.our_ch, Performative::Transfer(t), body);
        }
        self.mon.snd_dc = self.mon.snd_dc.wrapping_add(1);
        self.mon.cnt.aborted_sent += 1;
    }

    /// the sender's own link flow: its delivery-count and the credit it believes it has
    fn send_sender_flow(&mut self, echo: bool) {
        let last = self.mon.rflows.last().unwrap().clone();
        let mut credit = self.mon.snd_credit();
        if last.drain && credit > 0 {
            // 2.6.7: "the sender will (after sending all available messages) advance the delivery-count as
            // much as possible, consuming all link-credit, and send the flow state to the receiver"
            self.mon.snd_dc = self.mon.snd_dc.wrapping_add(credit);
            credit = 0;
        }
        if self.mon.queued() > 0 {
            self.mon.cnt.sflows_with_queue += 1;
            self.mon.sflow_over_queue = true;
        }
        let mut f = self.peer.flow_for(self.mon.lib_ch);
        f.handle = Some(Handle(self.our_handle));
        f.delivery_count = Some(self.mon.snd_dc);
        f.link_credit = Some(credit);
        f.available = Some(0);
        f.drain = last.drain;
        f.echo = echo;
        self.peer.send(self.our_ch, Performative::Flow(f));
        // this is now the last value the receiver has learnt from the sender
        self.mon.base_val = self.mon.snd_dc;
        self.mon.base_sent = self.mon.sent.len();
        self.mon.base_is_flow = true;
    }

    async fn quiesce(&mut self, cause: Cause) {
        settle(&mut self.peer, 2).await;
        self.mon.absorb(&self.peer.trace, cause);
        self.log_wire();
    }

    /// one recv(); returns false when nothing came back
    async fn recv_once(&mut self) -> bool {
        let head = self.mon.sent.iter().position(|s| s.st == DState::Queued);
        let r = drive(&mut self.peer, self.rx.recv::<Value>(), RECV_WAIT).await;
        match r {
            Some(Ok(d)) => {
                let seq = match d.body() {
                    Value::String(s) => s.strip_prefix('m').and_then(|x| x.parse::<usize>().ok()),
                    _ => None,
                };
                match seq {
                    Some(i) if i < self.mon.sent.len() && self.mon.sent[i].bad => {
                        // machinery, not a verdict: the harness meant this payload to be undecodable
                        self.note(format!("    recv() -> Ok(m{i}) although the payload was meant to be undecodable"));
                        self.mon.machinery.push(format!("recv::<Value>() decoded the payload of m{i}, which the harness built to be undecodable"));
                        self.mon.on_handed(i);
                        self.undisposed.push((i, DeliveryInfo::from(&d)));
                    }
                    Some(i) if i < self.mon.sent.len() && self.mon.sent[i].st == DState::Dropped => {
                        // (part R) a delivery of the old attachment that the link kept across the detach: the
                        // statement's credit clauses speak about the attachment it was sent on; not judged
                        self.note(format!("    recv() -> Ok(m{i}), which was sent before the detach"));
                        self.mon.dropped_returned += 1;
                        self.undisposed.push((i, DeliveryInfo::from(&d)));
                    }
                    Some(i) if i < self.mon.sent.len() => {
                        self.note(format!("    recv() -> Ok(m{i})"));
                        self.mon.on_handed(i);
                        self.undisposed.push((i, DeliveryInfo::from(&d)));
                    }
                    _ => {
                        let b = format!("{:?}", d.body());
                        self.note(format!("    recv() -> Ok(unknown body {b})"));
                        self.mon.fail("c2 unknown-delivery-returned", format!("recv() returned a delivery the sender never sent: {b}"));
                    }
                }
                true
            }
            Some(Err(RecvError::MessageDecode(err))) => {
                // The frame was fine, the payload is not a message of the requested type.  The error names
                // the delivery (id and tag); the link holds it as unsettled until the application
                // disposes of it through `err.info`.
                let tag = String::from_utf8_lossy(err.info.delivery_tag()).to_string();
                let seq = tag.strip_prefix('t').and_then(|x| x.parse::<usize>().ok()).filter(|i| *i < self.mon.sent.len());
                self.note(format!("    recv() -> Err(MessageDecode {{ delivery-id {}, tag {tag}, source: {} }})", err.info.delivery_id(), err.source));
                match seq {
                    Some(i) if self.mon.sent[i].bad => {
                        self.mon.on_handed(i);
                        self.undisposed.push((i, err.info.clone()));
                    }
                    _ => {
                        // a decodable delivery (or none the sender sent) reported as undecodable
                        let e = RecvError::MessageDecode(err);
                        settle(&mut self.peer, 2).await;
                        self.mon.absorb(&self.peer.trace, Cause::Spontaneous);
                        match head {
                            Some(i) => self.mon.on_refused(i, &e),
                            None => self.mon.poisoned = true,
                        }
                    }
                }
                true
            }
            Some(Err(e)) => {
                self.note(format!("    recv() -> Err({e})"));
                settle(&mut self.peer, 2).await;
                self.mon.absorb(&self.peer.trace, Cause::Spontaneous);
                match head {
                    Some(i) => self.mon.on_refused(i, &e),
                    None => self.mon.poisoned = true,
                }
                true
            }
            None => {
                self.note("    recv() -> pending".into());
                if let Some(i) = head {
                    let (any, all) = self.mon.within(i);
                    if all && !self.mon.poisoned {
                        self.mon.fail(
                            "c3 recv-pending-with-delivery-waiting",
                            format!("delivery m{i} arrived completely and within credit but recv() does not return it"),
                        );
                    } else if !any && !self.mon.detach_conditions.iter().any(|c| c.contains("TransferLimitExceeded")) && !self.mon.poisoned {
                        self.mon.fail(
                            "c2 overrun-neither-delivered-nor-refused",
                            format!("delivery m{i} is beyond the credit issued; recv() stays pending and no detach names transfer-limit-exceeded"),
                        );
                    }
                }
                false
            }
        }
    }

    async fn accept_infos(&mut self, idx: Vec<usize>, how: &str) {
        // A delivery the application holds only as a decode error (no content) is not accepted: it is
        // rejected - or released where that is all the API offers (ReceiverDisposer) - through the
        // DeliveryInfo the error carried.  For the credit bookkeeping that is a disposal like any other.
        let is_bad = |h: &Harness, i: usize| h.mon.sent[h.undisposed[i].0].bad;
        let good: Vec<usize> = idx.iter().copied().filter(|i| !is_bad(self, *i)).collect();
        let bad: Vec<usize> = idx.iter().copied().filter(|i| is_bad(self, *i)).collect();
        self.mon.cnt.bad_disposed += bad.len() as u64;
        for (part, undecodable) in [(good, false), (bad, true)] {
            if part.is_empty() {
                continue;
            }
            let infos: Vec<DeliveryInfo> = part.iter().map(|i| self.undisposed[*i].1.clone()).collect();
            let names: Vec<String> = part.iter().map(|i| format!("m{}", self.undisposed[*i].0)).collect();
            let (verb, r) = match (how, undecodable) {
                ("all", false) => ("accept_all", drive(&mut self.peer, self.rx.accept_all(infos), H).await.map(|r| r.map_err(|e| e.to_string()))),
                ("all", true) => ("reject_all", drive(&mut self.peer, self.rx.reject_all(infos, None), H).await.map(|r| r.map_err(|e| e.to_string()))),
                ("disposer", false) => ("disposer.accept", drive(&mut self.peer, self.disp.accept(infos[0].clone()), H).await.map(|r| r.map_err(|e| e.to_string()))),
                ("disposer", true) => ("disposer.release", drive(&mut self.peer, self.disp.release(infos[0].clone()), H).await.map(|r| r.map_err(|e| e.to_string()))),
                (_, false) => ("accept", drive(&mut self.peer, self.rx.accept(infos[0].clone()), H).await.map(|r| r.map_err(|e| e.to_string()))),
                // alternate between the two outcomes the Receiver offers for a delivery without content
                (_, true) if self.undisposed[part[0]].0 % 2 == 0 => ("reject", drive(&mut self.peer, self.rx.reject(infos[0].clone(), None), H).await.map(|r| r.map_err(|e| e.to_string()))),
                (_, true) => ("release", drive(&mut self.peer, self.rx.release(infos[0].clone()), H).await.map(|r| r.map_err(|e| e.to_string()))),
            };
            self.note(format!("    {verb}[{how}]({}) -> {:?}", names.join(","), r));
        }
        let mut idx = idx;
        idx.sort();
        for i in idx.into_iter().rev() {
            self.undisposed.remove(i);
        }
    }

    fn enabled(&self, ev: Ev) -> bool {
        if self.mon.poisoned || self.mon.session_or_connection_ended || !self.mon.detach_conditions.is_empty() {
            return false;
        }
        let credit = self.mon.snd_credit();
        let queued = self.mon.queued();
        let und = self.undisposed.len();
        match ev {
            Ev::TxOne | Ev::TxMulti | Ev::TxSettled | Ev::TxBad | Ev::TxAbort => credit >= 1,
            Ev::TxLimit => credit >= 2,
            Ev::TxOver => credit == 0,
            Ev::SFlow | Ev::SFlowQuiet => true,
            Ev::Recv => queued >= 1,
            Ev::RecvAll => queued >= 2,
            Ev::AccOld | Ev::AccDisp => und >= 1,
            Ev::AccNew | Ev::AccAll => und >= 2,
            // the statement quantifies drain() over Manual links only.  (Tried: drain() on an Auto(n) link.  When the
            // sender gives the credit back and nothing is left to dispose of, the UNCHANGED library never re-issues
            // credit - a stall outside the quantifier, noted in FOLLOWUPS.md, not judged here.)
            Ev::SetCreditLo | Ev::SetCreditHi | Ev::Drain => self.cfg.policy == Policy::Manual,
        }
    }

    /// returns false if the event is not enabled in this state
    async fn step(&mut self, ev: Ev) -> bool {
        if !self.enabled(ev) {
            return false;
        }
        self.note(format!("  [{:?}] sender-credit={} waiting={} undisposed={}", ev, self.mon.snd_credit(), self.mon.queued(), self.undisposed.len()));
        let dispose_cause = match self.cfg.policy {
            Policy::Auto(_) => Cause::Grant,
            Policy::Manual => Cause::Spontaneous,
        };
        match ev {
            Ev::TxOne | Ev::TxOver => {
                self.send_delivery(1, false);
                self.quiesce(Cause::Spontaneous).await;
            }
            Ev::TxLimit => {
                for _ in 0..self.mon.snd_credit() {
                    self.send_delivery(1, false);
                }
                self.quiesce(Cause::Spontaneous).await;
            }
            Ev::TxMulti => {
                self.send_delivery(3, false);
                self.quiesce(Cause::Spontaneous).await;
            }
            Ev::TxSettled => {
                self.send_delivery(1, true);
                self.quiesce(Cause::Spontaneous).await;
            }
            Ev::TxBad => {
                self.send_delivery_x(1, false, true);
                self.quiesce(Cause::Spontaneous).await;
            }
            Ev::SFlow => {
                self.send_sender_flow(true);
                self.quiesce(Cause::Report).await;
            }
            Ev::SFlowQuiet => {
                self.send_sender_flow(false);
                self.quiesce(Cause::Spontaneous).await;
            }
            Ev::TxAbort => {
                self.send_aborted_delivery();
                self.send_sender_flow(true);
                self.quiesce(Cause::Report).await;
            }
            Ev::Recv => {
                self.recv_once().await;
                self.quiesce(Cause::Spontaneous).await;
            }
            Ev::RecvAll => {
                while self.mon.queued() > 0 && !self.mon.poisoned {
                    if !self.recv_once().await {
                        break;
                    }
                }
                self.quiesce(Cause::Spontaneous).await;
            }
            Ev::AccOld => {
                self.accept_infos(vec![0], "one").await;
                self.quiesce(dispose_cause).await;
            }
            Ev::AccDisp => {
                self.accept_infos(vec![0], "disposer").await;
                self.quiesce(dispose_cause).await;
            }
            Ev::AccNew => {
                self.mon.cnt.out_of_order_accepts += 1;
                self.accept_infos(vec![self.undisposed.len() - 1], "one").await;
                self.quiesce(dispose_cause).await;
            }
            Ev::AccAll => {
                self.accept_infos((0..self.undisposed.len()).collect(), "all").await;
                self.quiesce(dispose_cause).await;
            }
            Ev::SetCreditLo | Ev::SetCreditHi => {
                let k = if ev == Ev::SetCreditLo { LO } else { HI };
                let r = drive(&mut self.peer, self.rx.set_credit(k), H).await;
                self.note(format!("    set_credit({k}) -> {:?}", r.map(|r| r.map_err(|e| e.to_string()))));
                self.quiesce(Cause::SetCredit(k)).await;
            }
            Ev::Drain => {
                let r = drive(&mut self.peer, self.rx.drain(), H).await;
                self.note(format!("    drain() -> {:?}", r.map(|r| r.map_err(|e| e.to_string()))));
                self.quiesce(Cause::Report).await;
            }
        }
        if self.mon.poisoned {
            // one more recv(): a refused delivery must not come back
            if self.mon.queued() > 0 {
                self.recv_once().await;
            }
            self.log_wire();
        }
        self.obligations();
        true
    }

    /// obligations at a quiescent state
    fn obligations(&mut self) {
        if self.mon.snd_credit() == 0 && !self.mon.poisoned {
            self.mon.cnt.limit_reached += 1;
        }
        // clause 3 as a safety condition.  Read permissively: credit has to come back only once the
        // application has received everything that arrived AND disposed of everything it received (an
        // application that never receives or never disposes is owed nothing: credit is "messages the
        // receiver can handle"), and only towards a sender that never overran.
        if let Policy::Auto(n) = self.cfg.policy {
            if n >= 1 && !self.mon.poisoned && !self.mon.over_sent && self.mon.detach_conditions.is_empty() && !self.mon.session_or_connection_ended {
                if self.mon.queued() == 0 && self.undisposed.is_empty() {
                    self.mon.cnt.stall_checks += 1;
                    if self.mon.snd_credit() == 0 {
                        let last = self.mon.rflows.last().unwrap().clone();
                        self.mon.fail(
                            "c3 auto-credit-stall",
                            format!(
                                "Auto({n}): the application has received and disposed of all {} deliveries, yet the sender has no credit \
                                 (sender delivery-count {}, last receiver flow delivery-count {} credit {}): nobody can make progress",
                                self.mon.sent.len(),
                                self.mon.snd_dc,
                                last.dc,
                                last.credit
                            ),
                        );
                    }
                }
            }
        }
    }

    fn state_key(&self) -> u64 {
        let last = self.mon.rflows.last().unwrap();
        h64(&(
            self.cfg,
            self.mon.snd_credit(),
            self.mon.queued(),
            self.undisposed.len(),
            self.mon.handed,
            self.mon.poisoned,
            last.dc.wrapping_sub(self.cfg.idc),
            last.credit,
            last.drain,
            self.rx.credit(),
            self.mon.rflows.len(),
            (
                self.mon.snd_dc.wrapping_sub(self.cfg.idc),
                self.mon.base_val.wrapping_sub(self.cfg.idc),
                // undecodable deliveries waiting in the link / held by the application as a decode error
                self.mon.sent.iter().filter(|s| s.bad && s.st == DState::Queued).count(),
                self.undisposed.iter().filter(|(i, _)| self.mon.sent[*i].bad).count(),
            ),
        ))
    }
}

// ------------------------------------------------------------------------------------------------
// stage 1: history search
// ------------------------------------------------------------------------------------------------

#[derive(Debug, Clone, Default)]
pub struct Obs {
    pub executed: usize,
    pub setup_error: Option<String>,
    pub fails: Vec<(String, String)>,
    pub state_keys: Vec<u64>,
    pub log: Vec<String>,
    pub cnt: Counters,
}

pub async fn scenario(cfg: Cfg, events: Vec<Ev>) -> Obs {
    let mut obs = Obs::default();
    let mut h = match setup(cfg).await {
        Ok(h) => h,
        Err(e) => {
            obs.setup_error = Some(e);
            return obs;
        }
    };
    h.note(format!("{:?} {} initial-delivery-count={}", cfg.side, cfg.policy.name(), cfg.idc));
    h.log_wire();
    h.obligations();
    obs.state_keys.push(h.state_key());
    for (i, ev) in events.iter().enumerate() {
        if !h.step(*ev).await {
            break;
        }
        obs.executed = i + 1;
        obs.state_keys.push(h.state_key());
    }
    if let Some(m) = h.mon.machinery.first() {
        obs.setup_error = Some(format!("{m} (events {:?})", events));
    }
    obs.fails = std::mem::take(&mut h.mon.fails);
    obs.fails.sort();
    obs.fails.dedup_by(|a, b| a.0 == b.0);
    obs.log = std::mem::take(&mut h.log);
    obs.cnt = h.mon.cnt.clone();
    obs
}

fn run_history(cfg: Cfg, evs: Vec<Ev>) -> (HistOut, Counters) {
    let scen: Scenario<Obs> = {
        let evs = evs.clone();
        Arc::new(move || {
            let evs = evs.clone();
            Box::pin(scenario(cfg, evs))
        })
    };
    let ex = run_exec(vec![], &RunCfg::none(), &scen);
    let mut out = HistOut::default();
    let ctxs = format!("{:?}/{}/idc={}", cfg.side, cfg.policy.name(), cfg.idc);
    let mut cnt = Counters::default();
    match ex.out {
        Some(o) => {
            out.executed = o.executed;
            if let Some(e) = o.setup_error {
                out.machinery = Some(format!("{ctxs}: harness problem (start state not reached / payload not as intended): {e}"));
            }
            out.fails = o.fails.into_iter().map(|(s, d)| (s, format!("{ctxs}: {d}"))).collect();
            out.state_keys = o.state_keys;
            out.trace = o.log;
            cnt = o.cnt;
        }
        None => {
            out.executed = evs.len();
            out.machinery = Some(if ex.watchdog {
                format!("{ctxs} {:?}: the execution did not finish in real time", evs)
            } else {
                format!("{ctxs} {:?}: scenario panicked: {:?}", evs, ex.panics)
            });
        }
    }
    // panics and busy loops of library tasks are not C09's business: reported as machinery errors
    if ex.spun {
        out.machinery = Some(format!("{ctxs} {:?}: some task polled more than 20000 times at one virtual instant", evs));
    }
    if let Some(p) = ex.panics.iter().find(|p| !p.contains("vcheck/src")) {
        if out.machinery.is_none() {
            out.machinery = Some(format!("{ctxs} {:?}: a library task panicked: {p}", evs));
        }
    }
    (out, cnt)
}

// ------------------------------------------------------------------------------------------------
// stage 2: long streams in Auto mode
// ------------------------------------------------------------------------------------------------

#[derive(Debug, Clone, Copy, PartialEq, Eq, Hash)]
pub enum Disp {
    /// accept every delivery right after recv()
    Each,
    /// accept every delivery through a ReceiverDisposer
    EachDisposer,
    /// collect n deliveries (everything the credit allows), then accept_all
    BatchFull,
    /// collect ceil(n/2) deliveries, then accept_all
    BatchHalf,
    /// collect two deliveries, accept the newer one, then the older one
    PairsReversed,
    /// collect two deliveries, then accept_all (for n >= 5 every batch is smaller than half the window)
    BatchTwo,
    /// collect max(2, n/3) deliveries, then accept_all
    BatchThird,
    /// the application only receives: it never calls accept / dispose.  Used with PRE-SETTLED streams only, where
    /// there is nothing to dispose of: a delivery handed to the application has been handled (the quantifier's
    /// disposal order "never"; with unsettled deliveries, not re-issuing credit is the receiver's right - they are
    /// still being handled - and only the safety clauses are judged there)
    NeverPreSettled,
}
pub const DISPS: [Disp; 7] = [Disp::Each, Disp::EachDisposer, Disp::BatchFull, Disp::BatchHalf, Disp::PairsReversed, Disp::BatchTwo, Disp::BatchThird];

#[derive(Debug, Clone, Copy, PartialEq, Eq, Hash)]
pub enum SenderStyle {
    /// sends all it has credit for, in one go
    Burst,
    /// sends one delivery, then lets the application run
    OneByOne,
    /// like Burst, and reports its flow state (delivery-count) after each burst
    BurstWithFlows,
    /// like Burst, pre-settled deliveries
    BurstSettled,
    /// like Burst, every delivery in three frames
    BurstMulti,
    /// like Burst; every third delivery (the 2nd, 5th, ...) cannot be decoded by recv::<Value>(): the
    /// application gets a decode error and rejects / releases the delivery through the error's info
    BurstThirdBad,
    /// like OneByOne; no delivery can be decoded
    OneByOneAllBad,
}
pub const STYLES: [SenderStyle; 7] = [
    SenderStyle::Burst,
    SenderStyle::OneByOne,
    SenderStyle::BurstWithFlows,
    SenderStyle::BurstSettled,
    SenderStyle::BurstMulti,
    SenderStyle::BurstThirdBad,
    SenderStyle::OneByOneAllBad,
];

#[derive(Debug, Clone, Default)]
pub struct StreamObs {
    pub setup_error: Option<String>,
    pub fails: Vec<(String, String)>,
    pub log: Vec<String>,
    pub delivered: usize,
    pub rounds: usize,
    pub cnt: Counters,
    pub key: u64,
}

pub async fn stream(cfg: Cfg, disp: Disp, style: SenderStyle, total: usize) -> StreamObs {
    let mut o = StreamObs::default();
    let Policy::Auto(n) = cfg.policy else {
        o.setup_error = Some("long streams are for Auto policies".into());
        return o;
    };
    let mut h = match setup(cfg).await {
        Ok(h) => h,
        Err(e) => {
            o.setup_error = Some(e);
            return o;
        }
    };
    h.note(format!("{:?} {} idc={} {:?} {:?} total={total}", cfg.side, cfg.policy.name(), cfg.idc, disp, style));
    h.log_wire();
    let batch = match disp {
        Disp::Each | Disp::EachDisposer => 1,
        Disp::BatchFull => n as usize,
        Disp::BatchHalf => (n as usize).div_ceil(2),
        Disp::PairsReversed | Disp::BatchTwo => 2,
        Disp::BatchThird => (n as usize / 3).max(2),
        Disp::NeverPreSettled => usize::MAX,
    }
    .max(1);
    let (frames, settled) = match style {
        SenderStyle::BurstSettled => (1, true),
        SenderStyle::BurstMulti => (3, false),
        _ => (1, false),
    };
    let mut rounds = 0usize;
    loop {
        rounds += 1;
        if h.mon.handed >= total && (h.undisposed.is_empty() || disp == Disp::NeverPreSettled) {
            break;
        }
        if rounds > 20 * total + 50 {
            h.mon.fail("c3 no-termination", "the stream did not finish within the round budget".into());
            break;
        }
        let mut progress = false;
        // ---- the sender: sends whenever it has credit, never more
        let remaining = total - h.mon.sent.len();
        let credit = h.mon.snd_credit() as usize;
        let k = match style {
            SenderStyle::OneByOne | SenderStyle::OneByOneAllBad => credit.min(1),
            _ => credit,
        }
        .min(remaining);
        if k > 0 {
            h.note(format!("  [sender] credit={credit} sends {k}"));
            for _ in 0..k {
                let bad = match style {
                    SenderStyle::BurstThirdBad => h.mon.sent.len() % 3 == 1,
                    SenderStyle::OneByOneAllBad => true,
                    _ => false,
                };
                h.send_delivery_x(frames, settled, bad);
            }
            if style == SenderStyle::BurstWithFlows {
                h.send_sender_flow(false);
            }
            h.quiesce(Cause::Spontaneous).await;
            progress = true;
        }
        if h.mon.snd_credit() == 0 {
            h.mon.cnt.limit_reached += 1;
        }
        // ---- the application: receives what is there, disposes in its discipline
        while h.mon.queued() > 0 && !h.mon.poisoned {
            h.note(format!("  [app] recv, waiting={}", h.mon.queued()));
            if !h.recv_once().await {
                break;
            }
            progress = true;
            if h.undisposed.len() >= batch {
                dispose(&mut h, disp).await;
            }
            if matches!(style, SenderStyle::OneByOne | SenderStyle::OneByOneAllBad) {
                break;
            }
        }
        if h.mon.poisoned {
            // recv() refused a delivery of a sender that respected credit: already reported by the monitor
            // as "c2 within-credit-delivery-refused"; clause 3 is broken by the same fact
            h.mon.fail(
                "c3 credit-respecting-sender-refused",
                format!("Auto({n}): after {} deliveries a sender that never exceeded its credit had a delivery refused", h.mon.handed),
            );
            break;
        }
        if !progress {
            // nothing to send, nothing to receive: an application that keeps disposing now disposes of
            // whatever it still holds (a partial batch) before anybody may call it a stall
            if !h.undisposed.is_empty() && disp != Disp::NeverPreSettled {
                h.note("  [app] flushes its partial batch".into());
                dispose(&mut h, disp).await;
                continue;
            }
            h.mon.cnt.stall_checks += 1;
            let last = h.mon.rflows.last().unwrap().clone();
            h.mon.fail(
                if disp == Disp::NeverPreSettled { "c3 auto-credit-stall (pre-settled stream, nothing to dispose of)" } else { "c3 auto-credit-stall" },
                format!(
                    "Auto({n}), {:?}, {:?}: after {} of {total} deliveries the application has received and disposed of everything, the sender has \
                     no credit (sender delivery-count {}, last receiver flow delivery-count {} credit {}): the stream stalls",
                    disp,
                    style,
                    h.mon.handed,
                    h.mon.snd_dc,
                    last.dc,
                    last.credit
                ),
            );
            break;
        }
    }
    if let Some(m) = h.mon.machinery.first() {
        o.setup_error = Some(m.clone());
    }
    o.delivered = h.mon.handed;
    o.rounds = rounds;
    o.fails = std::mem::take(&mut h.mon.fails);
    o.fails.sort();
    o.fails.dedup_by(|a, b| a.0 == b.0);
    o.cnt = h.mon.cnt.clone();
    o.key = h64(&(cfg, disp, style, o.delivered, h.mon.rflows.len(), h.mon.rflows.iter().map(|f| (f.dc.wrapping_sub(cfg.idc), f.credit)).collect::<Vec<_>>()));
    o.log = std::mem::take(&mut h.log);
    o
}

async fn dispose(h: &mut Harness, disp: Disp) {
    // Auto(n): a flow that follows a disposal is a new grant of the library's choosing
    dispose_with(h, disp, Cause::Grant).await
}

async fn dispose_with(h: &mut Harness, disp: Disp, cause: Cause) {
    let n = h.undisposed.len();
    if n == 0 {
        return;
    }
    match disp {
        Disp::Each => {
            for _ in 0..n {
                h.accept_infos(vec![0], "one").await;
                h.quiesce(cause).await;
            }
        }
        Disp::EachDisposer => {
            for _ in 0..n {
                h.accept_infos(vec![0], "disposer").await;
                h.quiesce(cause).await;
            }
        }
        Disp::BatchFull | Disp::BatchHalf | Disp::BatchTwo | Disp::BatchThird => {
            if n == 1 {
                h.accept_infos(vec![0], "one").await;
            } else {
                h.accept_infos((0..n).collect(), "all").await;
            }
            h.quiesce(cause).await;
        }
        Disp::NeverPreSettled => {}
        Disp::PairsReversed => {
            for _ in 0..n {
                let last = h.undisposed.len() - 1;
                if last > 0 {
                    h.mon.cnt.out_of_order_accepts += 1;
                }
                h.accept_infos(vec![last], "one").await;
                h.quiesce(cause).await;
            }
        }
    }
}

fn run_stream(cfg: Cfg, disp: Disp, style: SenderStyle, total: usize) -> (StreamObs, Option<String>) {
    let scen: Scenario<StreamObs> = Arc::new(move || Box::pin(stream(cfg, disp, style, total)));
    let ex = run_exec(vec![], &RunCfg::none(), &scen);
    let ctxs = format!("{:?}/{}/idc={}/{:?}/{:?}", cfg.side, cfg.policy.name(), cfg.idc, disp, style);
    let mut mach = None;
    let o = match ex.out {
        Some(mut o) => {
            if let Some(e) = o.setup_error.take() {
                mach = Some(format!("{ctxs}: harness problem (start state not reached / payload not as intended): {e}"));
            }
            for f in o.fails.iter_mut() {
                f.1 = format!("{ctxs}: {}", f.1);
            }
            o
        }
        None => {
            mach = Some(if ex.watchdog {
                format!("{ctxs}: the execution did not finish in real time")
            } else {
                format!("{ctxs}: scenario panicked: {:?}", ex.panics)
            });
            StreamObs::default()
        }
    };
    if ex.spun && mach.is_none() {
        mach = Some(format!("{ctxs}: some task polled more than 20000 times at one virtual instant"));
    }
    if let Some(p) = ex.panics.iter().find(|p| !p.contains("vcheck/src")) {
        if mach.is_none() {
            mach = Some(format!("{ctxs}: a library task panicked: {p}"));
        }
    }
    (o, mach)
}

// ------------------------------------------------------------------------------------------------
// part R: credit across detach + resume
// ------------------------------------------------------------------------------------------------
//
// A link that the application detaches (not closes) and resumes is the same link with a new attachment.
// The statement does not exempt it: on the new attachment the three clauses are judged exactly as on a
// fresh link.  "The sender's delivery-count as last learnt from the sender (at attach ...)" is the
// initial-delivery-count of the sender's NEW attach; "the credit it issued" is what the flows sent on the new
// attachment say (2.6.7: link-credit is initialised to zero when a link endpoint is created, so before the
// first flow on the new attachment the scripted sender has no credit and sends nothing).
//
// What is NOT judged (the statement is silent about it): what happens to deliveries that were waiting inside
// the link when the application detached it (they belong to the old attachment; an unsettled one stays in the
// sender's unsettled map, a pre-settled one may be lost by definition) - their number is counted for the
// evidence; and how much credit the link issues after the resume (an Auto(n) link may come back with another
// window) as long as clauses 2 and 3 hold - the number of cases in which `Receiver::credit_mode()` differs
// after the resume is counted for the evidence.

/// the initial-delivery-count of the scripted sender's new attach (a sender is free to pick any value)
#[derive(Debug, Clone, Copy, PartialEq, Eq, Hash)]
pub enum Idc2 {
    /// the number of deliveries it has sent on this link so far
    Sent,
    /// the value it announced in the first attach advanced by the deliveries sent (= its delivery-count at the detach)
    Continued,
    /// 2^32-2: the count wraps around during the stream after the resume
    NearWrap,
}
pub const IDC2S: [Idc2; 3] = [Idc2::Sent, Idc2::Continued, Idc2::NearWrap];

/// behaviour of the credit-respecting sender after the resume
#[derive(Debug, Clone, Copy, PartialEq, Eq, Hash)]
pub enum RStyle {
    /// sends all it has credit for, in one go (like `SenderStyle::Burst`)
    Burst,
    /// first reports its flow state on the new attachment (echo requested), nothing waiting in the link; then like Burst
    FlowFirst,
    /// like Burst, and reports its flow state after each burst (like `SenderStyle::BurstWithFlows`)
    BurstWithFlows,
    /// NOT credit-respecting (the first half of clause 2 on the new attachment): right after the resume it sends
    /// all it has credit for and one delivery more; the application receives; the case ends there
    Overrun,
}
pub const RSTYLES: [RStyle; 4] = [RStyle::Burst, RStyle::FlowFirst, RStyle::BurstWithFlows, RStyle::Overrun];

/// disposal disciplines after the resume
pub const RDISPS: [Disp; 2] = [Disp::Each, Disp::BatchFull];

#[derive(Debug, Clone, Copy, PartialEq, Eq, Hash)]
pub struct RCase {
    pub side: Side,
    /// `Policy::Manual` stands for Manual with set_credit(3) before the first delivery (and again, on the new
    /// attachment, whenever the credit is used up and everything has been disposed of)
    pub policy: Policy,
    /// deliveries received by the application before the detach
    pub k: u8,
    /// of which disposed of (the oldest `d`)
    pub d: u8,
    /// further deliveries that wait inside the link, not received by the application, at the detach
    pub b: u8,
    /// those are pre-settled
    pub b_settled: bool,
    pub idc2: Idc2,
    pub style: RStyle,
    pub disp: Disp,
    /// the k-d deliveries still held at the detach are disposed of right after the resume (otherwise only when
    /// nothing else can happen any more)
    pub old_first: bool,
}

impl RCase {
    fn window(&self) -> u32 {
        match self.policy {
            Policy::Auto(n) => n,
            Policy::Manual => HI,
        }
    }
    fn name(&self) -> String {
        format!(
            "{:?}/{}/k={} d={} buffered={}{}/idc2={:?}/{:?}/{:?}/{}",
            self.side,
            match self.policy {
                Policy::Manual => format!("Manual({HI})"),
                p => p.name(),
            },
            self.k,
            self.d,
            self.b,
            if self.b == 0 {
                ""
            } else if self.b_settled {
                " pre-settled"
            } else {
                " unsettled"
            },
            self.idc2,
            self.style,
            self.disp,
            if self.k == self.d {
                "-"
            } else if self.old_first {
                "held ones disposed first"
            } else {
                "held ones disposed last"
            }
        )
    }
    fn json(&self) -> serde_json::Value {
        json!({
            "kind": "resumed", "side": format!("{:?}", self.side), "policy": self.policy.name(), "idc": 5,
            "k": self.k, "d": self.d, "b": self.b, "b_settled": self.b_settled,
            "idc2": format!("{:?}", self.idc2), "style": format!("{:?}", self.style), "disp": format!("{:?}", self.disp), "old_first": self.old_first,
        })
    }
    fn from_json(r: &serde_json::Value) -> Option<RCase> {
        Some(RCase {
            side: if r["side"] == "Listener" { Side::Listener } else { Side::Client },
            policy: r["policy"].as_str().and_then(Policy::parse)?,
            k: r["k"].as_u64()? as u8,
            d: r["d"].as_u64()? as u8,
            b: r["b"].as_u64()? as u8,
            b_settled: r["b_settled"].as_bool().unwrap_or(false),
            idc2: IDC2S.iter().copied().find(|x| format!("{:?}", x) == r["idc2"].as_str().unwrap_or("")).unwrap_or(Idc2::Sent),
            style: RSTYLES.iter().copied().find(|x| format!("{:?}", x) == r["style"].as_str().unwrap_or("")).unwrap_or(RStyle::Burst),
            disp: DISPS.iter().copied().find(|x| format!("{:?}", x) == r["disp"].as_str().unwrap_or("")).unwrap_or(Disp::Each),
            old_first: r["old_first"].as_bool().unwrap_or(false),
        })
    }
}

#[derive(Debug, Clone, Default)]
pub struct ResObs {
    pub setup_error: Option<String>,
    /// the case does not exist (e.g. the sender has no credit for the deliveries that are to wait in the link)
    pub not_applicable: Option<String>,
    pub fails: Vec<(String, String)>,
    pub log: Vec<String>,
    /// deliveries recv() returned after the resume
    pub delivered_after: usize,
    pub total_after: usize,
    pub completed: bool,
    /// deliveries that were waiting inside the link at the detach and never reached the application
    pub lost_at_detach: usize,
    pub lost_pre_settled: usize,
    /// `Receiver::credit_mode()` before the detach / after the resume
    pub mode_before: String,
    pub mode_after: String,
    /// link flows of the receiver judged on the new attachment
    pub flows_after: u64,
    /// link-credit of the first flow on the new attachment (None: no flow before the sender acted)
    pub first_credit_after: Option<u32>,
    pub set_credits_after: usize,
    /// style Overrun: the delivery beyond the limit of the new attachment was refused
    pub overrun_refused: bool,
    pub rounds: usize,
    pub cnt: Counters,
    pub key: u64,
}

/// detach() + resume() of the real receiver; the scripted sender answers the detach and attaches again announcing `idc2`
async fn detach_and_resume(h: Harness, idc2: u32) -> Result<(Harness, usize), (String, Vec<String>)> {
    use fe2o3_amqp::link::receiver::ResumingReceiver;
    let Harness { cfg, mut peer, rx, disp, our_ch, our_handle: _, next_delivery_id, mut mon, undisposed, mut log, mut log_cursor, _keep } = h;
    drop(disp);
    log.push(format!("  [detach] waiting={} undisposed={} Receiver::credit()={} credit_mode={:?}", mon.queued(), undisposed.len(), rx.credit(), rx.credit_mode()));
    let det = match drive(&mut peer, rx.detach(), H).await {
        Some(Ok(d)) => d,
        Some(Err((_d, e))) => return Err((format!("detach() failed: {e}"), log)),
        None => return Err(("detach() hangs".into(), log)),
    };
    settle(&mut peer, 1).await;
    log_wire_into(&peer, &mut log, &mut log_cursor);
    // everything up to here belongs to the old attachment
    let cursor = peer.trace.len();
    peer.auto.attach = true;
    peer.auto.initial_delivery_count = idc2;
    log.push(format!("  [resume] the sender will announce initial-delivery-count={idc2}"));
    let rx = match drive(&mut peer, det.resume(), H).await {
        Some(Ok(r)) => {
            let how = match &r {
                ResumingReceiver::Complete(_) => "Complete",
                ResumingReceiver::IncompleteUnsettled(_) => "IncompleteUnsettled",
                ResumingReceiver::Resume(_) => "Resume",
            };
            log_wire_into(&peer, &mut log, &mut log_cursor);
            log.push(format!("    resume() -> Ok({how})"));
            r.into_receiver()
        }
        Some(Err(e)) => return Err((format!("resume() failed: {}", e.kind), log)),
        None => return Err(("resume() hangs".into(), log)),
    };
    settle(&mut peer, 2).await;
    let Some(l) = peer.links.iter().rev().find(|l| !l.detached).cloned() else {
        return Err(("the scripted sender saw no new attach".into(), log));
    };
    let lost = mon.reattach(idc2, l.lib_handle, cursor);
    // the flow (if any) sent as part of the resume: how much credit the link issues on the new attachment is the
    // library's choice (judged by what it is good for: clauses 2 and 3)
    mon.absorb(&peer.trace, Cause::Grant);
    let disp = rx.disposer();
    let mut h = Harness { cfg, peer, rx, disp, our_ch, our_handle: l.our_handle, next_delivery_id, mon, undisposed, log, log_cursor, _keep };
    h.log_wire();
    Ok((h, lost))
}

pub async fn resumed(c: RCase) -> ResObs {
    let mut o = ResObs::default();
    let cfg = Cfg { side: c.side, policy: c.policy, idc: 5 };
    let n = c.window();
    let mut h = match setup(cfg).await {
        Ok(h) => h,
        Err(e) => {
            o.setup_error = Some(e);
            return o;
        }
    };
    h.note(format!("resumed link: {}", c.name()));
    h.log_wire();
    // ---------------------------------------------------------------- before the detach
    let mut pre: Vec<Ev> = vec![];
    if c.policy == Policy::Manual {
        pre.push(Ev::SetCreditHi);
    }
    pre.extend(std::iter::repeat(Ev::TxOne).take(c.k as usize));
    pre.extend(std::iter::repeat(Ev::Recv).take(c.k as usize));
    pre.extend(std::iter::repeat(Ev::AccOld).take(c.d as usize));
    pre.extend(std::iter::repeat(if c.b_settled { Ev::TxSettled } else { Ev::TxOne }).take(c.b as usize));
    for ev in pre {
        if !h.step(ev).await {
            o.not_applicable = Some(format!("{:?} is not enabled (sender credit {}, waiting {}, undisposed {})", ev, h.mon.snd_credit(), h.mon.queued(), h.undisposed.len()));
            o.log = std::mem::take(&mut h.log);
            return o;
        }
    }
    if h.mon.poisoned || h.mon.queued() != c.b as usize || h.undisposed.len() != (c.k - c.d) as usize {
        o.setup_error = Some(format!(
            "the state before the detach is not the one intended: waiting {} (wanted {}), undisposed {} (wanted {}), refusal seen: {}",
            h.mon.queued(),
            c.b,
            h.undisposed.len(),
            c.k - c.d,
            h.mon.poisoned
        ));
        o.log = std::mem::take(&mut h.log);
        return o;
    }
    o.lost_pre_settled = h.mon.sent.iter().filter(|s| s.st == DState::Queued && s.settled).count();
    o.mode_before = format!("{:?}", h.rx.credit_mode());
    // ---------------------------------------------------------------- detach + resume
    let idc2 = match c.idc2 {
        Idc2::Sent => h.mon.sent.len() as u32,
        Idc2::Continued => h.mon.snd_dc,
        Idc2::NearWrap => u32::MAX - 1,
    };
    let flows_before = h.mon.cnt.rflows_checked;
    let rflows_before = h.mon.rflows.len() + 1; // + the state "no credit issued yet" of the new attachment
    let (mut h, lost) = match detach_and_resume(h, idc2).await {
        Ok(x) => x,
        Err((e, log)) => {
            o.setup_error = Some(e);
            o.log = log;
            return o;
        }
    };
    o.lost_at_detach = lost;
    o.mode_after = format!("{:?}", h.rx.credit_mode());
    o.first_credit_after = h.mon.rflows.get(rflows_before).map(|f| f.credit);
    h.note(format!(
        "  [resumed] Receiver::credit()={} credit_mode={:?} (before the detach: {}); {} delivery(ies) that waited in the link are gone",
        h.rx.credit(),
        h.rx.credit_mode(),
        o.mode_before,
        lost
    ));
    // ---------------------------------------------------------------- the stream on the new attachment
    let dispose_cause = match c.policy {
        Policy::Auto(_) => Cause::Grant,
        // Manual: the application did not ask for a flow; whatever comes is a report of the credit outstanding
        Policy::Manual => Cause::Spontaneous,
    };
    let total = (3 * n + 3) as usize;
    o.total_after = total;
    let sent0 = h.mon.sent.len();
    let handed0 = h.mon.handed;
    // the deliveries the application still holds from before the detach
    let mut held: Vec<(usize, DeliveryInfo)> = std::mem::take(&mut h.undisposed);
    if c.old_first && !held.is_empty() {
        h.note(format!("  [app] disposes of the {} deliveries it holds from before the detach", held.len()));
        h.undisposed = std::mem::take(&mut held);
        dispose_with(&mut h, c.disp, dispose_cause).await;
    }
    if c.style == RStyle::FlowFirst {
        h.note("  [sender] reports its flow state on the new attachment (echo)".into());
        h.send_sender_flow(true);
        h.quiesce(Cause::Report).await;
    }
    let batch = match c.disp {
        Disp::BatchFull => n as usize,
        _ => 1,
    };
    let mut rounds = 0usize;
    let mut set_credit_was_last = false;
    if c.style == RStyle::Overrun {
        // one beyond the limit of the new attachment: must be refused as a transfer-limit violation, whatever
        // credit the old attachment had left
        o.total_after = 0;
        let credit = h.mon.snd_credit();
        h.note(format!("  [sender] credit={credit} sends {}", credit + 1));
        for _ in 0..=credit {
            h.send_delivery(1, false);
        }
        h.quiesce(Cause::Spontaneous).await;
        while h.mon.queued() > 0 && !h.mon.poisoned {
            h.note(format!("  [app] recv, waiting={}", h.mon.queued()));
            if !h.recv_once().await {
                break;
            }
        }
        if h.mon.poisoned && h.mon.queued() > 0 {
            // one more recv(): a refused delivery must not come back
            h.recv_once().await;
        }
        h.quiesce(Cause::Spontaneous).await;
        o.overrun_refused = h.mon.sent.last().map(|s| s.st == DState::Rejected).unwrap_or(false);
    }
    while c.style != RStyle::Overrun {
        rounds += 1;
        if h.mon.handed - handed0 >= total && h.undisposed.is_empty() && held.is_empty() {
            o.completed = true;
            break;
        }
        if rounds > 20 * total + 50 {
            h.mon.fail("c3 no-termination", "the stream after the resume did not finish within the round budget".into());
            break;
        }
        let mut progress = false;
        // ---- the sender: sends whenever the latest flow on the NEW attachment gives it credit, never more
        let remaining = total - (h.mon.sent.len() - sent0);
        let credit = h.mon.snd_credit() as usize;
        let s = credit.min(remaining);
        if s > 0 {
            h.note(format!("  [sender] credit={credit} sends {s}"));
            for _ in 0..s {
                h.send_delivery(1, false);
            }
            if c.style == RStyle::BurstWithFlows {
                h.send_sender_flow(false);
            }
            h.quiesce(Cause::Spontaneous).await;
            progress = true;
            set_credit_was_last = false;
        }
        if h.mon.snd_credit() == 0 {
            h.mon.cnt.limit_reached += 1;
        }
        // ---- the application: receives what is there, disposes in its discipline
        while h.mon.queued() > 0 && !h.mon.poisoned {
            h.note(format!("  [app] recv, waiting={}", h.mon.queued()));
            if !h.recv_once().await {
                break;
            }
            progress = true;
            if h.undisposed.len() >= batch {
                dispose_with(&mut h, c.disp, dispose_cause).await;
            }
        }
        if h.mon.poisoned {
            if let Policy::Auto(n) = c.policy {
                h.mon.fail(
                    "c3 credit-respecting-sender-refused",
                    format!("Auto({n}): after {} deliveries on the new attachment a sender that never exceeded its credit had a delivery refused", h.mon.handed - handed0),
                );
            }
            break;
        }
        if progress {
            continue;
        }
        // nothing to send, nothing to receive: an application that keeps disposing now disposes of whatever it
        // still holds - a partial batch, then the deliveries from before the detach - before anybody may call it a stall
        if !h.undisposed.is_empty() {
            h.note("  [app] flushes its partial batch".into());
            dispose_with(&mut h, c.disp, dispose_cause).await;
            continue;
        }
        if !held.is_empty() {
            h.note(format!("  [app] disposes of the {} deliveries it holds from before the detach", held.len()));
            h.undisposed = std::mem::take(&mut held);
            dispose_with(&mut h, c.disp, dispose_cause).await;
            continue;
        }
        if h.mon.handed - handed0 >= total {
            continue; // finished (checked at the top)
        }
        match c.policy {
            Policy::Manual => {
                // Manual: credit comes from the application.  Everything has been received and disposed of:
                // it asks for the next window.  (Clause 3 is about Auto(n); nothing is demanded here beyond
                // clauses 1 and 2 - if the sender still has no credit after this flow, the flow itself was
                // wrong and clause 1 has said so.)
                if set_credit_was_last {
                    h.note("  [app] set_credit did not give the sender any credit: the stream ends here".into());
                    break;
                }
                let r = drive(&mut h.peer, h.rx.set_credit(HI), H).await;
                h.note(format!("  [app] set_credit({HI}) -> {:?}", r.map(|r| r.map_err(|e| e.to_string()))));
                h.quiesce(Cause::SetCredit(HI)).await;
                o.set_credits_after += 1;
                set_credit_was_last = true;
            }
            Policy::Auto(n) => {
                h.mon.cnt.stall_checks += 1;
                let last = h.mon.rflows.last().unwrap().clone();
                h.mon.fail(
                    "c3 auto-credit-stall",
                    format!(
                        "Auto({n}): the link was detached with {} deliveries received ({} disposed of) and {} waiting in the link, and resumed (the sender's new attach \
                         announced initial-delivery-count {idc2}); after {} of {total} deliveries on the new attachment the application has received and disposed of everything, \
                         the sender has no credit (sender delivery-count {}, last receiver flow delivery-count {} credit {}; Receiver::credit_mode() is {} now, was {}): the stream stalls",
                        c.k,
                        c.d,
                        c.b,
                        h.mon.handed - handed0,
                        h.mon.snd_dc,
                        last.dc,
                        last.credit,
                        o.mode_after,
                        o.mode_before
                    ),
                );
                break;
            }
        }
    }
    if let Some(m) = h.mon.machinery.first() {
        o.setup_error = Some(m.clone());
    }
    o.delivered_after = h.mon.handed - handed0;
    o.rounds = rounds;
    o.flows_after = h.mon.cnt.rflows_checked - flows_before;
    o.fails = std::mem::take(&mut h.mon.fails);
    o.fails.sort();
    o.fails.dedup_by(|a, b| a.0 == b.0);
    o.cnt = h.mon.cnt.clone();
    o.key = h64(&(c, o.delivered_after, h.mon.rflows.len(), h.mon.rflows[rflows_before - 1..].iter().map(|f| (f.dc.wrapping_sub(idc2), f.credit)).collect::<Vec<_>>()));
    o.log = std::mem::take(&mut h.log);
    o
}

fn run_resumed(c: RCase) -> (ResObs, Option<String>) {
    let scen: Scenario<ResObs> = Arc::new(move || Box::pin(resumed(c)));
    let ex = run_exec(vec![], &RunCfg::none(), &scen);
    let ctxs = format!("resumed link {}", c.name());
    let mut mach = None;
    let o = match ex.out {
        Some(mut o) => {
            if let Some(e) = o.setup_error.take() {
                mach = Some(format!("{ctxs}: harness problem (state before the detach not reached / detach or resume failed): {e}; trace: {:?}", o.log));
            }
            for f in o.fails.iter_mut() {
                f.1 = format!("{ctxs}: {}", f.1);
            }
            o
        }
        None => {
            mach = Some(if ex.watchdog {
                format!("{ctxs}: the execution did not finish in real time")
            } else {
                format!("{ctxs}: scenario panicked: {:?}", ex.panics)
            });
            ResObs::default()
        }
    };
    if ex.spun && mach.is_none() {
        mach = Some(format!("{ctxs}: some task polled more than 20000 times at one virtual instant"));
    }
    if let Some(p) = ex.panics.iter().find(|p| !p.contains("vcheck/src")) {
        if mach.is_none() {
            mach = Some(format!("{ctxs}: a library task panicked: {p}"));
        }
    }
    (o, mach)
}

/// all cases of part R inside the bound
fn resumed_cases(quick: bool) -> Vec<RCase> {
    let mut v = vec![];
    for side in [Side::Client, Side::Listener] {
        for policy in [Policy::Auto(1), Policy::Auto(2), Policy::Auto(4), Policy::Manual] {
            let n = match policy {
                Policy::Auto(n) => n as u8,
                Policy::Manual => HI as u8,
            };
            for k in 0..=n {
                for d in 0..=k {
                    // (whether the sender has credit for the b deliveries that are to wait in the link depends on
                    // the top-ups the disposals caused: decided by the execution, see `not_applicable`)
                    for (b, b_settled) in [(0u8, false), (1, false), (1, true), (2, false), (2, true)] {
                        for idc2 in IDC2S {
                            for style in RSTYLES {
                                for disp in RDISPS {
                                    for old_first in [false, true] {
                                        if old_first && k == d {
                                            continue;
                                        }
                                        // the listener differs from the client only in how the first attachment comes
                                        // about: the quick tier runs one discipline and two of the three new counts there
                                        if quick && side == Side::Listener && (disp != Disp::Each || idc2 == Idc2::NearWrap) {
                                            continue;
                                        }
                                        // nothing is disposed of in a discipline after the overrun
                                        if style == RStyle::Overrun && disp != Disp::Each {
                                            continue;
                                        }
                                        v.push(RCase { side, policy, k, d, b, b_settled, idc2, style, disp, old_first });
                                    }
                                }
                            }
                        }
                    }
                }
            }
        }
    }
    v
}

// ------------------------------------------------------------------------------------------------
// driver
// ------------------------------------------------------------------------------------------------

struct Plan {
    cfg: Cfg,
    alphabet: &'static [Ev],
    alphabet_name: &'static str,
    depth: usize,
}

fn plans(quick: bool) -> Vec<Plan> {
    // (the quick tier runs what used to be the thorough plan - about 15 s; thorough goes one event deeper everywhere)
    let x = if quick { 0 } else { 1 };
    let quick = false;
    let mut v = vec![];
    let pols = [Policy::Auto(1), Policy::Auto(2), Policy::Auto(3), Policy::Auto(10), Policy::Manual];
    for p in pols {
        let deep = matches!(p, Policy::Auto(1) | Policy::Auto(2));
        let manual = p == Policy::Manual;
        // Auto(1..3): the core alphabet includes the undecodable delivery; Auto(10) and Manual keep the
        // original cores (their undecodable deliveries are in the full alphabet)
        let (core, core_name): (&'static [Ev], &'static str) = if manual {
            (&CORE_MANUAL, "manual-core")
        } else if matches!(p, Policy::Auto(1) | Policy::Auto(2) | Policy::Auto(3)) {
            (&CORE_BAD, "core+undecodable")
        } else {
            (&CORE, "core")
        };
        // client side, ordinary initial delivery-count
        let cfg = Cfg { side: Side::Client, policy: p, idc: 5 };
        if quick {
            v.push(Plan { cfg, alphabet: &FULL, alphabet_name: "full", depth: if deep { 5 } else { 4 } });
            v.push(Plan { cfg, alphabet: core, alphabet_name: core_name, depth: if deep { 6 } else { 5 } });
        } else {
            // (quick tier: Auto(2) over the full alphabet one event shallower - 372k executions at depth 6 - so that the
            // quick budget is not exhausted on a loaded machine; the thorough tier runs depth 7)
            let full_depth = if deep && !(x == 0 && p == Policy::Auto(2)) { 6 + x } else { 5 + x };
            v.push(Plan { cfg, alphabet: &FULL, alphabet_name: "full", depth: full_depth });
            // (the two largest core searches are one event shallower in the quick tier: they alone took 18 s)
            let core_depth = if manual {
                6 + 2 * x
            } else if p == Policy::Auto(2) {
                7 + 2 * x
            } else if deep {
                8 + x
            } else if x == 0 && p == Policy::Auto(3) {
                // (quick tier: 215k executions at depth 7)
                6
            } else {
                7 + x
            };
            v.push(Plan { cfg, alphabet: core, alphabet_name: core_name, depth: core_depth });
        }
        // listener side
        let cfg = Cfg { side: Side::Listener, policy: p, idc: 5 };
        if quick {
            v.push(Plan { cfg, alphabet: core, alphabet_name: core_name, depth: 4 });
        } else {
            v.push(Plan { cfg, alphabet: &FULL, alphabet_name: "full", depth: 5 + x });
        }
        // the delivery-count wraps around during the history
        let cfg = Cfg { side: Side::Client, policy: p, idc: u32::MAX - 1 };
        if quick {
            v.push(Plan { cfg, alphabet: core, alphabet_name: core_name, depth: 4 });
        } else {
            v.push(Plan { cfg, alphabet: core, alphabet_name: core_name, depth: 6 + x });
        }
    }
    v
}

pub fn run(ctx: &Ctx) -> Outcome {
    let mut out = Outcome::new("model_checking");
    if let Some(p) = &ctx.replay {
        return replay(p, out);
    }
    let deadline = Instant::now() + Duration::from_secs_f64(ctx.budget_s * 0.9);
    let mut states = 0u64;
    let mut transitions = 0u64;
    let mut executions = 0u64;
    let mut events = 0u64;
    let mut pruned = 0u64;
    let mut truncated = false;
    let mut samples: Vec<serde_json::Value> = vec![];
    let mut cnt = Counters::default();
    let mut bounds = vec![];
    let mut mach_seen = 0;

    // ---------------------------------------------------------------- stage 2 first (cheap, fixed size)
    let mut items = vec![];
    for side in [Side::Client, Side::Listener] {
        for n in [1u32, 2, 3, 6, 10] {
            for idc in [5u32, u32::MAX - 3] {
                if side == Side::Listener && idc != 5 {
                    continue;
                }
                for d in DISPS {
                    for s in STYLES {
                        items.push((Cfg { side, policy: Policy::Auto(n), idc }, d, s, (5 * n + 3) as usize));
                    }
                }
                items.push((Cfg { side, policy: Policy::Auto(n), idc }, Disp::NeverPreSettled, SenderStyle::BurstSettled, (5 * n + 3) as usize));
            }
        }
    }
    // (development aid: C09_ONLY_R=1 runs part R alone)
    let only_r = std::env::var_os("C09_ONLY_R").is_some();
    if only_r {
        items.clear();
    }
    let stream_cases = items.len();
    let results = par_map(&items, ctx.threads, |_, (cfg, d, s, total)| run_stream(*cfg, *d, *s, *total));
    let mut stream_keys = std::collections::HashSet::new();
    let mut stream_delivered = 0u64;
    for ((cfg, d, s, total), (o, mach)) in items.iter().zip(results) {
        executions += 1;
        if let Some(m) = mach {
            if mach_seen < 5 {
                out.machinery_errors.push(m);
            }
            mach_seen += 1;
            continue;
        }
        stream_keys.insert(o.key);
        stream_delivered += o.delivered as u64;
        cnt.add(&o.cnt);
        transitions += o.rounds as u64;
        for (sig, detail) in &o.fails {
            out.violation(
                sig.clone(),
                detail.clone(),
                json!({"kind": "stream", "side": format!("{:?}", cfg.side), "policy": cfg.policy.name(), "idc": cfg.idc, "disp": format!("{:?}", d), "style": format!("{:?}", s), "total": total, "trace": o.log}),
            );
        }
        if samples.is_empty() && o.fails.is_empty() && cfg.policy == Policy::Auto(2) && *d == Disp::PairsReversed {
            samples.push(json!({"kind": "stream", "case": format!("{:?} Auto(2) {:?} {:?}", cfg.side, d, s), "trace": o.log}));
        }
    }
    states += stream_keys.len() as u64;

    // ---------------------------------------------------------------- part R: credit across detach + resume
    let t_r = Instant::now();
    let rcases = resumed_cases(ctx.quick());
    let rres = par_map(&rcases, ctx.threads, |_, c| run_resumed(*c));
    let mut r_keys = std::collections::HashSet::new();
    let (mut r_cases, mut r_na, mut r_completed, mut r_delivered, mut r_flows, mut r_lost, mut r_lost_settled, mut r_mode_changed, mut r_set_credits, mut r_zero_first, mut r_streams, mut r_overruns, mut r_overruns_refused) =
        (0u64, 0u64, 0u64, 0u64, 0u64, 0u64, 0u64, 0u64, 0u64, 0u64, 0u64, 0u64, 0u64);
    let mut r_sample: Option<serde_json::Value> = None;
    for (c, (o, mach)) in rcases.iter().zip(rres) {
        executions += 1;
        if let Some(m) = mach {
            if mach_seen < 5 {
                out.machinery_errors.push(m);
            }
            mach_seen += 1;
            continue;
        }
        if o.not_applicable.is_some() {
            r_na += 1;
            continue;
        }
        r_cases += 1;
        if std::env::var_os("C09_R_DUMP").is_some() {
            eprintln!(
                "R {} | completed={} delivered={}/{} mode {} -> {} first-credit={:?} lost={} | {:?}",
                c.name(),
                o.completed,
                o.delivered_after,
                o.total_after,
                o.mode_before,
                o.mode_after,
                o.first_credit_after,
                o.lost_at_detach,
                o.fails.iter().map(|f| f.0.as_str()).collect::<Vec<_>>()
            );
        }
        r_keys.insert(o.key);
        r_completed += o.completed as u64;
        if c.style == RStyle::Overrun {
            r_overruns += 1;
            r_overruns_refused += o.overrun_refused as u64;
        } else {
            r_streams += 1;
        }
        r_delivered += o.delivered_after as u64;
        r_flows += o.flows_after;
        r_lost += o.lost_at_detach as u64;
        r_lost_settled += o.lost_pre_settled as u64;
        r_mode_changed += (o.mode_before != o.mode_after) as u64;
        r_set_credits += o.set_credits_after as u64;
        r_zero_first += (o.first_credit_after == Some(0)) as u64;
        cnt.add(&o.cnt);
        transitions += o.rounds as u64;
        for (sig, detail) in &o.fails {
            let mut rj = c.json();
            rj["trace"] = json!(o.log);
            out.violation(sig.clone(), detail.clone(), rj);
        }
        if r_sample.is_none() && o.fails.is_empty() && o.completed && c.policy == Policy::Auto(2) && c.k == 1 && c.b == 1 {
            r_sample = Some(json!({"kind": "resumed", "case": c.name(), "trace": o.log}));
        }
    }
    states += r_keys.len() as u64;
    if std::env::var_os("C09_TIMES").is_some() {
        eprintln!("C09 part R: {} executions ({} applicable) in {:.1}s", rcases.len(), r_cases, t_r.elapsed().as_secs_f64());
    }
    let r_sample_pending = r_sample;

    // ---------------------------------------------------------------- stage 1: history search
    for pl in plans(ctx.quick()) {
        if only_r {
            break;
        }
        let cfg = pl.cfg;
        let alpha = pl.alphabet;
        let local = std::sync::Mutex::new(Counters::default());
        let t_plan = Instant::now();
        let st = search(alpha.len(), pl.depth, ctx.threads, deadline, |h| {
            let (o, c) = run_history(cfg, h.iter().map(|i| alpha[*i]).collect());
            local.lock().unwrap().add(&c);
            o
        });
        cnt.add(&local.into_inner().unwrap());
        if std::env::var_os("C09_TIMES").is_some() {
            eprintln!("C09 plan {:?}/{}/idc={:#x} {} depth {}: {} executions in {:.1}s", cfg.side, cfg.policy.name(), cfg.idc, pl.alphabet_name, pl.depth, st.executions, t_plan.elapsed().as_secs_f64());
        }
        executions += st.executions;
        events += st.events_executed;
        states += st.distinct_states;
        transitions += st.distinct_transitions;
        pruned += st.pruned_disabled;
        truncated |= st.truncated;
        bounds.push(format!(
            "{:?}/{}/idc={:#x}: {} alphabet ({} events) depth {} = {} executions{}",
            cfg.side,
            cfg.policy.name(),
            cfg.idc,
            pl.alphabet_name,
            alpha.len(),
            pl.depth,
            st.executions,
            if st.truncated { " (CUT by the budget)" } else { "" }
        ));
        for m in st.machinery {
            if mach_seen < 5 {
                out.machinery_errors.push(m);
            }
            mach_seen += 1;
        }
        for (h, sig, detail, trace) in st.violations {
            // events of the history that were really executed (a disabled event ends a history early)
            let executed = trace.iter().filter(|l| l.starts_with("  [")).count().min(h.len());
            let evs: Vec<String> = h[..executed].iter().map(|i| format!("{:?}", alpha[*i])).collect();
            out.violation(
                sig,
                format!("history {:?}: {detail}", evs),
                json!({"kind": "history", "side": format!("{:?}", cfg.side), "policy": cfg.policy.name(), "idc": cfg.idc, "events": evs, "trace": trace}),
            );
        }
        if samples.len() < 3 {
            if let Some(t) = st.sample_traces.into_iter().next() {
                samples.push(json!({"kind": "history", "trace": t}));
            }
        }
    }
    // keep the smallest witness of every class first (finish() keeps the first of each signature)
    out.violations.sort_by_key(|v| {
        let hist = v.replay["events"].as_array().map(|a| a.len()).unwrap_or(1000);
        let tr = v.replay["trace"].as_array().map(|a| a.len()).unwrap_or(0);
        (hist, tr)
    });

    out.set("states", states.max(1));
    out.set("transitions", transitions.max(1));
    out.set("traces_validated_against_impl", executions);
    out.set("executions", executions);
    out.set("events_executed", events);
    out.set("branches_ended_by_a_disabled_event", pruned);
    out.set("stream_cases", stream_cases as u64);
    out.set("stream_deliveries_returned", stream_delivered);
    out.set("resumed_link_cases", r_cases);
    out.set("resumed_link_streams_completed", r_completed);
    out.set(
        "resumed_link",
        json!({
            "combinations_enumerated": rcases.len(),
            "combinations_that_do_not_exist (the sender has no credit for the deliveries that are to wait in the link)": r_na,
            "cases_executed": r_cases,
            "streams_of_a_credit_respecting_sender_after_the_resume": r_streams,
            "streams_completed_after_the_resume": r_completed,
            "cases_with_one_delivery_beyond_the_limit_of_the_new_attachment": r_overruns,
            "of_which_refused": r_overruns_refused,
            "deliveries_returned_by_recv_after_the_resume": r_delivered,
            "receiver_flows_judged_on_the_new_attachment": r_flows,
            "manual_set_credit_calls_on_the_new_attachment": r_set_credits,
            "not_judged: deliveries_waiting_in_the_link_at_detach_that_never_reached_the_application": r_lost,
            "not_judged: of_which_pre_settled": r_lost_settled,
            "not_judged: cases_in_which_Receiver::credit_mode()_differs_after_the_resume": r_mode_changed,
            "cases_whose_first_flow_on_the_new_attachment_grants_zero_credit": r_zero_first,
        }),
    );
    out.set("non_vacuity", cnt.json());
    if let Some(rs) = r_sample_pending {
        samples.truncate(2);
        samples.push(rs);
    }
    out.set("samples", json!(samples));
    out.set("exhaustive", !truncated);
    out.set(
        "bound",
        format!(
            "long streams: Auto(n) n in {{1,2,3,6,10}} x {} disposal disciplines x {} sender styles x initial delivery-count {{5, 2^32-4}} (client) / {{5}} (listener), 5n+3 deliveries each; \
             resumed links (detach + resume): {{Auto(1), Auto(2), Auto(4), Manual with set_credit(3)}} x k in 0..=n received x d in 0..=k disposed of x {{0, 1, 2}} deliveries waiting in the link \
             (unsettled / pre-settled) x new initial-delivery-count {{deliveries sent, continued, 2^32-2}} x {} sender styles (three credit-respecting, one that overruns the new limit by one) x {} disposal disciplines x held deliveries disposed of first / last, \
             3n+3 deliveries after the resume; client and listener{} = {} combinations; \
             histories: {}",
            DISPS.len(),
            STYLES.len(),
            RSTYLES.len(),
            RDISPS.len(),
            if ctx.quick() { " (listener: one discipline, two of the counts)" } else { "" },
            rcases.len(),
            bounds.join("; ")
        ),
    );
    out.set(
        "rule",
        "states = distinct canonical observable states at quiescence (policy, sender-side credit, deliveries waiting in the link, deliveries not yet disposed of, deliveries returned, \
         last receiver flow relative to the initial delivery-count, Receiver::credit(), number of receiver flows, refusal seen); transitions = distinct (state, event, state) triples \
         of the history search plus the rounds of the long streams; every state is reached by executing the real link, session and connection engines",
    );
    out.assume("the scripted sender acts at quiescent points only: a frame it sends has been read by the library before the next event; transfers that wait inside the link until recv() are modelled, frames in flight on the transport are not");
    out.assume("'received since' (clause 1) passes for any count between 'handed to the application by recv()' and 'arrived on the link': sender's delivery-count minus the deliveries still waiting in the link <= reported delivery-count <= sender's delivery-count");
    out.assume("'rejecting an overrun as a transfer-limit violation' (clause 2) passes if recv() returns RecvError::TransferLimitExceeded or a detach names amqp:link:transfer-limit-exceeded; a delivery counts as an overrun only if it is outside the limit of every flow issued between its sending and its recv()");
    out.assume("clause 3 is demanded only of Auto(n), only towards a sender that never exceeded its credit, and only once the application has received everything that arrived and disposed of everything it received");
    out.assume("a delivery that arrives intact but cannot be decoded by recv::<Value>() (RecvError::MessageDecode carrying its DeliveryInfo) is a delivery received and a credit used like any other (clauses 1 and 2); the application has disposed of it (clause 3) once it has rejected or released it through that DeliveryInfo");
    out.assume("a link that was detached and resumed is judged on the new attachment like a fresh link: the delivery-count last learnt from the sender is the initial-delivery-count of its new attach, the credit issued is what the flows on the new attachment say (none before the first one); deliveries that waited inside the link at the detach and the size of the window after the resume are counted, not judged");
    out.assume("the listener's LinkAcceptor has no public credit-mode setting: the accepted receiver (Auto(200)) is brought to the policy under test with set_credit_mode / set_credit before the history starts");
    out
}

fn replay(p: &std::path::Path, mut out: Outcome) -> Outcome {
    let s = std::fs::read_to_string(p).unwrap_or_default();
    let j: serde_json::Value = serde_json::from_str(&s).unwrap_or_default();
    let r = &j["replay"];
    let side = if r["side"] == "Listener" { Side::Listener } else { Side::Client };
    let Some(policy) = r["policy"].as_str().and_then(Policy::parse) else {
        out.machinery_errors.push(format!("replay file {} names no policy", p.display()));
        return out;
    };
    let idc = r["idc"].as_u64().unwrap_or(5) as u32;
    let cfg = Cfg { side, policy, idc };
    let (fails, trace) = if r["kind"] == "resumed" {
        let Some(c) = RCase::from_json(r) else {
            out.machinery_errors.push(format!("replay file {} does not describe a resumed-link case", p.display()));
            return out;
        };
        println!("replaying resumed link {}", c.name());
        let (o, mach) = run_resumed(c);
        if let Some(m) = mach {
            out.machinery_errors.push(m);
        }
        if let Some(na) = &o.not_applicable {
            println!("  the case does not exist: {na}");
        }
        (o.fails, o.log)
    } else if r["kind"] == "stream" {
        let d = DISPS.iter().copied().find(|d| format!("{:?}", d) == r["disp"].as_str().unwrap_or("")).unwrap_or(Disp::Each);
        let st = STYLES.iter().copied().find(|d| format!("{:?}", d) == r["style"].as_str().unwrap_or("")).unwrap_or(SenderStyle::Burst);
        let total = r["total"].as_u64().unwrap_or(8) as usize;
        println!("replaying stream {:?} {:?} {:?} total={total}", cfg, d, st);
        let (o, mach) = run_stream(cfg, d, st, total);
        if let Some(m) = mach {
            out.machinery_errors.push(m);
        }
        (o.fails, o.log)
    } else {
        let evs: Vec<Ev> = r["events"]
            .as_array()
            .map(|a| a.iter().filter_map(|x| x.as_str()).filter_map(|n| FULL.iter().copied().find(|e| format!("{:?}", e) == n)).collect())
            .unwrap_or_default();
        println!("replaying history {:?} {:?}", cfg, evs);
        let (o, _) = run_history(cfg, evs);
        if let Some(m) = o.machinery {
            out.machinery_errors.push(m);
        }
        (o.fails, o.trace)
    };
    for l in &trace {
        println!("  {l}");
    }
    for (s, d) in fails {
        println!("  FAIL {s}: {d}");
        out.violation(s, d, r.clone());
    }
    out.set("states", 1);
    out.set("transitions", 1);
    out.set("traces_validated_against_impl", 1);
    out.set("samples", json!([r]));
    out
}
