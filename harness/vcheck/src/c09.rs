//! C09 - not built yet
use vlib::report::{Ctx, Outcome};

pub fn run(_ctx: &Ctx) -> Outcome {
    let mut out = Outcome::new("model_checking");
    out.machinery_errors.push("check C09 is not built yet".into());
    out
}
