//! C08 - sender link credit: never exceed granted credit; one credit per delivery; drain; blocked
//! sends always wake.
//!
//! History search: real `Sender` (client side) against a scripted receiver that produces every history
//! of link flows interleaved with send attempts.  Schedule exploration (with the in-poll preempt point
//! between the failed credit check and the start of the wait): a grant racing with a blocked send.
use crate::scen::{self, SendCmd};
use fe2o3_amqp::link::Sender;
use fe2o3_amqp::Session;
use fe2o3_amqp_types::definitions::{Handle, SenderSettleMode};
use fe2o3_amqp_types::performatives::*;
use serde_json::json;
use std::sync::Arc;
use std::time::{Duration, Instant};
use vlib::explore::{explore, Bounds};
use vlib::history::{search, HistOut};
use vlib::peer::{drive, settle, trace_to_strings, Auto, Body, Dirn, WFrame};
use vlib::report::{Ctx, Outcome};
use vlib::runner::{run_exec, RunCfg, Scenario};
use vlib::tape::Kind;
use vlib::util::h64;

#[derive(Debug, Clone, Copy, PartialEq, Eq, Hash)]
pub enum Ev {
    /// application queues a 1-frame message
    A1,
    /// application queues a message the transport splits into 3 frames
    A3,
    /// receiver flows: link-credit = n, delivery-count = what it has seen
    F0,
    F1,
    F2,
    /// link-credit 1, delivery-count unset
    F1Unset,
    /// link-credit 2 with a stale delivery-count (one behind what the receiver has by now)
    F2Stale,
    /// link-credit 0 with a stale delivery-count: the receiver revoked credit before it saw the last delivery
    F0Stale,
    /// link-credit 1 with a stale delivery-count (one behind): a flow that repeats the credit the sender has left
    /// after a grant of 2 and one delivery, yet leaves it none
    F1Stale,
    /// drain with link-credit 2
    D2,
    /// echo with link-credit 1
    E1,
}
pub const ALPHABET: [Ev; 11] = [Ev::A1, Ev::F1, Ev::F2, Ev::A3, Ev::F0, Ev::D2, Ev::F2Stale, Ev::F0Stale, Ev::F1Stale, Ev::F1Unset, Ev::E1];

#[derive(Debug, Clone, Default)]
pub struct Obs {
    pub executed: usize,
    pub fails: Vec<(String, String)>,
    pub state_keys: Vec<u64>,
    pub trace: Vec<String>,
    pub machinery: Option<String>,
    pub multi_frame_deliveries: usize,
    pub blocked_then_woken: usize,
}

/// serial-number difference a - b as a signed quantity
fn sdiff(a: u32, b: u32) -> i64 {
    (a.wrapping_sub(b) as i32) as i64
}

/// deliveries the library has started so far on (channel 0, its handle): number of transfer frames that begin a delivery
fn deliveries_started(trace: &[WFrame], lib_handle: u32) -> (usize, usize) {
    let mut n = 0;
    let mut multi = 0;
    let mut in_progress = false;
    for w in trace {
        if w.dir != Dirn::FromLib {
            continue;
        }
        if let Body::Perf(Performative::Transfer(t)) = &w.body {
            if t.handle.0 != lib_handle {
                continue;
            }
            if !in_progress {
                n += 1;
                if t.more {
                    multi += 1;
                }
            }
            in_progress = t.more;
        }
    }
    (n, multi)
}

/// the sender's delivery-count as visible on the wire: initial value, +1 per delivery started, and whatever
/// the sender itself reports in a flow (a drain advances it).  Returns (count before each delivery, final count).
fn sender_counts(trace: &[WFrame], lib_handle: u32, idc: u32) -> (Vec<u32>, u32) {
    let mut dc = idc;
    let mut before = vec![];
    let mut in_progress = false;
    for w in trace {
        if w.dir != Dirn::FromLib {
            continue;
        }
        match &w.body {
            Body::Perf(Performative::Transfer(t)) if t.handle.0 == lib_handle => {
                if !in_progress {
                    before.push(dc);
                    dc = dc.wrapping_add(1);
                }
                in_progress = t.more;
            }
            Body::Perf(Performative::Flow(f)) if f.handle.as_ref().map(|h| h.0) == Some(lib_handle) => {
                if let Some(x) = f.delivery_count {
                    dc = x;
                }
            }
            _ => {}
        }
    }
    (before, dc)
}

pub async fn scenario(idc: u32, events: Vec<Ev>) -> Obs {
    let mut obs = Obs::default();
    let mut auto = Auto::default();
    auto.max_frame_size = 512;
    auto.accept_transfers = true;
    auto.incoming_window = 100_000;
    let mut c = match scen::open_client(auto, 512).await {
        Ok(c) => c,
        Err(e) => {
            obs.machinery = Some(e);
            return obs;
        }
    };
    let mut session = match scen::begin(&mut c, Session::builder()).await {
        Ok(s) => s,
        Err(e) => {
            obs.machinery = Some(e);
            return obs;
        }
    };
    let sender = drive(
        &mut c.peer,
        Sender::builder()
            .name("s1")
            .target("q")
            .sender_settle_mode(SenderSettleMode::Unsettled)
            .initial_delivery_count(idc)
            .attach(&mut session),
        scen::H,
    )
    .await;
    let sender = match sender {
        Some(Ok(s)) => s,
        other => {
            obs.machinery = Some(format!("attach failed: {:?}", other.map(|r| r.map(|_| ()).map_err(|e| e.to_string()))));
            return obs;
        }
    };
    let lib_handle = c.peer.links.last().map(|l| l.lib_handle).unwrap_or(0);
    let our_handle = c.peer.links.last().map(|l| l.our_handle).unwrap_or(0);
    let (tx, log, _task) = scen::spawn_sender_task(sender);
    settle(&mut c.peer, 1).await;
    // receiver-side truth
    let mut limit: Option<u32> = None; // delivery-count + link-credit of the last flow sent
    let mut queued = 0usize; // send commands issued
    let mut was_blocked = false;
    obs.state_keys.push(h64(&(0, 0, 0)));
    for (i, ev) in events.iter().enumerate() {
        let rcv_dc = c.peer.links.iter().find(|l| l.lib_handle == lib_handle).map(|l| l.delivery_count).unwrap_or(idc);
        let (started_before, _) = deliveries_started(&c.peer.trace, lib_handle);
        let enabled = match ev {
            Ev::F2Stale | Ev::F0Stale | Ev::F1Stale => started_before > 0,
            // a receiver leaves delivery-count unset only while it does not know it yet
            Ev::F1Unset => started_before == 0 && sender_counts(&c.peer.trace, lib_handle, idc).1 == idc,
            _ => true,
        };
        if !enabled {
            break;
        }
        let mark = c.peer.trace.len();
        let mut flow_sent: Option<(Option<u32>, u32, bool)> = None;
        match ev {
            Ev::A1 => {
                let _ = tx.send(SendCmd::Send { body_len: 20 });
                queued += 1;
            }
            Ev::A3 => {
                let _ = tx.send(SendCmd::Send { body_len: 1100 });
                queued += 1;
            }
            _ => {
                let (dc, credit, drain, echo) = match ev {
                    Ev::F0 => (Some(rcv_dc), 0, false, false),
                    Ev::F1 => (Some(rcv_dc), 1, false, false),
                    Ev::F2 => (Some(rcv_dc), 2, false, false),
                    Ev::F1Unset => (None, 1, false, false),
                    Ev::F2Stale => (Some(rcv_dc.wrapping_sub(1)), 2, false, false),
                    Ev::F0Stale => (Some(rcv_dc.wrapping_sub(1)), 0, false, false),
                    Ev::F1Stale => (Some(rcv_dc.wrapping_sub(1)), 1, false, false),
                    Ev::D2 => (Some(rcv_dc), 2, true, false),
                    _ => (Some(rcv_dc), 1, false, true),
                };
                let mut f = c.peer.flow_for(0);
                f.handle = Some(Handle(our_handle));
                f.delivery_count = dc;
                f.link_credit = Some(credit);
                f.drain = drain;
                f.echo = echo;
                c.peer.send(0, Performative::Flow(f));
                // "delivery-count unset": the sender must assume its own initial delivery-count
                limit = Some(dc.unwrap_or(idc).wrapping_add(credit));
                flow_sent = Some((dc, credit, drain));
            }
        }
        settle(&mut c.peer, 3).await;
        obs.executed = i + 1;
        // ---------------- judge this step
        let (started_after, multi) = deliveries_started(&c.peer.trace, lib_handle);
        obs.multi_frame_deliveries = multi;
        // (1) every delivery started in this step must be within the limit of the last flow
        let (counts_before, snd_dc) = sender_counts(&c.peer.trace, lib_handle, idc);
        for k in started_before..started_after {
            let count_before = counts_before.get(k).copied().unwrap_or(idc.wrapping_add(k as u32));
            match limit {
                None => obs.fails.push((
                    "delivery-without-credit".into(),
                    format!("delivery #{k} was transmitted although the receiver never granted any credit"),
                )),
                Some(l) => {
                    if sdiff(l, count_before) <= 0 {
                        obs.fails.push((
                            format!("credit-exceeded after {:?}", if flow_sent.is_some() { *ev } else { last_flow(&events[..=i]) }),
                            format!(
                                "delivery #{k} (delivery-count_snd {count_before}) was transmitted beyond the receiver's limit delivery-count+link-credit = {l} (initial delivery-count {idc})"
                            ),
                        ));
                    }
                }
            }
        }
        // (2) drain: all credit used up or given back, and the receiver is told so with a zero-credit flow
        if let Some((_, _, true)) = flow_sent {
            let l = limit.unwrap();
            let reply = c.peer.trace[mark..].iter().rev().find_map(|w| match (&w.body, w.dir) {
                (Body::Perf(Performative::Flow(f)), Dirn::FromLib) if f.handle.as_ref().map(|h| h.0) == Some(lib_handle) => Some(f.clone()),
                _ => None,
            });
            match reply {
                None => obs.fails.push(("drain-unanswered".into(), "a drain request was not answered with a flow".into())),
                Some(f) => {
                    if f.link_credit != Some(0) {
                        obs.fails.push(("drain-credit-not-zero".into(), format!("the flow answering a drain shows link-credit {:?}", f.link_credit)));
                    }
                    if f.delivery_count != Some(l) {
                        obs.fails.push((
                            "drain-delivery-count".into(),
                            format!("the flow answering a drain shows delivery-count {:?}; all credit used or given back means {l}", f.delivery_count),
                        ));
                    }
                }
            }
        }
        // (2b) only a drain request lets the sender advance its delivery-count without sending: in any other
        // step a flow from the sender must report exactly initial + deliveries (+ earlier drains)
        if !matches!(flow_sent, Some((_, _, true))) {
            let (_, dc_at_mark) = sender_counts(&c.peer.trace[..mark], lib_handle, idc);
            let mut running = dc_at_mark;
            let mut in_progress = false;
            for w in &c.peer.trace[mark..] {
                if w.dir != Dirn::FromLib {
                    continue;
                }
                match &w.body {
                    Body::Perf(Performative::Transfer(t)) if t.handle.0 == lib_handle => {
                        if !in_progress {
                            running = running.wrapping_add(1);
                        }
                        in_progress = t.more;
                    }
                    Body::Perf(Performative::Flow(f)) if f.handle.as_ref().map(|h| h.0) == Some(lib_handle) => {
                        if let Some(x) = f.delivery_count {
                            if x != running {
                                obs.fails.push((
                                    "credit-given-back-without-drain".into(),
                                    format!("after {:?} (no drain requested) the sender reports delivery-count {x} although it has only reached {running} by sending", ev),
                                ));
                                running = x;
                            }
                        }
                        if f.drain && flow_sent.is_some() {
                            obs.fails.push((
                                "drain-flag-not-cleared".into(),
                                format!("after {:?} (drain=false) the sender's flow still carries drain=true", ev),
                            ));
                        }
                    }
                    _ => {}
                }
            }
        }
        // (3) a send waiting for credit completes once credit is there (default schedule, quiescent state)
        let pending = queued.saturating_sub(started_after);
        if let Some(l) = limit {
            let count = snd_dc;
            let drained = matches!(flow_sent, Some((_, _, true)));
            if pending > 0 && sdiff(l, count) > 0 && !drained && !last_was_drain(&events[..=i]) {
                obs.fails.push((
                    "blocked-send-not-woken".into(),
                    format!("{pending} message(s) are waiting although the receiver's limit {l} leaves {} credit (delivery-count_snd {count})", sdiff(l, count)),
                ));
            }
            if pending > 0 {
                was_blocked = true;
            } else if was_blocked {
                obs.blocked_then_woken += 1;
                was_blocked = false;
            }
        } else if pending > 0 {
            was_blocked = true;
        }
        obs.state_keys.push(h64(&(
            started_after,
            limit.map(|l| sdiff(l, idc)),
            pending,
            log.lock().unwrap().done.len(),
        )));
    }
    let _ = tx.send(SendCmd::Stop);
    obs.fails.sort();
    obs.fails.dedup();
    obs.trace = trace_to_strings(&c.peer.trace);
    obs
}


// ------------------------------------------------------------------------------------------------
// link flows while deliveries are parked in the session (the peer's SESSION window is closed)
// ------------------------------------------------------------------------------------------------
/// The peer's session incoming-window is 1: the first delivery goes out, the next `k` are held back by the
/// session.  The receiver asks for the link state (`echo`) at that moment, reopens the session window later,
/// and then grants ONE more credit - from the delivery-count it last learnt from the sender (the echoed flow)
/// advanced by the deliveries received since, as a receiver does.  The sender may then start one delivery.
pub async fn parked_scenario(k: usize) -> (Vec<(String, String)>, Vec<String>, Option<String>) {
    let mut fails = vec![];
    let mut auto = Auto::default();
    auto.max_frame_size = 512;
    auto.accept_transfers = true;
    auto.incoming_window = 1;
    let mut c = match scen::open_client(auto, 512).await {
        Ok(c) => c,
        Err(e) => return (fails, vec![], Some(e)),
    };
    let mut session = match scen::begin(&mut c, Session::builder()).await {
        Ok(s) => s,
        Err(e) => return (fails, vec![], Some(e)),
    };
    let sender = match drive(&mut c.peer, Sender::builder().name("s1").target("q").sender_settle_mode(SenderSettleMode::Settled).attach(&mut session), scen::H).await {
        Some(Ok(s)) => s,
        _ => return (fails, vec![], Some("attach failed".into())),
    };
    let lib_handle = c.peer.links.last().map(|l| l.lib_handle).unwrap_or(0);
    let our_handle = c.peer.links.last().map(|l| l.our_handle).unwrap_or(0);
    let (tx, _log, _task) = scen::spawn_sender_task(sender);
    settle(&mut c.peer, 1).await;
    let credit0 = (k + 1) as u32;
    c.peer.grant(0, lib_handle, credit0);
    settle(&mut c.peer, 1).await;
    for _ in 0..=k {
        let _ = tx.send(SendCmd::Send { body_len: 20 });
    }
    settle(&mut c.peer, 2).await;
    let (started, _) = deliveries_started(&c.peer.trace, lib_handle);
    if started != 1 {
        return (fails, trace_to_strings(&c.peer.trace), Some(format!("parked scenario: {started} deliveries on the wire with a session window of 1 (expected 1)")));
    }
    // the receiver asks for the link state
    let mark = c.peer.trace.len();
    let mut f = c.peer.flow_for(0);
    f.handle = Some(Handle(our_handle));
    f.delivery_count = Some(1);
    f.link_credit = Some(credit0 - 1);
    f.echo = true;
    f.incoming_window = 0;
    c.peer.send(0, Performative::Flow(f));
    settle(&mut c.peer, 2).await;
    let reported = c.peer.trace[mark..].iter().find_map(|w| match (&w.body, w.dir) {
        (Body::Perf(Performative::Flow(f)), Dirn::FromLib) if f.handle.as_ref().map(|h| h.0) == Some(lib_handle) => f.delivery_count,
        _ => None,
    });
    let Some(reported) = reported else {
        return (fails, trace_to_strings(&c.peer.trace), Some("parked scenario: the echo request was not answered".into()));
    };
    // the receiver's count: what the sender said, advanced by what arrives afterwards
    let mut rcv_dc = reported;
    // reopen the session window: the parked deliveries arrive
    let mut f = c.peer.flow_for(0);
    f.incoming_window = 1000;
    c.peer.send(0, Performative::Flow(f));
    settle(&mut c.peer, 3).await;
    let (started2, _) = deliveries_started(&c.peer.trace, lib_handle);
    rcv_dc = rcv_dc.wrapping_add((started2 - started) as u32);
    if started2 != k + 1 {
        return (fails, trace_to_strings(&c.peer.trace), Some(format!("parked scenario: {started2} deliveries after the window reopened (expected {})", k + 1)));
    }
    // one more credit, counted from the receiver's delivery-count
    let mut f = c.peer.flow_for(0);
    f.handle = Some(Handle(our_handle));
    f.delivery_count = Some(rcv_dc);
    f.link_credit = Some(1);
    c.peer.send(0, Performative::Flow(f));
    settle(&mut c.peer, 1).await;
    for _ in 0..3 {
        let _ = tx.send(SendCmd::Send { body_len: 20 });
    }
    settle(&mut c.peer, 3).await;
    let (started3, _) = deliveries_started(&c.peer.trace, lib_handle);
    let after_grant = started3 - started2;
    if after_grant > 1 {
        fails.push((
            "exceeds-credit (link flow sent while deliveries were parked in the session)".to_string(),
            format!(
                "{k} deliveries were held back by the session when the receiver asked for the link state; the sender's flow reported delivery-count {reported} although only 1 delivery had been written before it; the receiver (count {rcv_dc} = {reported} + {k} received since) then granted 1 credit and the sender started {after_grant} deliveries"
            ),
        ));
    }
    if after_grant == 0 {
        fails.push(("blocked-send-not-woken (parked)".to_string(), format!("after the grant of 1 credit (receiver count {rcv_dc}) no delivery was started although 3 sends are waiting")));
    }
    let _ = tx.send(SendCmd::Stop);
    (fails, trace_to_strings(&c.peer.trace), None)
}

/// A link that has been detached (without closing) and resumed `cycles` times: the statement's "a send that is
/// waiting for credit completes as soon as sufficient credit has been granted" holds for it like for a fresh
/// link.  One delivery before the detach uses up the first credit; after the resume a send waits (`early`) or
/// is issued only after the grant; the receiver - which kept its link state across the detach - grants one
/// credit from the delivery-count it knows (1).
pub async fn resumed_scenario(cycles: usize, early: bool) -> (Vec<(String, String)>, Vec<String>, Option<String>) {
    let mut fails = vec![];
    let mut auto = Auto::default();
    auto.max_frame_size = 512;
    auto.accept_transfers = true;
    auto.incoming_window = 100_000;
    let mut c = match scen::open_client(auto, 512).await {
        Ok(c) => c,
        Err(e) => return (fails, vec![], Some(e)),
    };
    let mut session = match scen::begin(&mut c, Session::builder()).await {
        Ok(s) => s,
        Err(e) => return (fails, vec![], Some(e)),
    };
    let mut sender = match drive(&mut c.peer, Sender::builder().name("s1").target("q").sender_settle_mode(SenderSettleMode::Settled).attach(&mut session), scen::H).await {
        Some(Ok(s)) => s,
        _ => return (fails, vec![], Some("attach failed".into())),
    };
    let lib_handle = c.peer.links.last().map(|l| l.lib_handle).unwrap_or(0);
    c.peer.grant(0, lib_handle, 1);
    settle(&mut c.peer, 1).await;
    match drive(&mut c.peer, sender.send("first"), scen::H).await {
        Some(Ok(_)) => {}
        other => return (fails, trace_to_strings(&c.peer.trace), Some(format!("resumed scenario: the first send did not complete: {:?}", other.map(|r| r.map(|_| ()).map_err(|e| e.to_string()))))),
    }
    for _ in 0..cycles {
        let det = match drive(&mut c.peer, sender.detach(), scen::H).await {
            Some(Ok(d)) => d,
            other => return (fails, trace_to_strings(&c.peer.trace), Some(format!("resumed scenario: detach failed: {:?}", other.map(|r| r.map(|_| ()).map_err(|(_, e)| e.to_string()))))),
        };
        sender = match drive(&mut c.peer, det.resume(), scen::H).await {
            Some(Ok(s)) => s,
            other => return (fails, trace_to_strings(&c.peer.trace), Some(format!("resumed scenario: resume failed: {:?}", other.map(|r| r.map(|_| ()).map_err(|e| format!("{e:?}")))))),
        };
    }
    let (lib_handle2, our_handle2) = c.peer.links.iter().rev().find(|l| !l.detached).map(|l| (l.lib_handle, l.our_handle)).unwrap_or((lib_handle, 0));
    let (started0, _) = deliveries_started(&c.peer.trace, lib_handle2);
    let grant = |c: &mut scen::Client| {
        let mut f = c.peer.flow_for(0);
        f.handle = Some(Handle(our_handle2));
        f.delivery_count = Some(1);
        f.link_credit = Some(1);
        c.peer.send(0, Performative::Flow(f));
    };
    if !early {
        grant(&mut c);
        settle(&mut c.peer, 2).await;
    }
    let task = tokio::spawn(async move {
        let r = sender.send("second").await.map(|_| ()).map_err(|e| e.to_string());
        (sender, r)
    });
    settle(&mut c.peer, 2).await;
    if early {
        let (started, _) = deliveries_started(&c.peer.trace, lib_handle2);
        if started != started0 {
            // sending without credit on the new attachment is judged by the history search's oracle, not here
            return (fails, trace_to_strings(&c.peer.trace), None);
        }
        grant(&mut c);
    }
    settle(&mut c.peer, 4).await;
    let (started, _) = deliveries_started(&c.peer.trace, lib_handle2);
    if started == started0 || !task.is_finished() {
        fails.push((
            "blocked-send-not-woken (resumed link)".to_string(),
            format!(
                "the link was detached and resumed {cycles} time(s); a send {} the receiver granted 1 credit (delivery-count 1, link-credit 1; the sender had used its only credit before the detach): {} deliveries started after the grant, send() {}",
                if early { "was waiting when" } else { "was issued after" },
                started - started0,
                if task.is_finished() { "returned" } else { "is still pending" }
            ),
        ));
    }
    task.abort();
    (fails, trace_to_strings(&c.peer.trace), None)
}

/// Credit accounting across a detach + resume.  Before the detach the receiver grants `g` credits and the
/// sender uses `k <= g` of them.  The link is detached (not closed) and resumed.  The receiver is a fresh
/// link endpoint that knows only what the new attach says: it takes the sender's delivery-count from the
/// attach's initial-delivery-count and has issued no credit on this attachment yet (AMQP 2.6.7: link-credit
/// is initialised to zero when a link endpoint is created).  Judged in the statement's words:
///  (a) a send issued before any flow on the new attachment transmits nothing ("never transmits more
///      deliveries than the receiver's latest flow allows" - there is none, the allowance is zero);
///  (b) after a flow granting `n` credits counted from the attach's initial-delivery-count exactly the
///      waiting sends that fit are transmitted and complete ("a send that is waiting for credit completes as
///      soon as sufficient credit has been granted") and no more than `n`.
pub async fn resumed_accounting_scenario(g: u32, k: u32, n: u32) -> (Vec<(String, String)>, Vec<String>, Option<String>) {
    let mut fails = vec![];
    let mut auto = Auto::default();
    auto.max_frame_size = 512;
    auto.accept_transfers = true;
    auto.incoming_window = 100_000;
    let mut c = match scen::open_client(auto, 512).await {
        Ok(c) => c,
        Err(e) => return (fails, vec![], Some(e)),
    };
    let mut session = match scen::begin(&mut c, Session::builder()).await {
        Ok(s) => s,
        Err(e) => return (fails, vec![], Some(e)),
    };
    let mut sender = match drive(&mut c.peer, Sender::builder().name("s1").target("q").sender_settle_mode(SenderSettleMode::Settled).attach(&mut session), scen::H).await {
        Some(Ok(s)) => s,
        _ => return (fails, vec![], Some("attach failed".into())),
    };
    let lib_handle = c.peer.links.last().map(|l| l.lib_handle).unwrap_or(0);
    c.peer.grant(0, lib_handle, g);
    settle(&mut c.peer, 1).await;
    for i in 0..k {
        match drive(&mut c.peer, sender.send(format!("before-{i}")), scen::H).await {
            Some(Ok(_)) => {}
            _ => return (fails, trace_to_strings(&c.peer.trace), Some("resumed accounting: a send within credit did not complete".into())),
        }
    }
    let det = match drive(&mut c.peer, sender.detach(), scen::H).await {
        Some(Ok(d)) => d,
        _ => return (fails, trace_to_strings(&c.peer.trace), Some("resumed accounting: detach failed".into())),
    };
    let attach_from = c.peer.trace.len();
    let sender = match drive(&mut c.peer, det.resume(), scen::H).await {
        Some(Ok(s)) => s,
        _ => return (fails, trace_to_strings(&c.peer.trace), Some("resumed accounting: resume failed".into())),
    };
    // what the new attach tells a receiver about the sender's delivery-count
    let idc = c.peer.trace[attach_from..].iter().rev().find_map(|w| match (&w.dir, w.perf()) {
        (Dirn::FromLib, Some(Performative::Attach(a))) => Some(a.initial_delivery_count.unwrap_or(0)),
        _ => None,
    });
    let idc = match idc {
        Some(x) => x,
        None => return (fails, trace_to_strings(&c.peer.trace), Some("resumed accounting: no attach seen on resume".into())),
    };
    let (lib_handle2, our_handle2) = c.peer.links.iter().rev().find(|l| !l.detached).map(|l| (l.lib_handle, l.our_handle)).unwrap_or((lib_handle, 0));
    // transfers on the new attachment only (the handle number may be the same as before)
    let started_since = |c: &scen::Client| deliveries_started(&c.peer.trace[attach_from..], lib_handle2).0;
    let (tx, log, _task) = scen::spawn_sender_task(sender);
    let waiting = n + 1;
    for _ in 0..waiting {
        let _ = tx.send(SendCmd::Send { body_len: 20 });
    }
    settle(&mut c.peer, 3).await;
    let before_flow = started_since(&c);
    if before_flow > 0 {
        fails.push((
            "transfer-without-credit (resumed link)".to_string(),
            format!("before the detach the receiver had granted {g} credit(s) of which {k} were used; after detach + resume, with no flow on the new attachment, the sender transmitted {before_flow} delivery(ies)"),
        ));
    }
    let mut f = c.peer.flow_for(0);
    f.handle = Some(Handle(our_handle2));
    f.delivery_count = Some(idc.wrapping_add(before_flow as u32));
    f.link_credit = Some(n);
    c.peer.send(0, Performative::Flow(f));
    settle(&mut c.peer, 4).await;
    let after = started_since(&c) - before_flow;
    let done = log.lock().unwrap().done.len();
    if after > n as usize {
        fails.push((
            "credit-exceeded (resumed link)".to_string(),
            format!("resumed link (g={g}, k={k}): the new attach announced initial-delivery-count {idc}; the receiver granted {n} credit(s) from there and the sender started {after} deliveries"),
        ));
    }
    if before_flow == 0 && (after < n as usize || done < n as usize) {
        fails.push((
            "blocked-send-not-woken (resumed link accounting)".to_string(),
            format!("resumed link (g={g}, k={k}): the new attach announced initial-delivery-count {idc}; {waiting} sends were waiting when the receiver granted {n} credit(s) counted from that value: {after} deliveries started, {done} sends completed"),
        ));
    }
    let _ = tx.send(SendCmd::Stop);
    (fails, trace_to_strings(&c.peer.trace), None)
}

fn run_resumed_accounting(out: &mut Outcome) -> u64 {
    let mut cnt = 0;
    for g in 1..=3u32 {
        for k in 0..=g {
            for n in 1..=2u32 {
                let scen: Scenario<(Vec<(String, String)>, Vec<String>, Option<String>)> = Arc::new(move || Box::pin(resumed_accounting_scenario(g, k, n)));
                let ex = run_exec(vec![], &RunCfg::none(), &scen);
                cnt += 1;
                match ex.out {
                    Some((fails, trace, mach)) => {
                        if let Some(m) = mach {
                            out.machinery_errors.push(m);
                        }
                        for (s, d) in fails {
                            out.violation(s, d, json!({"kind": "resumed-accounting", "g": g, "k": k, "n": n, "trace": trace}));
                        }
                    }
                    None => out.machinery_errors.push(format!("resumed accounting g={g} k={k} n={n} died: {:?}", ex.panics)),
                }
            }
        }
    }
    cnt
}

/// The sender link of a transaction CONTROLLER (the control link is an ordinary sending link as far as C08 goes; its
/// rollback-on-drop takes the synchronous `try_consume` path).  The scripted coordinator grants credit one at a time
/// and only when told to.  `drops` transactions are declared and dropped undischarged: with `credit_at_drop` the
/// coordinator has re-granted before each drop (the rollback goes out), without it the link has no credit when the
/// handle is dropped (the rollback is refused and nothing is sent).  Then one credit is granted, counted from the
/// deliveries the coordinator has really seen, and a further declare is issued: it must be transmitted and complete
/// ("a send that is waiting for credit completes as soon as sufficient credit has been granted"), and the link never
/// transmits more deliveries than the latest flow allows.
pub async fn controller_scenario(drops: usize, credit_at_drop: bool) -> (Vec<(String, String)>, Vec<String>, Option<String>) {
    use fe2o3_amqp::transaction::{Controller, Transaction, TransactionBase};
    use fe2o3_amqp_types::definitions::Role;
    use fe2o3_amqp_types::messaging::{Accepted, DeliveryState};
    use fe2o3_amqp_types::transaction::Declared;
    let mut fails = vec![];
    let mut auto = Auto::default();
    auto.max_frame_size = 512;
    auto.incoming_window = 100_000;
    let mut c = match scen::open_client(auto, 512).await {
        Ok(c) => c,
        Err(e) => return (fails, vec![], Some(e)),
    };
    let mut session = match scen::begin(&mut c, Session::builder()).await {
        Ok(s) => s,
        Err(e) => return (fails, vec![], Some(e)),
    };
    let ctrl: &'static Controller = match drive(&mut c.peer, Controller::attach(&mut session, "ctl"), scen::H).await {
        Some(Ok(x)) => Box::leak(Box::new(x)),
        _ => return (fails, trace_to_strings(&c.peer.trace), Some("controller scenario: attach failed".into())),
    };
    let lib_handle = c.peer.links.last().map(|l| l.lib_handle).unwrap_or(0);
    // the coordinator: answers every complete control message it has not answered yet (declare -> declared, discharge ->
    // accepted); returns the number of control messages seen so far
    let mut answered = 0usize;
    let mut react = |peer: &mut vlib::peer::Peer| -> usize {
        let msgs: Vec<u32> = peer
            .trace
            .iter()
            .filter_map(|w| match (w.dir, w.perf()) {
                (Dirn::FromLib, Some(Performative::Transfer(t))) if t.handle.0 == lib_handle && !t.more => t.delivery_id,
                _ => None,
            })
            .collect();
        while answered < msgs.len() {
            let did = msgs[answered];
            // the first message of each pair is a declare unless a rollback went out: tell by the payload (a declare body is the
            // described list 0x31, a discharge 0x32)
            let is_declare = peer.trace.iter().any(|w| w.dir == Dirn::FromLib && matches!(w.perf(), Some(Performative::Transfer(t)) if t.delivery_id == Some(did)) && w.payload.windows(3).any(|x| x == [0x00, 0x53, 0x31]));
            let state = if is_declare { DeliveryState::Declared(Declared { txn_id: serde_bytes::ByteBuf::from(vec![0xab, answered as u8]) }) } else { DeliveryState::Accepted(Accepted {}) };
            peer.send(0, Performative::Disposition(Disposition { role: Role::Receiver, first: did, last: None, settled: true, state: Some(state), batchable: false }));
            answered += 1;
        }
        msgs.len()
    };
    let what = format!("{drops} transaction(s) declared and dropped undischarged, the control link {} credit at the drop", if credit_at_drop { "has" } else { "has no" });
    for k in 0..drops {
        c.peer.grant(0, lib_handle, 1);
        settle(&mut c.peer, 1).await;
        let fut = Transaction::declare(ctrl, None);
        tokio::pin!(fut);
        let mut txn = None;
        for _ in 0..20 {
            tokio::select! { biased;
                r = &mut fut => { txn = Some(r); break; }
                _ = tokio::time::sleep(Duration::from_millis(1)) => { c.peer.pump(); react(&mut c.peer); }
            }
        }
        let txn = match txn {
            Some(Ok(t)) => t,
            Some(Err(e)) => return (fails, trace_to_strings(&c.peer.trace), Some(format!("controller scenario: declare #{k} failed: {e:?}"))),
            None => return (fails, trace_to_strings(&c.peer.trace), Some(format!("controller scenario: declare #{k} hangs with credit granted (set-up)"))),
        };
        if credit_at_drop {
            c.peer.grant(0, lib_handle, 1);
            settle(&mut c.peer, 1).await;
        }
        drop(txn);
        settle(&mut c.peer, 2).await;
        react(&mut c.peer);
        settle(&mut c.peer, 1).await;
    }
    // one credit, counted from what the coordinator has really seen on the link
    let seen = react(&mut c.peer);
    let (started0, _) = deliveries_started(&c.peer.trace, lib_handle);
    if started0 != seen {
        return (fails, trace_to_strings(&c.peer.trace), Some(format!("controller scenario: {started0} deliveries started, {seen} complete")));
    }
    c.peer.grant(0, lib_handle, 1);
    settle(&mut c.peer, 2).await;
    let fut = Transaction::declare(ctrl, None);
    tokio::pin!(fut);
    let mut done = None;
    for _ in 0..50 {
        tokio::select! { biased;
            r = &mut fut => { done = Some(r.map(|_| ()).map_err(|e| format!("{e:?}"))); break; }
            _ = tokio::time::sleep(Duration::from_millis(1)) => { c.peer.pump(); react(&mut c.peer); }
        }
    }
    let (started1, _) = deliveries_started(&c.peer.trace, lib_handle);
    match done {
        Some(Ok(())) => {}
        Some(Err(e)) => fails.push(("controller: declare-failed-with-credit".to_string(), format!("{what}; then the coordinator granted 1 credit (delivery-count {seen}): declare returned {e}"))),
        None => fails.push((
            "blocked-send-not-woken (control link)".to_string(),
            format!("{what}; then the coordinator granted 1 credit counted from the {seen} deliveries it has seen: {} delivery(ies) started after the grant, declare() is still pending", started1 - started0),
        )),
    }
    if started1 - started0 > 1 {
        fails.push(("credit-exceeded (control link)".to_string(), format!("{what}; after a grant of 1 credit the link started {} deliveries", started1 - started0)));
    }
    (fails, trace_to_strings(&c.peer.trace), None)
}

fn run_controller(out: &mut Outcome) -> u64 {
    let mut n = 0;
    for drops in 1..=3usize {
        for credit_at_drop in [false, true] {
            let scen: Scenario<(Vec<(String, String)>, Vec<String>, Option<String>)> = Arc::new(move || Box::pin(controller_scenario(drops, credit_at_drop)));
            let ex = run_exec(vec![], &RunCfg::none(), &scen);
            n += 1;
            match ex.out {
                Some((fails, trace, mach)) => {
                    if let Some(m) = mach {
                        out.machinery_errors.push(m);
                    }
                    for (s, d) in fails {
                        out.violation(s, d, json!({"kind": "controller", "drops": drops, "credit_at_drop": credit_at_drop, "trace": trace}));
                    }
                }
                None => out.machinery_errors.push(format!("controller scenario drops={drops} credit={credit_at_drop} died: {:?}", ex.panics)),
            }
        }
    }
    n
}

fn run_resumed(out: &mut Outcome) -> u64 {
    let mut n = 0;
    for cycles in 1..=2usize {
        for early in [true, false] {
            let scen: Scenario<(Vec<(String, String)>, Vec<String>, Option<String>)> = Arc::new(move || Box::pin(resumed_scenario(cycles, early)));
            let ex = run_exec(vec![], &RunCfg::none(), &scen);
            n += 1;
            match ex.out {
                Some((fails, trace, mach)) => {
                    if let Some(m) = mach {
                        out.machinery_errors.push(m);
                    }
                    for (s, d) in fails {
                        out.violation(s, d, json!({"kind": "resumed", "cycles": cycles, "early": early, "trace": trace}));
                    }
                }
                None => out.machinery_errors.push(format!("resumed scenario cycles={cycles} early={early} died: {:?}", ex.panics)),
            }
        }
    }
    n
}

fn run_parked(out: &mut Outcome) -> u64 {
    let mut n = 0;
    for k in 1..=3usize {
        let scen: Scenario<(Vec<(String, String)>, Vec<String>, Option<String>)> = Arc::new(move || Box::pin(parked_scenario(k)));
        let ex = run_exec(vec![], &RunCfg::none(), &scen);
        n += 1;
        match ex.out {
            Some((fails, trace, mach)) => {
                if let Some(m) = mach {
                    out.machinery_errors.push(m);
                }
                for (s, d) in fails {
                    out.violation(s, d, json!({"kind": "parked", "k": k, "trace": trace}));
                }
            }
            None => out.machinery_errors.push(format!("parked scenario k={k} died: {:?}", ex.panics)),
        }
    }
    n
}

fn last_flow(evs: &[Ev]) -> Ev {
    evs.iter().rev().find(|e| !matches!(e, Ev::A1 | Ev::A3)).copied().unwrap_or(Ev::A1)
}
fn last_was_drain(evs: &[Ev]) -> bool {
    // after a drain the sender holds no credit until the next flow
    matches!(last_flow(evs), Ev::D2)
}

fn run_history(idc: u32, evs: Vec<Ev>) -> (HistOut, usize, usize) {
    let scen: Scenario<Obs> = {
        let evs = evs.clone();
        Arc::new(move || {
            let evs = evs.clone();
            Box::pin(scenario(idc, evs))
        })
    };
    let ex = run_exec(vec![], &RunCfg::none(), &scen);
    let mut out = HistOut::default();
    let mut multi = 0;
    let mut woken = 0;
    match ex.out {
        Some(o) => {
            out.executed = o.executed;
            out.fails = o.fails.into_iter().map(|(s, d)| (s, format!("initial-delivery-count {idc}: {d}"))).collect();
            out.state_keys = o.state_keys;
            out.trace = o.trace;
            out.machinery = o.machinery;
            multi = o.multi_frame_deliveries;
            woken = o.blocked_then_woken;
        }
        None => {
            out.executed = evs.len();
            out.machinery = Some(format!("scenario died: panics {:?} watchdog {}", ex.panics, ex.watchdog));
        }
    }
    if ex.spun {
        out.machinery = Some("busy loop (spin) detected".into());
    }
    (out, multi, woken)
}

pub fn run(ctx: &Ctx) -> Outcome {
    let mut out = Outcome::new("model_checking");
    if let Some(p) = &ctx.replay {
        return replay(p, out);
    }
    let depth = if ctx.quick() { 5 } else { 7 };
    let deadline = Instant::now() + Duration::from_secs_f64(ctx.budget_s);
    let idcs: Vec<u32> = if ctx.quick() { vec![0, u32::MAX - 1, u32::MAX] } else { vec![0, u32::MAX - 2, u32::MAX - 1, u32::MAX] };
    let mut states = 0;
    let mut transitions = 0;
    let mut executions = 0;
    let mut truncated = false;
    let mut samples = vec![];
    let multi = std::sync::atomic::AtomicUsize::new(0);
    let woken = std::sync::atomic::AtomicUsize::new(0);
    for idc in idcs.iter().copied() {
        let st = search(ALPHABET.len(), depth, ctx.threads, deadline, |h| {
            let (o, m, w) = run_history(idc, h.iter().map(|i| ALPHABET[*i]).collect());
            multi.fetch_add(m, std::sync::atomic::Ordering::Relaxed);
            woken.fetch_add(w, std::sync::atomic::Ordering::Relaxed);
            o
        });
        executions += st.executions;
        states += st.distinct_states;
        transitions += st.distinct_transitions;
        truncated |= st.truncated;
        for m in st.machinery {
            out.machinery_errors.push(m);
        }
        for (h, sig, detail, trace) in st.violations {
            let evs: Vec<String> = h.iter().map(|i| format!("{:?}", ALPHABET[*i])).collect();
            out.violation(sig, format!("history {:?}: {detail}", evs), json!({"kind": "history", "idc": idc, "events": h, "event_names": evs, "trace": trace}));
        }
        if samples.len() < 2 {
            samples.extend(st.sample_traces.into_iter().take(1));
        }
    }
    let sched = schedule_wakeup(ctx, deadline, &mut out);
    let parked = run_parked(&mut out);
    let resumed = run_resumed(&mut out) + run_resumed_accounting(&mut out);
    let ctl = run_controller(&mut out);
    out.set("control_link_scenarios", ctl);
    // the LISTENER side (scripted client, link flows sent before the application accepted the link)
    let (l_exec, l_states) = crate::c07_lsn::part_l(ctx, deadline + Duration::from_secs(60), &mut out);
    executions += l_exec;
    states += l_states;
    transitions += crate::c07_lsn::last_transitions();
    truncated |= out.coverage.get("listener_side_complete") == Some(&json!(false));
    out.set("resumed_link_scenarios", resumed);
    out.set("parked_delivery_scenarios", parked);
    out.set("states", states.max(1));
    out.set("transitions", transitions.max(1) + sched.1);
    out.set("traces_validated_against_impl", executions + sched.0);
    out.set("history_executions", executions);
    out.set("schedule_executions", sched.0);
    out.set("multi_frame_deliveries_observed", multi.load(std::sync::atomic::Ordering::Relaxed) as u64);
    out.set("blocked_sends_later_woken", woken.load(std::sync::atomic::Ordering::Relaxed) as u64);
    out.set("samples", json!(samples));
    out.set("exhaustive", !truncated);
    out.set("bound", format!("histories of depth {depth} over {} events x initial delivery-counts {:?}; wake-up schedules: {}", ALPHABET.len(), idcs, sched.2));
    out.set("rule", "states = distinct (deliveries started, receiver limit, sends waiting, sends completed) at quiescence; every state reached by executing the real sender link, session and connection engines against the scripted receiver");
    out.assume("the scripted receiver acts at quiescent points; a delivery is judged against the last flow the receiver sent before the step in which the delivery started");
    out.assume("schedule exploration: tokio-poll granularity plus the preempt point 'sender-credit-wait' (cfg fe2o3_amqp_verif) which stands for another worker thread running between the failed credit check and the start of the wait");
    out
}

/// "send blocked on zero credit, peer grants 1 at the same instant": all schedules within the bound
fn schedule_wakeup(ctx: &Ctx, deadline: Instant, out: &mut Outcome) -> (u64, u64, String) {
    let scen: Scenario<(bool, Vec<String>, Option<String>)> = Arc::new(|| {
        Box::pin(async {
            let mut auto = Auto::default();
            auto.accept_transfers = true;
            let mut c = match scen::open_client(auto, 512).await {
                Ok(c) => c,
                Err(e) => return (false, vec![], Some(e)),
            };
            let mut session = match scen::begin(&mut c, Session::builder()).await {
                Ok(s) => s,
                Err(e) => return (false, vec![], Some(e)),
            };
            let sender = match drive(&mut c.peer, Sender::attach(&mut session, "s1", "q"), scen::H).await {
                Some(Ok(s)) => s,
                _ => return (false, vec![], Some("attach failed".into())),
            };
            let lib_handle = c.peer.links.last().map(|l| l.lib_handle).unwrap_or(0);
            let (tx, log, _task) = scen::spawn_sender_task(sender);
            settle(&mut c.peer, 1).await;
            // the racing step: the application starts a send with zero credit and the receiver grants one
            // credit, at the same virtual instant
            let _ = tx.send(SendCmd::Send { body_len: 20 });
            c.peer.grant(0, lib_handle, 1);
            // horizon: 100 s of virtual time
            let mut done = false;
            for _ in 0..100 {
                tokio::time::sleep(Duration::from_secs(1)).await;
                c.peer.pump();
                if !log.lock().unwrap().done.is_empty() {
                    done = true;
                    break;
                }
            }
            let _ = tx.send(SendCmd::Stop);
            (done, trace_to_strings(&c.peer.trace), None)
        })
    });
    let bounds = if ctx.quick() {
        Bounds::new(1)
    } else {
        Bounds::new(3).kind(Kind::Task, 2).kind(Kind::Select, 1).kind(Kind::Preempt, 2)
    };
    let cfg = RunCfg::default();
    let fails = std::sync::Mutex::new(vec![]);
    let st = explore(&cfg, &bounds, &scen, ctx.threads, deadline, |e| {
        match &e.out {
            None => fails.lock().unwrap().push(("machinery".to_string(), format!("scenario died {:?}", e.panics), e.points.clone(), vec![])),
            Some((_, _, Some(m))) => fails.lock().unwrap().push(("machinery".to_string(), m.clone(), e.points.clone(), vec![])),
            Some((false, tr, None)) => fails.lock().unwrap().push((
                "lost-wakeup".to_string(),
                "a send waiting for credit did not complete within 100 s of virtual time although the receiver granted one credit (the grant landed between the failed credit check and the start of the wait)".to_string(),
                e.points.clone(),
                tr.clone(),
            )),
            _ => {}
        }
        h64(&e.out.as_ref().map(|o| (o.0, o.1.len())))
    });
    for (s, d, points, trace) in fails.into_inner().unwrap() {
        if s == "machinery" {
            out.machinery_errors.push(d);
        } else {
            let dev: Vec<String> = points.iter().filter(|p| p.chosen != 0).map(|p| format!("{:?}={}", p.kind, p.chosen)).collect();
            out.violation(s, format!("{d}; deviations from the default schedule: {:?}", dev), json!({"kind": "schedule", "schedule": points, "trace": trace}));
        }
    }
    for d in &st.divergences {
        out.machinery_errors.push(d.clone());
    }
    (
        st.executions,
        st.points_total,
        format!("{} ({} executions, {} preempt points in the default run, level {:?} complete)", bounds.describe(), st.executions, st.choice_points_by_kind[Kind::Preempt.idx()], st.completed_level),
    )
}

fn replay(p: &std::path::Path, mut out: Outcome) -> Outcome {
    let s = std::fs::read_to_string(p).unwrap_or_default();
    let j: serde_json::Value = serde_json::from_str(&s).unwrap_or_default();
    let r = &j["replay"];
    if crate::c07_lsn::replay(r, &mut out) {
        return out;
    }
    if r["kind"] == "history" {
        let idc = r["idc"].as_u64().unwrap_or(0) as u32;
        let evs: Vec<Ev> = r["events"].as_array().map(|a| a.iter().filter_map(|x| x.as_u64()).map(|i| ALPHABET[i as usize]).collect()).unwrap_or_default();
        println!("replaying idc={idc} {:?}", evs);
        let (o, _, _) = run_history(idc, evs);
        for l in &o.trace {
            println!("  {l}");
        }
        for (s, d) in o.fails {
            println!("  FAIL {s}: {d}");
            out.violation(s, d, r.clone());
        }
    } else if r["kind"] == "controller" {
        let (drops, cad) = (r["drops"].as_u64().unwrap_or(1) as usize, r["credit_at_drop"].as_bool().unwrap_or(false));
        let scen: Scenario<(Vec<(String, String)>, Vec<String>, Option<String>)> = Arc::new(move || Box::pin(controller_scenario(drops, cad)));
        let ex = run_exec(vec![], &RunCfg::none(), &scen);
        if let Some((fails, trace, _)) = ex.out {
            for l in &trace {
                println!("  {l}");
            }
            for (s, d) in fails {
                println!("  FAIL {s}: {d}");
                out.violation(s, d, r.clone());
            }
        }
    } else if r["kind"] == "resumed-accounting" {
        let (g, k, n) = (r["g"].as_u64().unwrap_or(1) as u32, r["k"].as_u64().unwrap_or(0) as u32, r["n"].as_u64().unwrap_or(1) as u32);
        let scen: Scenario<(Vec<(String, String)>, Vec<String>, Option<String>)> = Arc::new(move || Box::pin(resumed_accounting_scenario(g, k, n)));
        let ex = run_exec(vec![], &RunCfg::none(), &scen);
        if let Some((fails, trace, _)) = ex.out {
            for l in &trace {
                println!("  {l}");
            }
            for (s, d) in fails {
                println!("  FAIL {s}: {d}");
                out.violation(s, d, r.clone());
            }
        }
    } else if r["kind"] == "resumed" {
        let (cycles, early) = (r["cycles"].as_u64().unwrap_or(1) as usize, r["early"].as_bool().unwrap_or(true));
        let scen: Scenario<(Vec<(String, String)>, Vec<String>, Option<String>)> = Arc::new(move || Box::pin(resumed_scenario(cycles, early)));
        let ex = run_exec(vec![], &RunCfg::none(), &scen);
        if let Some((fails, trace, _)) = ex.out {
            for l in &trace {
                println!("  {l}");
            }
            for (s, d) in fails {
                println!("  FAIL {s}: {d}");
                out.violation(s, d, r.clone());
            }
        }
    } else {
        println!("schedule replay: re-running the wake-up exploration (quick bounds)");
        let ctx = Ctx {
            id: "C08".into(),
            tier: vlib::report::Tier::Quick,
            seed: 0,
            budget_s: 60.0,
            start: Instant::now(),
            replay: None,
            threads: 8,
        };
        let mut o2 = Outcome::new("model_checking");
        schedule_wakeup(&ctx, Instant::now() + Duration::from_secs(60), &mut o2);
        out.violations = o2.violations;
    }
    out.set("states", 1);
    out.set("transitions", 1);
    out.set("traces_validated_against_impl", 1);
    out.set("samples", json!([r]));
    out
}
