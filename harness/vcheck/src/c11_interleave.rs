//! C11 part C - two (or three) sender links of ONE session send at the same time.
//!
//! Parts A and B execute one API call at a time: the frames of a multi-frame delivery are never mixed with
//! the frames of another link's delivery.  Here two application tasks call `Sender::send` concurrently on two
//! links of one session, both with a message the LINK layer splits (the link has a max-message-size), so that
//! the transfer frames of the two deliveries alternate on the wire; optionally a third task sends a one-frame
//! message on a third link in the middle.  The session's link->session queue is made small
//! (`Session::builder().buffer_size(n)`) so that a sending task has to wait for the session engine after n
//! frames: that is what makes the frames alternate under the default schedule; in addition ALL task
//! schedules within a deviation bound are explored for a few configurations.
//!
//! Oracle: the wire monitor of part A (`WireMon`), which keeps one open delivery PER HANDLE: a transfer frame
//! on handle h without delivery-tag after a frame with more=true on h continues the delivery of h; its
//! delivery-id, if present, must be the id of THAT delivery ("all frames of one delivery carry the same
//! delivery-id or none"); first frames must carry ids that strictly increase in wire order and are not reused.
//! Whether the sends succeed is not judged here (counted as anomalies).
use super::{padded_body, WireMon, CH_OFF, H_OFF, MAX_FRAME};
use fe2o3_amqp::{Connection, Sender, Session};
use fe2o3_amqp_types::performatives::Performative;
use serde_json::json;
use std::collections::{BTreeMap, BTreeSet, HashSet};
use std::sync::{Arc, Mutex};
use std::time::{Duration, Instant};
use vlib::explore::{explore, Bounds};
use vlib::peer::{drive, settle, Auto, Dirn, Peer};
use vlib::report::{Ctx, Outcome};
use vlib::runner::{run_exec, Exec, RunCfg, Scenario};
use vlib::tape::{Kind, Point};
use vlib::util::h64;
use vlib::vpipe::Pipe;

#[derive(Debug, Clone, Copy, PartialEq, Eq, Hash)]
pub struct ICase {
    /// capacity of the session's link->session queue
    pub buf: usize,
    /// max-message-size of the two splitting links
    pub mms: u64,
    /// body lengths of the two concurrent messages
    pub len_a: usize,
    pub len_b: usize,
    /// a third task sends a one-frame message on a third link (no max-message-size) at the same time
    pub third: bool,
}

impl ICase {
    fn to_json(self) -> serde_json::Value {
        json!({"buf": self.buf, "mms": self.mms, "len_a": self.len_a, "len_b": self.len_b, "third": self.third})
    }
    fn from_json(j: &serde_json::Value) -> Option<ICase> {
        Some(ICase {
            buf: j.get("buf")?.as_u64()? as usize,
            mms: j.get("mms")?.as_u64()?,
            len_a: j.get("len_a")?.as_u64()? as usize,
            len_b: j.get("len_b")?.as_u64()? as usize,
            third: j.get("third")?.as_bool()?,
        })
    }
    fn describe(self) -> String {
        format!(
            "one session with link->session queue of {} frame(s); sender links 'b1' and 'b2' with max-message-size {}; two tasks send bodies of {} and {} bytes at the same time{}",
            self.buf,
            self.mms,
            self.len_a,
            self.len_b,
            if self.third { "; a third task sends a one-frame message on link 'a'" } else { "" }
        )
    }
}

pub fn grid(thorough: bool) -> Vec<ICase> {
    let mut v = vec![];
    let bufs: &[usize] = if thorough { &[1, 2, 3, 4, 8, 65535] } else { &[1, 2, 3, 65535] };
    let lens: &[(usize, usize)] = if thorough { &[(300, 300), (300, 1000), (1000, 300), (1000, 1000), (130, 700)] } else { &[(300, 300), (300, 1000), (1000, 300)] };
    for &buf in bufs {
        for &mms in &[64u64, 200] {
            for &(len_a, len_b) in lens {
                for third in [false, true] {
                    v.push(ICase { buf, mms, len_a, len_b, third });
                }
            }
        }
    }
    v
}

#[derive(Debug, Clone, Default)]
pub struct IObs {
    pub fails: Vec<(String, String)>,
    pub trace: Vec<String>,
    pub anomalies: Vec<String>,
    pub machinery: Option<String>,
    /// multi-frame deliveries between whose first and last frame a frame of another link went out
    pub interleaved_deliveries: u64,
    /// ... and that frame was the FIRST frame of another delivery (a new delivery-id was assigned in between)
    pub overlapped_by_a_start: u64,
    pub multi_frame_deliveries: u64,
    pub deliveries: u64,
    /// order of the handles of the transfer frames sent concurrently (canonical observation)
    pub pattern: String,
}

const HZ: Duration = Duration::from_millis(200);

pub async fn scenario(c: ICase) -> IObs {
    let mut obs = IObs::default();
    let (pipe, a, _b) = Pipe::new();
    let mut auto = Auto::default();
    auto.channel_offset = CH_OFF;
    auto.handle_offset = H_OFF;
    auto.max_frame_size = MAX_FRAME;
    auto.channel_max = 2000;
    auto.grant_credit = Some(100);
    auto.accept_transfers = true;
    auto.next_outgoing_id = 5000;
    let mut peer = Peer::new(pipe.clone(), 1, auto);
    macro_rules! mach {
        ($($a:tt)*) => {{
            obs.machinery = Some(format!("part C {:?}: {}; trace {:?}", c, format!($($a)*), vlib::peer::trace_to_strings(&peer.trace)));
            return obs;
        }};
    }
    let mut conn = match drive(&mut peer, Connection::builder().container_id("lib").max_frame_size(MAX_FRAME).channel_max(2000).open_with_stream(a), HZ).await {
        Some(Ok(x)) => x,
        other => mach!("cannot open: {:?}", other.map(|r| r.map(|_| ()).map_err(|e| e.to_string()))),
    };
    let mut sess = match drive(&mut peer, Session::builder().buffer_size(c.buf).begin(&mut conn), HZ).await {
        Some(Ok(x)) => x,
        other => mach!("cannot begin: {:?}", other.map(|r| r.map(|_| ()).map_err(|e| e.to_string()))),
    };
    let mut links: Vec<Sender> = vec![];
    for (name, mms) in [("b1", Some(c.mms)), ("b2", Some(c.mms)), ("a", None)] {
        if name == "a" && !c.third {
            continue;
        }
        let mut b = Sender::builder().name(name).target(format!("q-{name}"));
        if let Some(m) = mms {
            b = b.max_message_size(m);
        }
        match drive(&mut peer, b.attach(&mut sess), HZ).await {
            Some(Ok(x)) => links.push(x),
            other => mach!("cannot attach '{name}': {:?}", other.map(|r| r.map(|_| ()).map_err(|e| format!("{e:?}")))),
        }
    }
    settle(&mut peer, 1).await;
    // one small delivery on every link first: the concurrent deliveries do not start at the session's first id
    for (i, s) in links.iter_mut().enumerate() {
        match drive(&mut peer, s.send(format!("warm-up-{i}")), HZ).await {
            Some(Ok(_)) => {}
            other => obs.anomalies.push(format!("warm-up send {i}: {:?}", other.map(|r| r.map(|_| ()).map_err(|e| e.to_string())))),
        }
    }
    settle(&mut peer, 1).await;
    let mark = peer.trace.len();

    // ---- the concurrent sends
    let bodies = [padded_body("concurrent-A:", c.len_a), padded_body("concurrent-B:", c.len_b), padded_body("concurrent-C:", 24)];
    let mut tasks = vec![];
    for (i, mut s) in links.into_iter().enumerate() {
        let body = bodies[i].clone();
        tasks.push(tokio::spawn(async move {
            let r = s.send(body).await.map(|_| ()).map_err(|e| e.to_string());
            (s, r)
        }));
    }
    let start = tokio::time::Instant::now();
    while tasks.iter().any(|t| !t.is_finished()) && start.elapsed() < HZ {
        tokio::time::sleep(Duration::from_millis(1)).await;
        peer.pump();
    }
    let mut links: Vec<Sender> = vec![];
    for (i, t) in tasks.into_iter().enumerate() {
        if !t.is_finished() {
            obs.anomalies.push(format!("concurrent send {i}: still pending at the horizon"));
            t.abort();
            continue;
        }
        match t.await {
            Ok((s, Ok(()))) => links.push(s),
            Ok((s, Err(e))) => {
                obs.anomalies.push(format!("concurrent send {i}: error {e}"));
                links.push(s);
            }
            Err(e) => obs.anomalies.push(format!("concurrent send {i}: task failed: {e}")),
        }
    }
    settle(&mut peer, 1).await;
    let mark2 = peer.trace.len();
    // ---- afterwards one delivery on every link, one after the other: the ids go on increasing
    for (i, s) in links.iter_mut().enumerate() {
        match drive(&mut peer, s.send(format!("after-{i}")), HZ).await {
            Some(Ok(_)) => {}
            other => obs.anomalies.push(format!("send after the concurrent ones {i}: {:?}", other.map(|r| r.map(|_| ()).map_err(|e| e.to_string())))),
        }
    }
    settle(&mut peer, 1).await;

    // ---- the oracle: part A's wire monitor over everything the library wrote
    let mut mon = WireMon::default();
    mon.ctx = "link-split, concurrent with another link's".into();
    mon.feed_all(&peer.trace);
    let mut seen = BTreeSet::new();
    for (s, d) in &mon.fails {
        if seen.insert(s.clone()) {
            obs.fails.push((s.clone(), d.clone()));
        }
    }
    obs.deliveries = mon.counters.deliveries;
    obs.multi_frame_deliveries = mon.counters.multi_frame_deliveries;

    // ---- non-vacuity: did the frames of the concurrent deliveries really interleave?
    // (handle, is first frame of its delivery, is last frame) of the transfers written during the concurrent phase
    let mut seq: Vec<(u32, bool, bool)> = vec![];
    let mut open: BTreeMap<u32, bool> = BTreeMap::new();
    for w in peer.trace[mark..mark2].iter().filter(|w| w.dir == Dirn::FromLib) {
        if let Some(Performative::Transfer(t)) = w.perf() {
            let first = !open.get(&t.handle.0).copied().unwrap_or(false);
            open.insert(t.handle.0, t.more);
            seq.push((t.handle.0, first, !t.more));
        }
    }
    obs.pattern = seq.iter().map(|(h, f, _)| format!("{}{h}", if *f { "^" } else { "" })).collect::<Vec<_>>().join(" ");
    let mut i = 0;
    while i < seq.len() {
        let (h, first, last) = seq[i];
        if first && !last {
            // span of this delivery
            let mut end = i;
            for (j, x) in seq.iter().enumerate().skip(i + 1) {
                if x.0 == h {
                    end = j;
                    if x.2 {
                        break;
                    }
                }
            }
            let foreign: Vec<&(u32, bool, bool)> = seq[i..=end].iter().filter(|x| x.0 != h).collect();
            if !foreign.is_empty() {
                obs.interleaved_deliveries += 1;
                if foreign.iter().any(|x| x.1) {
                    obs.overlapped_by_a_start += 1;
                }
            }
        }
        i += 1;
    }
    obs.trace.push(format!("== part C: {}", c.describe()));
    for w in &peer.trace {
        let tag = if w.seq == mark { "  -- concurrent sends start\n    " } else if w.seq == mark2 { "  -- concurrent sends done\n    " } else { "    " };
        obs.trace.push(format!("{tag}{}", w.short()));
    }
    obs.trace.push(format!("   handles of the concurrent transfer frames (^ = first frame of a delivery): {}", obs.pattern));
    drop(links);
    drop(sess);
    drop(conn);
    obs
}

fn scen_of(c: ICase) -> Scenario<IObs> {
    Arc::new(move || Box::pin(scenario(c)))
}

#[derive(Default)]
pub struct PartC {
    pub executions: u64,
    pub states: u64,
    pub truncated: bool,
    pub bound: String,
    pub summary: serde_json::Value,
    pub samples: Vec<serde_json::Value>,
}

#[derive(Default)]
struct TotalsC {
    executions: u64,
    interleaved_execs: u64,
    overlapped_execs: u64,
    interleaved_deliveries: u64,
    overlapped_by_a_start: u64,
    multi_frame: u64,
    deliveries: u64,
    patterns: HashSet<u64>,
    anomalies: BTreeMap<String, (u64, String)>,
    machinery: Vec<String>,
    /// signature -> (detail, replay, size of the case for minimality)
    violations: BTreeMap<String, (String, serde_json::Value, usize)>,
    sample: Option<serde_json::Value>,
}

fn account(t: &Mutex<TotalsC>, c: ICase, ex: &Exec<IObs>) -> u64 {
    let mut t = t.lock().unwrap();
    t.executions += 1;
    let rep = json!({"part": "C", "case": c.to_json(), "schedule": ex.points.iter().filter(|p| p.chosen != 0).count(), "points": trim(&ex.points)});
    let Some(o) = &ex.out else {
        if t.machinery.len() < 3 {
            t.machinery.push(format!("part C {:?}: scenario died: panics {:?} watchdog {}", c, ex.panics, ex.watchdog));
        }
        return 0;
    };
    if let Some(m) = &o.machinery {
        if t.machinery.len() < 3 {
            t.machinery.push(m.clone());
        }
        return 1;
    }
    // panics / spinning of library tasks are not what C11 is about: machinery errors with the case
    if let Some(p) = ex.panics.iter().find(|p| !p.contains("vcheck/src")) {
        if t.machinery.len() < 3 {
            t.machinery.push(format!("part C {:?}: a library task panicked: {p}", c));
        }
    }
    if ex.spun && t.machinery.len() < 3 {
        t.machinery.push(format!("part C {:?}: some task polled more than 20000 times at one virtual instant", c));
    }
    if o.interleaved_deliveries > 0 {
        t.interleaved_execs += 1;
    }
    if o.overlapped_by_a_start > 0 {
        t.overlapped_execs += 1;
    }
    t.interleaved_deliveries += o.interleaved_deliveries;
    t.overlapped_by_a_start += o.overlapped_by_a_start;
    t.multi_frame += o.multi_frame_deliveries;
    t.deliveries += o.deliveries;
    let key = h64(&(c, &o.pattern, o.fails.iter().map(|f| &f.0).collect::<Vec<_>>()));
    t.patterns.insert(key);
    for a in &o.anomalies {
        let e = t.anomalies.entry(super::anomaly_class(a)).or_insert((0, format!("{:?}: {a}", c)));
        e.0 += 1;
    }
    let size = c.len_a + c.len_b + c.third as usize + ex.points.iter().filter(|p| p.chosen != 0).count() * 10_000;
    for (s, d) in &o.fails {
        let better = t.violations.get(s).is_none_or(|v| size < v.2);
        if better {
            let mut r = rep.clone();
            r["trace"] = json!(o.trace);
            t.violations.insert(s.clone(), (format!("{}: {d}; handles of the transfer frames sent concurrently (^ = first frame of a delivery): {}", c.describe(), o.pattern), r, size));
        }
    }
    if t.sample.is_none() && o.overlapped_by_a_start >= 2 && o.fails.is_empty() && c.len_a + c.len_b <= 600 && c.mms == 200 {
        t.sample = Some(json!({"part": "concurrent senders", "case": c.to_json(), "trace": o.trace}));
    }
    key
}

/// the tape up to the last deviation (the rest is answered by default)
fn trim(points: &[Point]) -> Vec<Point> {
    match points.iter().rposition(|p| p.chosen != 0) {
        Some(i) => points[..=i].to_vec(),
        None => vec![],
    }
}

pub fn run_part_c(ctx: &Ctx, deadline: Instant, out: &mut Outcome) -> PartC {
    let thorough = !ctx.quick();
    let totals = Mutex::new(TotalsC::default());
    // (1) every case of the grid under the default schedule
    let cases = grid(thorough);
    let next = std::sync::atomic::AtomicUsize::new(0);
    let cut = std::sync::atomic::AtomicBool::new(false);
    std::thread::scope(|sc| {
        for _ in 0..ctx.threads.max(1).min(cases.len()) {
            sc.spawn(|| loop {
                let i = next.fetch_add(1, std::sync::atomic::Ordering::Relaxed);
                if i >= cases.len() {
                    break;
                }
                if Instant::now() > deadline {
                    cut.store(true, std::sync::atomic::Ordering::Relaxed);
                    break;
                }
                let ex = run_exec(vec![], &RunCfg::none(), &scen_of(cases[i]));
                account(&totals, cases[i], &ex);
            });
        }
    });
    let grid_execs = totals.lock().unwrap().executions;
    // (2) all task schedules within the deviation bound for a few cases
    let explored: Vec<ICase> = if thorough {
        vec![
            ICase { buf: 1, mms: 200, len_a: 300, len_b: 300, third: true },
            ICase { buf: 2, mms: 200, len_a: 300, len_b: 300, third: false },
            ICase { buf: 65535, mms: 200, len_a: 300, len_b: 300, third: true },
            ICase { buf: 1, mms: 64, len_a: 300, len_b: 300, third: false },
        ]
    } else {
        vec![ICase { buf: 1, mms: 200, len_a: 300, len_b: 300, third: true }, ICase { buf: 65535, mms: 200, len_a: 300, len_b: 300, third: false }]
    };
    let bounds = if thorough { Bounds::new(3) } else { Bounds::new(2) };
    let cfg = RunCfg::none().with(Kind::Task, true);
    let mut levels = vec![];
    let mut truncated = cut.load(std::sync::atomic::Ordering::Relaxed);
    for c in &explored {
        if Instant::now() > deadline {
            truncated = true;
            break;
        }
        let st = explore(&cfg, &bounds, &scen_of(*c), ctx.threads, deadline, |e| account(&totals, *c, e));
        for d in &st.divergences {
            if out.machinery_errors.len() < 5 {
                out.machinery_errors.push(format!("part C {:?}: {d}", c));
            }
        }
        if !st.exhaustive {
            truncated = true;
        }
        levels.push(format!("{}: {} executions, {} task choice points on the default schedule, deviation level {:?} complete", c.to_json(), st.executions, st.choice_points_by_kind[Kind::Task.idx()], st.completed_level));
    }
    let t = totals.into_inner().unwrap();
    for m in t.machinery {
        if out.machinery_errors.len() < 5 {
            out.machinery_errors.push(m);
        }
    }
    for (sig, (detail, rep, _)) in t.violations {
        out.violation(format!("{sig} [concurrent links]"), detail, rep);
    }
    if t.overlapped_execs == 0 && t.executions > 0 {
        out.machinery_errors.push("part C: in no execution did the frames of two deliveries interleave: the scenario does not exercise what it is for".into());
    }
    let an: Vec<serde_json::Value> = t.anomalies.iter().map(|(k, (n, ex))| json!({"class": k, "count": n, "example": ex})).collect();
    let bound = format!(
        "two/three sender links of one session sending concurrently: {} cases (link->session queue x max-message-size 64|200 x body lengths x third one-frame sender) under the default schedule + all task schedules with {} for {} case(s)",
        cases.len(),
        bounds.describe(),
        explored.len()
    );
    PartC {
        executions: t.executions,
        states: t.patterns.len() as u64,
        truncated,
        bound,
        summary: json!({
            "executions": t.executions,
            "grid_executions_default_schedule": grid_execs,
            "schedule_exploration": levels,
            "executions_with_interleaved_deliveries": t.interleaved_execs,
            "executions_where_another_delivery_started_inside_a_multi_frame_delivery": t.overlapped_execs,
            "interleaved_multi_frame_deliveries": t.interleaved_deliveries,
            "multi_frame_deliveries_with_another_delivery_started_inside": t.overlapped_by_a_start,
            "multi_frame_deliveries": t.multi_frame,
            "deliveries_on_wire": t.deliveries,
            "distinct_frame_orders": t.patterns.len(),
            "unjudged_api_anomalies": an,
        }),
        samples: t.sample.into_iter().collect(),
    }
}

pub fn replay(r: &serde_json::Value, mut out: Outcome) -> Outcome {
    let Some(c) = r.get("case").and_then(ICase::from_json) else {
        out.machinery_errors.push("part C replay: no case".into());
        return out;
    };
    let points: Vec<Point> = r.get("points").and_then(|p| serde_json::from_value(p.clone()).ok()).unwrap_or_default();
    println!("replaying part C {:?} with {} recorded choice points", c, points.len());
    let cfg = if points.is_empty() { RunCfg::none() } else { RunCfg::none().with(Kind::Task, true) };
    let ex = run_exec(points, &cfg, &scen_of(c));
    if let Some(d) = &ex.diverged {
        out.machinery_errors.push(format!("replay diverged: {d}"));
    }
    match &ex.out {
        None => out.machinery_errors.push(format!("scenario died: {:?}", ex.panics)),
        Some(o) => {
            for l in &o.trace {
                println!("  {l}");
            }
            for a in &o.anomalies {
                println!("  (unjudged) {a}");
            }
            if let Some(m) = &o.machinery {
                out.machinery_errors.push(m.clone());
            }
            for (s, d) in &o.fails {
                println!("  FAIL [{s}]: {d}");
                out.violation(format!("{s} [concurrent links]"), d.clone(), r.clone());
            }
        }
    }
    out.set("states", 1);
    out.set("transitions", 1);
    out.set("traces_validated_against_impl", 1);
    out.set("samples", json!([c.to_json()]));
    out.set("exhaustive", true);
    out.set("bound", "replay of one execution");
    out.set("rule", "replay");
    out
}
