//! C15 family "resumption with a lying unsettled map" (a child module of `c15_scen`).
//!
//! A link that holds unsettled deliveries is detached WITHOUT closing and resumed by the application
//! (`DetachedSender::resume()` / `DetachedReceiver::resume()`, awaited in a task of its own).  The library
//! sends its attach, which lists the unsettled deliveries; the peer's answering attach is the bad input: its
//! `unsettled` map names {the right delivery-tag(s), a tag nobody ever used, both} with a delivery state that
//! no honest peer could report - `received` with a section-offset at / one beyond / far beyond the end of the
//! message, with a section-number that does not exist, terminal outcomes, a transactional state, null - and
//! `incomplete-unsettled` false or true.  For the resuming receiver the peer (the sender) additionally sends
//! the resuming transfer (resume=true) for the named delivery with that same state.
//!
//!   sender side  : 1 one-frame delivery / 1 multi-frame delivery / both, sent and not settled by the peer;
//!   receiver side: 1 partially received delivery (first frame only) / 1 delivery handed to the application
//!                  and not yet accepted / both;
//!   both roles (client against the scripted peer; listener's link endpoints against the scripted client).
//!
//! Oracle: the C15 oracle of `c15.rs::judge`, unchanged - no panic in any task (the task that awaits
//! `resume()` included: its panic is recorded by the runner like any other), `resume()` and every later call
//! returns (Ok or Err) within the horizon with the peer conforming again after its one lie (it answers every
//! detach / attach, grants credit, settles what it receives), CPU and allocation in proportion, the
//! independent connection still works.  WHAT `resume()` returns is not judged: Ok, or any error, is "an error
//! visible to the application".  Outcomes of the deliveries that were unsettled at the detach are recorded
//! but not judged (a peer that lies about them cannot expect them to complete).
use super::*;
use fe2o3_amqp_types::definitions::Error as AmqpErr;
use fe2o3_amqp_types::messaging::{Modified, Received, Rejected, Released};
use fe2o3_amqp_types::transaction::{Declared, TransactionalState};
use serde_amqp::primitives::OrderedMap;
use std::pin::Pin;

#[derive(Debug, Clone, Copy, PartialEq, Eq, Hash, PartialOrd, Ord)]
pub enum Side {
    Sender,
    Receiver,
}

#[derive(Debug, Clone, Copy, PartialEq, Eq, Hash, PartialOrd, Ord)]
pub enum Tags {
    Right,
    Unknown,
    Both,
}

#[derive(Debug, Clone, Copy, PartialEq, Eq, Hash, PartialOrd, Ord)]
pub enum Lie {
    /// no unsettled map at all (what a peer that has forgotten everything sends; protocol-legal)
    Absent,
    /// an empty map
    Empty,
    /// the tag with a null state
    Null,
    Recv00,
    /// received(0, len-1), len = number of payload bytes of the delivery
    RecvLenM1,
    RecvLen,
    RecvLenP1,
    RecvU32,
    RecvU64,
    Sec7,
    SecMax,
    SecMaxOffMax,
    Accepted,
    Rejected,
    Released,
    Modified,
    Txn,
    Declared,
}

pub const LIES: [Lie; 18] = [
    Lie::Absent,
    Lie::Empty,
    Lie::Null,
    Lie::Recv00,
    Lie::RecvLenM1,
    Lie::RecvLen,
    Lie::RecvLenP1,
    Lie::RecvU32,
    Lie::RecvU64,
    Lie::Sec7,
    Lie::SecMax,
    Lie::SecMaxOffMax,
    Lie::Accepted,
    Lie::Rejected,
    Lie::Released,
    Lie::Modified,
    Lie::Txn,
    Lie::Declared,
];

impl Lie {
    pub fn tag(self) -> &'static str {
        match self {
            Lie::Absent => "no-map",
            Lie::Empty => "empty-map",
            Lie::Null => "null",
            Lie::Recv00 => "received(0,0)",
            Lie::RecvLenM1 => "received(0,len-1)",
            Lie::RecvLen => "received(0,len)",
            Lie::RecvLenP1 => "received(0,len+1)",
            Lie::RecvU32 => "received(0,2^32-1)",
            Lie::RecvU64 => "received(0,2^64-1)",
            Lie::Sec7 => "received(7,0)",
            Lie::SecMax => "received(2^32-1,0)",
            Lie::SecMaxOffMax => "received(2^32-1,2^64-1)",
            Lie::Accepted => "accepted",
            Lie::Rejected => "rejected",
            Lie::Released => "released",
            Lie::Modified => "modified",
            Lie::Txn => "transactional-state",
            Lie::Declared => "declared",
        }
    }
    fn has_entries(self) -> bool {
        !matches!(self, Lie::Absent | Lie::Empty)
    }
    /// the state of a map entry (None = null) for a delivery of `len` payload bytes
    fn state(self, len: u64) -> Option<DeliveryState> {
        let r = |n: u32, o: u64| Some(DeliveryState::Received(Received { section_number: n, section_offset: o }));
        match self {
            Lie::Absent | Lie::Empty | Lie::Null => None,
            Lie::Recv00 => r(0, 0),
            Lie::RecvLenM1 => r(0, len.saturating_sub(1)),
            Lie::RecvLen => r(0, len),
            Lie::RecvLenP1 => r(0, len + 1),
            Lie::RecvU32 => r(0, u32::MAX as u64),
            Lie::RecvU64 => r(0, u64::MAX),
            Lie::Sec7 => r(7, 0),
            Lie::SecMax => r(u32::MAX, 0),
            Lie::SecMaxOffMax => r(u32::MAX, u64::MAX),
            Lie::Accepted => Some(DeliveryState::Accepted(Accepted {})),
            Lie::Rejected => Some(DeliveryState::Rejected(Rejected { error: Some(AmqpErr::new(fe2o3_amqp_types::definitions::AmqpError::InternalError, Some("lie".to_string()), None)) })),
            Lie::Released => Some(DeliveryState::Released(Released {})),
            Lie::Modified => Some(DeliveryState::Modified(Modified { delivery_failed: Some(true), undeliverable_here: Some(true), message_annotations: None })),
            Lie::Txn => Some(DeliveryState::TransactionalState(TransactionalState {
                txn_id: serde_bytes::ByteBuf::from(b"no-such-txn".to_vec()),
                outcome: Some(fe2o3_amqp_types::messaging::Outcome::Accepted(Accepted {})),
            })),
            Lie::Declared => Some(DeliveryState::Declared(Declared { txn_id: serde_bytes::ByteBuf::from(b"no-such-txn".to_vec()) })),
        }
    }
}

#[derive(Debug, Clone, Copy, PartialEq, Eq, Hash, PartialOrd, Ord)]
pub struct RSpec {
    pub side: Side,
    /// sender: 0 = one one-frame delivery, 1 = one multi-frame delivery, 2 = both;
    /// receiver: 0 = one partially received delivery, 1 = one delivered, unaccepted delivery, 2 = both
    pub kind: u8,
    pub tags: Tags,
    pub lie: Lie,
    pub incomplete: bool,
}

impl RSpec {
    pub fn family(&self) -> String {
        format!("resume-lying-unsettled:{}", if self.side == Side::Sender { "sender" } else { "receiver" })
    }
    pub fn label(&self) -> String {
        let k = match (self.side, self.kind) {
            (Side::Sender, 0) => "1 unsettled one-frame delivery",
            (Side::Sender, 1) => "1 unsettled multi-frame delivery",
            (Side::Sender, _) => "2 unsettled deliveries (one-frame + multi-frame)",
            (Side::Receiver, 0) => "1 partially received delivery",
            (Side::Receiver, 1) => "1 delivered, not yet accepted delivery",
            (Side::Receiver, _) => "1 delivered, not yet accepted delivery + 1 partially received delivery",
        };
        let t = match self.tags {
            Tags::Right => "the right tag(s)",
            Tags::Unknown => "a tag nobody used",
            Tags::Both => "the right tag(s) and a tag nobody used",
        };
        format!(
            "the library's {} link with {k} is detached (not closed) and resumed; the peer's attach has unsettled = {} and incomplete-unsettled={}",
            if self.side == Side::Sender { "sending" } else { "receiving" },
            if self.lie.has_entries() { format!("{{{t}: {}}}", self.lie.tag()) } else { self.lie.tag().to_string() },
            self.incomplete
        )
    }
    pub fn to_json(&self) -> serde_json::Value {
        serde_json::json!({"side": if self.side == Side::Sender { "sender" } else { "receiver" }, "kind": self.kind, "tags": format!("{:?}", self.tags), "lie": self.lie.tag(), "incomplete": self.incomplete})
    }
    pub fn from_json(j: &serde_json::Value) -> Option<RSpec> {
        let side = match j.get("side")?.as_str()? {
            "sender" => Side::Sender,
            "receiver" => Side::Receiver,
            _ => return None,
        };
        let tags = match j.get("tags")?.as_str()? {
            "Right" => Tags::Right,
            "Unknown" => Tags::Unknown,
            "Both" => Tags::Both,
            _ => return None,
        };
        let l = j.get("lie")?.as_str()?;
        let lie = LIES.into_iter().find(|x| x.tag() == l)?;
        Some(RSpec { side, kind: j.get("kind")?.as_u64()? as u8, tags, lie, incomplete: j.get("incomplete")?.as_bool()? })
    }
}

/// the enumeration: side x kind x tags x state x incomplete-unsettled (maps without entries once per kind)
pub fn specs(thorough: bool) -> Vec<RSpec> {
    let mut v = vec![];
    let _ = thorough;
    for side in [Side::Sender, Side::Receiver] {
        for kind in 0..3u8 {
            for lie in LIES {
                for tags in [Tags::Right, Tags::Unknown, Tags::Both] {
                    if !lie.has_entries() && tags != Tags::Right {
                        continue;
                    }
                    for incomplete in [false, true] {
                        v.push(RSpec { side, kind, tags, lie, incomplete });
                    }
                }
            }
        }
    }
    v
}

const H_LINK: u32 = 0;
const UNKNOWN_TAG: &[u8] = b"zz-nobody-used-this-tag";

fn show_map(m: &Option<OrderedMap<serde_bytes::ByteBuf, Option<DeliveryState>>>) -> String {
    match m {
        None => "none".into(),
        Some(m) => format!("{{{}}}", m.iter().map(|(k, v)| format!("{:?}: {}", k.as_slice(), v.as_ref().map(|s| short(&format!("{s:?}"))).unwrap_or("null".into()))).collect::<Vec<_>>().join(", ")),
    }
}

fn reaction_of(cx: &Ctx, mark: usize, pipe: &Pipe) -> String {
    let mut reaction: Vec<String> = vec![];
    for w in cx.peer.trace[mark..].iter().filter(|w| w.dir == Dirn::FromLib) {
        let r = match &w.body {
            Body::Perf(Performative::Close(c)) => format!("close({})", cond(c.error.as_ref())),
            Body::Perf(Performative::End(e)) => format!("end({})", cond(e.error.as_ref())),
            Body::Perf(Performative::Detach(d)) => format!("detach({})", cond(d.error.as_ref())),
            Body::Perf(Performative::Flow(_)) => "flow".into(),
            Body::Perf(Performative::Disposition(_)) => "disposition".into(),
            Body::Perf(Performative::Transfer(t)) => {
                if t.aborted {
                    "transfer(aborted)".into()
                } else if t.resume {
                    "transfer(resume)".into()
                } else {
                    "transfer".into()
                }
            }
            Body::Perf(Performative::Attach(_)) => "attach".into(),
            Body::Perf(Performative::Begin(_)) => "begin".into(),
            Body::Perf(Performative::Open(_)) => "open".into(),
            Body::Empty => "empty".into(),
            Body::ProtoHeader(_) => "header".into(),
            Body::Sasl(_) => "sasl".into(),
            Body::Undecodable(_) => "undecodable".into(),
        };
        if reaction.last() != Some(&r) {
            reaction.push(r);
        }
    }
    if pipe.peer_closed(1) {
        reaction.push("eof".into());
    }
    if reaction.is_empty() {
        "ignored".into()
    } else {
        reaction.join("+")
    }
}

/// delivery-count of the library's sending link "snd" as the conforming receiver states it in its flows on the
/// CURRENT attachment: the initial-delivery-count of the library's latest attach plus the deliveries started
/// since, NOT counting resuming transfers (resume=true).  Permissive on purpose: whether a resumed or aborted
/// delivery advances the sender's delivery-count is not what C15 is about, and a receiver whose count lags
/// behind the sender's is always conforming (its flow may have crossed the transfers on the wire), whereas a
/// count AHEAD of the sender's would be a second misbehaviour of the peer.
fn resumed_delivery_count(cx: &Ctx) -> u32 {
    let mut dc = 0u32;
    let mut in_progress = false;
    let mut handle: Option<u32> = None;
    for w in cx.peer.trace.iter().filter(|w| w.dir == Dirn::FromLib && w.channel == 0) {
        match w.perf() {
            Some(Performative::Attach(a)) if a.name == "snd" => {
                handle = Some(a.handle.0);
                dc = a.initial_delivery_count.unwrap_or(0);
                in_progress = false;
            }
            Some(Performative::Flow(f)) if f.handle.as_ref().map(|h| h.0) == handle && handle.is_some() => {
                if let Some(x) = f.delivery_count {
                    dc = x;
                }
            }
            Some(Performative::Transfer(t)) if Some(t.handle.0) == handle => {
                if !in_progress && !t.resume {
                    dc = dc.wrapping_add(1);
                }
                in_progress = t.more && !t.aborted;
            }
            _ => {}
        }
    }
    dc
}

type Unjudged = Pin<Box<dyn Future<Output = String>>>;

pub async fn scenario(case: Case, sp: RSpec) -> Obs {
    let mut obs = Obs::default();
    let role = case.role;
    let link_name = if sp.side == Side::Sender { "snd" } else { "rcv" };

    let mut bys = match bystander_setup().await {
        Ok(b) => b,
        Err(e) => {
            obs.machinery = Some(format!("bystander set-up: {e}"));
            return obs;
        }
    };
    let (pipe, a, _b) = Pipe::new();
    let mut auto = Auto::default();
    auto.detach = false;
    auto.end = false;
    auto.close = false;
    auto.max_frame_size = PEER_MFS;
    auto.channel_offset = 1;
    if role == Role::Listener {
        auto.header = false;
        auto.open = false;
    }
    let peer = Peer::new(pipe.clone(), 1, auto);
    let mut cx = Ctx { peer, view: View::default(), shown: 0, manual_snd_attach: None, settle_all: false, hung: false };
    cx.view.answering = true;
    let sacc = SessionAcceptor::builder().incoming_window(100).handle_max(LIB_HANDLE_MAX).build();
    let lacc = LinkAcceptor::new();

    macro_rules! fail {
        ($($a:tt)*) => {{
            cx.flush(&mut obs);
            obs.machinery = Some(format!("{} [{}] trace: {:?}", format!($($a)*), case.describe(), obs.trace));
            return obs;
        }};
    }
    obs.note(format!("== prefix: as {}, a {} link with unsettled deliveries, detached without closing", role.tag(), link_name));
    // -- open + begin
    let mut conn: Conn;
    let mut sess: Sess;
    match role {
        Role::Client => {
            match cx.drive(Connection::builder().container_id("lib").max_frame_size(LIB_MFS).channel_max(LIB_CHANNEL_MAX).open_with_stream(a), SETUP_H).await {
                Some(Ok(c)) => conn = Conn::C(c),
                other => fail!("open: {:?}", other.map(|r| r.map(|_| ()).map_err(|e| e.to_string()))),
            }
            let Conn::C(c) = &mut conn else { unreachable!() };
            match cx.drive(Session::builder().incoming_window(100).handle_max(LIB_HANDLE_MAX).begin(c), SETUP_H).await {
                Some(Ok(s)) => sess = Sess::C(s),
                other => fail!("begin: {:?}", other.map(|r| r.map(|_| ()).map_err(|e| e.to_string()))),
            }
        }
        Role::Listener => {
            cx.peer.send_proto_header(AMQP_HEADER);
            cx.peer.send(0, Performative::Open(peer_open()));
            let acceptor = ConnectionAcceptor::builder().container_id("lib").max_frame_size(LIB_MFS).channel_max(LIB_CHANNEL_MAX).build();
            match cx.drive(acceptor.accept(a), SETUP_H).await {
                Some(Ok(c)) => conn = Conn::L(c),
                other => fail!("accept: {:?}", other.map(|r| r.map(|_| ()).map_err(|e| e.to_string()))),
            }
            cx.settle(1).await;
            cx.peer.send(PCH, Performative::Begin(peer_begin(None)));
            let Conn::L(c) = &mut conn else { unreachable!() };
            match cx.drive(sacc.accept(c), SETUP_H).await {
                Some(Ok(s)) => sess = Sess::L(s),
                other => fail!("accept session: {:?}", other.map(|r| r.map(|_| ()).map_err(|e| e.to_string()))),
            }
            cx.settle(1).await;
            if let Err(e) = register_listener_session(&mut cx) {
                fail!("{e}");
            }
        }
    }
    cx.settle(1).await;
    if !cx.view.sess_alive(PCH) || cx.peer.sessions.get(&0).map(|s| s.our_channel) != Some(PCH) {
        fail!("session not mapped as library channel 0 <-> peer channel {PCH}");
    }
    // -- attach the one link
    let mut snd: Option<Sender> = None;
    let mut rcv: Option<Receiver> = None;
    match role {
        Role::Client => {
            let Sess::C(s) = &mut sess else { unreachable!() };
            if sp.side == Side::Sender {
                match cx.drive(Sender::attach(s, "snd", "q"), SETUP_H).await {
                    Some(Ok(x)) => snd = Some(x),
                    other => fail!("attach sender: {:?}", other.map(|r| r.map(|_| ()).map_err(|e| format!("{e:?}")))),
                }
            } else {
                match cx.drive(Receiver::builder().name("rcv").source("q").credit_mode(CreditMode::Manual).auto_accept(false).attach(s), SETUP_H).await {
                    Some(Ok(x)) => rcv = Some(x),
                    other => fail!("attach receiver: {:?}", other.map(|r| r.map(|_| ()).map_err(|e| format!("{e:?}")))),
                }
            }
        }
        Role::Listener => {
            let lib_is_sender = sp.side == Side::Sender;
            cx.peer.links.push(PeerLink {
                lib_channel: 0,
                name: link_name.to_string(),
                lib_handle: u32::MAX,
                our_handle: H_LINK,
                lib_role: if lib_is_sender { LinkRole::Sender } else { LinkRole::Receiver },
                delivery_count: 0,
                credit: 0,
                attached_by_peer: true,
                detached: false,
                detach_sent: false,
            });
            cx.peer.send(PCH, Performative::Attach(peer_attach(link_name, H_LINK, lib_is_sender)));
            let Sess::L(s) = &mut sess else { unreachable!() };
            match cx.drive(lacc.accept(s), SETUP_H).await {
                Some(Ok(LinkEndpoint::Sender(x))) if lib_is_sender => snd = Some(x),
                Some(Ok(LinkEndpoint::Receiver(mut x))) if !lib_is_sender => {
                    x.set_credit_mode(CreditMode::Manual);
                    x.set_auto_accept(false);
                    rcv = Some(x);
                }
                other => fail!("accept link {link_name}: {:?}", other.map(|r| r.map(|_| ()).map_err(|e| format!("{e:?}")))),
            }
        }
    }
    cx.settle(2).await;
    if !cx.view.link_alive(PCH, link_name) || !cx.view.link(PCH, link_name).is_some_and(|l| l.lib_handle == Some(0) && l.peer_handle == Some(H_LINK)) {
        fail!("link not attached with the expected handles: {:?}", cx.view.sess.get(&PCH));
    }

    // -- the unsettled deliveries: (tag, payload bytes of the whole delivery)
    let mut right: Vec<(Vec<u8>, u64)> = vec![];
    let mut unjudged: Vec<(String, Unjudged)> = vec![];
    // receiver side: what the peer still has to send of the partial delivery, and the peer's next delivery-id
    let mut rest: Vec<u8> = vec![];
    let mut next_did = 0u32;
    let mut peer_started = 0u32;
    let mut detached_snd = None;
    let mut detached_rcv = None;
    if sp.side == Side::Sender {
        let mut s = snd.take().unwrap();
        cx.peer.grant(0, 0, 10);
        cx.settle(1).await;
        let bodies: Vec<String> = match sp.kind {
            0 => vec!["outstanding-one-frame".into()],
            1 => vec!["m".repeat(1000)],
            _ => vec!["outstanding-one-frame".into(), "m".repeat(1000)],
        };
        for (k, b) in bodies.iter().enumerate() {
            match cx.drive(s.send_batchable(b.clone()), SETUP_H).await {
                Some(Ok(fut)) => unjudged.push((format!("outcome of unsettled delivery {k} (unjudged)"), Box::pin(async move { format!("{:?}", fut.await) }))),
                other => fail!("send_batchable {k}: {:?}", other.map(|r| r.map(|_| ()).map_err(|e| format!("{e:?}")))),
            }
        }
        cx.settle(2).await;
        let mut frames = 0;
        for w in cx.peer.lib_frames() {
            if let Some(Performative::Transfer(t)) = w.perf() {
                frames += 1;
                match &t.delivery_tag {
                    Some(tag) => right.push((tag.to_vec(), w.payload.len() as u64)),
                    None => {
                        if let Some(l) = right.last_mut() {
                            l.1 += w.payload.len() as u64;
                        }
                    }
                }
            }
        }
        if right.len() != bodies.len() || (sp.kind >= 1 && frames < bodies.len() + 1) {
            fail!("expected {} unsettled deliveries (one of them multi-frame for kind {}), saw {} deliveries in {frames} transfer frames", bodies.len(), sp.kind, right.len());
        }
        match cx.drive(s.detach(), SETUP_H).await {
            Some(Ok(d)) => detached_snd = Some(d),
            Some(Err((d, e))) => {
                obs.note(format!("  Sender::detach -> err {e:?}"));
                detached_snd = Some(d);
            }
            None => fail!("Sender::detach did not return although the peer answers the detach"),
        }
    } else {
        let mut r = rcv.take().unwrap();
        match cx.drive(r.set_credit(4), SETUP_H).await {
            Some(Ok(())) => {}
            other => fail!("set_credit: {:?}", other),
        }
        cx.settle(2).await;
        if sp.kind >= 1 {
            let m = msg("delivered-not-yet-accepted");
            cx.peer.send_perf(PCH, Performative::Transfer(xfer(H_LINK, Some(next_did), Some("c0".into()), false)), &m);
            next_did += 1;
            peer_started += 1;
            match cx.drive(r.recv::<Value>(), SETUP_H).await {
                Some(Ok(_d)) => {}
                other => fail!("recv of the prefix delivery: {:?}", other.map(|x| x.map(|_| ()).map_err(|e| format!("{e:?}")))),
            }
            right.push((b"c0".to_vec(), m.len() as u64));
        }
        if sp.kind != 1 {
            let m = msg(&"multi-frame-".repeat(6));
            cx.peer.send_perf(PCH, Performative::Transfer(xfer(H_LINK, Some(next_did), Some("p1".into()), true)), &m[..30]);
            next_did += 1;
            peer_started += 1;
            // the application polls recv(): the first frame is buffered, recv() stays pending and is dropped
            if let Some(x) = cx.drive(r.recv::<Value>(), Duration::from_millis(20)).await {
                fail!("recv returned on the first frame of a two-frame delivery: {:?}", x.map(|_| ()).map_err(|e| format!("{e:?}")));
            }
            // the partial delivery first: it is the one the resuming transfer names
            right.insert(0, (b"p1".to_vec(), m.len() as u64));
            rest = m[30..].to_vec();
        }
        cx.settle(1).await;
        match cx.drive(r.detach(), SETUP_H).await {
            Some(Ok(d)) => detached_rcv = Some(d),
            Some(Err((d, e))) => {
                obs.note(format!("  Receiver::detach -> err {e:?}"));
                detached_rcv = Some(d);
            }
            None => fail!("Receiver::detach did not return although the peer answers the detach"),
        }
    }
    cx.settle(2).await;
    if cx.view.link_alive(PCH, link_name) || !cx.view.sess_alive(PCH) {
        fail!("the link is not detached / the session is gone after the non-closing detach");
    }
    cx.flush(&mut obs);

    // -- resume() in a task of its own; the peer withholds its attach
    obs.note(format!("== the application calls resume(); the library's attach lists its unsettled deliveries"));
    cx.peer.auto.attach = false;
    let mark_resume = cx.peer.trace.len();
    let mut h_snd: Option<JoinHandle<Result<Sender, String>>> = None;
    let mut h_rcv: Option<JoinHandle<Result<(String, Receiver), String>>> = None;
    if let Some(d) = detached_snd.take() {
        h_snd = Some(tokio::spawn(async move { d.resume().await.map_err(|e| format!("{:?}", e.kind)) }));
    }
    if let Some(d) = detached_rcv.take() {
        h_rcv = Some(tokio::spawn(async move {
            match d.resume().await {
                Ok(r) => {
                    let v = format!("{r:?}");
                    let v = v.split('(').next().unwrap_or("").to_string();
                    Ok((v, r.into_receiver()))
                }
                Err(e) => Err(format!("{:?}", e.kind)),
            }
        }));
    }
    cx.settle(2).await;
    let lib_attach = cx.peer.trace[mark_resume..].iter().find_map(|w| match (w.dir, w.perf()) {
        (Dirn::FromLib, Some(Performative::Attach(a))) if a.name == link_name => Some(a.clone()),
        _ => None,
    });
    let Some(lib_attach) = lib_attach else { fail!("resume() put no attach on the wire") };
    obs.note(format!("  the library's attach: handle {} unsettled = {} incomplete-unsettled={}", lib_attach.handle.0, show_map(&lib_attach.unsettled), lib_attach.incomplete_unsettled));
    let listed: Vec<Vec<u8>> = lib_attach.unsettled.as_ref().map(|m| m.keys().map(|k| k.to_vec()).collect()).unwrap_or_default();
    if sp.side == Side::Sender {
        // non-vacuity: the sender really holds the deliveries as unsettled
        if right.iter().any(|(t, _)| !listed.contains(t)) {
            fail!("the resuming sender's attach does not list the unsettled deliveries {:?}: {:?}", right, listed);
        }
    } else if !listed.iter().any(|t| right.iter().any(|(r, _)| r == t)) {
        fail!("the resuming receiver's attach lists none of its unsettled deliveries {:?}: {:?}", right, listed);
    }
    if h_snd.as_ref().is_some_and(|h| h.is_finished()) || h_rcv.as_ref().is_some_and(|h| h.is_finished()) {
        fail!("resume() returned before the peer's attach");
    }
    let lib_handle = lib_attach.handle.0;
    if let Some(l) = cx.peer.links.iter_mut().find(|l| l.lib_channel == 0 && l.lib_handle == lib_handle && !l.detached) {
        l.our_handle = H_LINK;
    }
    obs.reached = true;
    cx.flush(&mut obs);

    // ---- the bad input: the peer's attach with the lying unsettled map
    obs.note(format!("== bad input: {}", case.describe()));
    let mark = cx.peer.trace.len();
    let saved_auto = cx.peer.auto.clone();
    cx.peer.auto = Auto { max_frame_size: saved_auto.max_frame_size, channel_offset: saved_auto.channel_offset, ..Auto::none() };
    cx.view.answering = false;
    let mut pa = peer_attach(link_name, H_LINK, sp.side == Side::Sender);
    pa.incomplete_unsettled = sp.incomplete;
    if sp.side == Side::Receiver {
        pa.initial_delivery_count = Some(peer_started);
    }
    pa.unsettled = match sp.lie {
        Lie::Absent => None,
        Lie::Empty => Some(OrderedMap::new()),
        lie => {
            let mut m = OrderedMap::new();
            if sp.tags != Tags::Unknown {
                for (t, len) in &right {
                    m.insert(serde_bytes::ByteBuf::from(t.clone()), lie.state(*len));
                }
            }
            if sp.tags != Tags::Right {
                m.insert(serde_bytes::ByteBuf::from(UNKNOWN_TAG.to_vec()), lie.state(right[0].1));
            }
            Some(m)
        }
    };
    obs.note(format!("  the peer's attach: unsettled = {} incomplete-unsettled={}", show_map(&pa.unsettled), pa.incomplete_unsettled));
    if let Some((start, _)) = ALLOC.get() {
        start();
    }
    let t0 = vlib::runner::thread_cpu_ms();
    let before = cx.peer.trace.len();
    cx.peer.send(PCH, Performative::Attach(pa));
    if sp.side == Side::Receiver {
        // the sender resumes the delivery it named: transfer(resume=true) with the same state
        let (tag, len) = if sp.tags == Tags::Unknown { (UNKNOWN_TAG.to_vec(), right[0].1) } else { right[0].clone() };
        let payload = if tag == b"p1" { rest.clone() } else { msg("delivered-not-yet-accepted") };
        let mut t = xfer(H_LINK, Some(next_did), None, false);
        t.delivery_tag = Some(serde_bytes::ByteBuf::from(tag));
        t.resume = true;
        t.state = sp.lie.state(len);
        next_did += 1;
        cx.peer.send_perf(PCH, Performative::Transfer(t), &payload);
    }
    obs.bad_bytes = cx.peer.trace[before..].iter().map(|w| w.size as usize).sum();
    cx.settle(3).await;
    obs.bad_ms = vlib::runner::thread_cpu_ms() - t0;
    if let Some((_, stop)) = ALLOC.get() {
        obs.max_alloc = stop().0;
    }
    cx.flush(&mut obs);
    obs.reaction = reaction_of(&cx, mark, &pipe);

    // ---- from here on the peer is conforming again and maximally helpful
    obs.note("== follow-up: the peer answers every detach/attach/end/close, grants credit, settles; the application awaits resume() and probes its handles");
    cx.peer.auto = saved_auto;
    cx.peer.auto.begin = true;
    cx.peer.auto.attach = true;
    cx.peer.auto.grant_credit = Some(100);
    cx.peer.auto.accept_transfers = true;
    cx.view.answering = true;
    cx.settle_all = true;
    cx.view.update(&mut cx.peer);
    cx.settle(2).await;
    if sp.side == Side::Sender && cx.view.link_alive(PCH, "snd") {
        // credit for the link the peer attached by hand
        let dc = resumed_delivery_count(&cx);
        if let Some(l) = cx.peer.links.iter_mut().find(|l| l.lib_channel == 0 && l.name == "snd" && !l.detached) {
            l.delivery_count = dc;
            let lh = l.lib_handle;
            cx.peer.grant(0, lh, 100);
        }
    }
    cx.settle(1).await;

    if let Some(mut h) = h_snd.take() {
        match jh(cx.drive(&mut h, HORIZON).await) {
            Some(Ok(res)) => {
                obs.probe("DetachedSender::resume", &Some(res.as_ref().map(|_| ()).map_err(|e| e.clone())));
                if let Ok(s) = res {
                    snd = Some(s);
                }
            }
            Some(Err(e)) => obs.probe_str("DetachedSender::resume", format!("err:{e}")),
            None => {
                obs.probe_str("DetachedSender::resume", "hang".into());
                h.abort();
            }
        }
    }
    if let Some(mut h) = h_rcv.take() {
        match jh(cx.drive(&mut h, HORIZON).await) {
            Some(Ok(res)) => {
                match &res {
                    Ok((v, _)) => {
                        obs.note(format!("  resume() -> ResumingReceiver::{v}"));
                        obs.probe::<(), String>("DetachedReceiver::resume", &Some(Ok(())));
                    }
                    Err(e) => obs.probe::<(), String>("DetachedReceiver::resume", &Some(Err(e.clone()))),
                }
                if let Ok((_, r)) = res {
                    rcv = Some(r);
                }
            }
            Some(Err(e)) => obs.probe_str("DetachedReceiver::resume", format!("err:{e}")),
            None => {
                obs.probe_str("DetachedReceiver::resume", "hang".into());
                h.abort();
            }
        }
    }
    // the deliveries that were unsettled at the detach: recorded, not judged
    for (name, fut) in unjudged {
        let o = match cx.drive(fut, Duration::from_millis(30)).await {
            None => "pending".to_string(),
            Some(s) if s.starts_with("Ok(") => "ok".to_string(),
            Some(s) => format!("err:{}", short(&s)),
        };
        obs.probe_str(&name, o);
    }

    // -- link probes
    if let Some(mut s) = snd.take() {
        if cx.view.link_alive(PCH, "snd") {
            let dc = resumed_delivery_count(&cx);
            if let Some(l) = cx.peer.links.iter_mut().find(|l| l.lib_channel == 0 && l.name == "snd" && !l.detached) {
                l.delivery_count = dc;
                let lh = l.lib_handle;
                cx.peer.grant(0, lh, 100);
            }
        }
        let r = cx.drive(s.send("probe"), HORIZON).await;
        obs.probe("Sender::send", &r);
        let r = cx.drive(s.close(), HORIZON).await;
        obs.probe("Sender::close", &r);
    }
    if let Some(mut rc) = rcv.take() {
        let r = cx.drive(rc.set_credit(10), HORIZON).await;
        obs.probe("Receiver::set_credit", &r);
        cx.settle(1).await;
        // a fresh delivery is within the credit under any way of counting the resumed one if the library
        // has just announced at least two credits
        let mut fed = false;
        if cx.view.link_alive(PCH, "rcv") && cx.view.lib_flow(PCH, "rcv").is_some_and(|f| f.1 >= 2) {
            cx.peer.send_perf(PCH, Performative::Transfer(xfer(H_LINK, Some(next_did), Some(format!("probe{next_did}")), false)), &msg("probe"));
            fed = true;
        }
        if fed || !cx.view.link_alive(PCH, "rcv") {
            let r = cx.drive(rc.recv::<Value>(), HORIZON).await;
            let r2 = r.map(|x| x.map_err(|e| format!("{e:?}")));
            obs.probe("Receiver::recv", &r2);
            if let Some(Ok(d)) = r2 {
                let r = cx.drive(rc.accept(&d), HORIZON).await;
                obs.probe("Receiver::accept", &r);
            }
        } else {
            obs.probe_str("Receiver::recv", "skipped:link up but the library announced no credit".into());
        }
        let r = cx.drive(rc.close(), HORIZON).await;
        obs.probe("Receiver::close", &r);
    }

    // -- session probes
    {
        let r = match &mut sess {
            Sess::C(x) => cx.drive(Sender::attach(x, "probe", "q"), HORIZON).await,
            Sess::L(x) => cx.drive(Sender::attach(x, "probe", "q"), HORIZON).await,
        };
        let r = r.map(|x| x.map_err(|e| format!("{e:?}")));
        obs.probe("Sender::attach(new link)", &r);
        if let Some(Ok(mut p)) = r {
            let r = cx.drive(p.send("on-probe-link"), HORIZON).await;
            obs.probe("probe-link send", &r);
            let r = cx.drive(p.close(), HORIZON).await;
            obs.probe("probe-link close", &r);
        }
        let r = match &mut sess {
            Sess::C(x) => cx.drive(x.end(), HORIZON).await,
            Sess::L(x) => cx.drive(x.end(), HORIZON).await,
        };
        obs.probe("session.end", &r);
    }
    // -- connection probes
    match &mut conn {
        Conn::C(x) => {
            let r = cx.drive(Session::begin(x), HORIZON).await;
            let r = r.map(|x| x.map_err(|e| format!("{e:?}")));
            obs.probe("Session::begin(new session)", &r);
            if let Some(Ok(mut s2)) = r {
                let r = cx.drive(s2.end(), HORIZON).await;
                obs.probe("new session end", &r);
            }
        }
        Conn::L(x) => {
            if cx.view.conn_alive() || cx.view.lib_close {
                if cx.view.conn_alive() {
                    cx.peer.send(7, Performative::Begin(peer_begin(None)));
                }
                let r = cx.drive(sacc.accept(x), HORIZON).await;
                let r = r.map(|x| x.map_err(|e| format!("{e:?}")));
                obs.probe("SessionAcceptor::accept(new session)", &r);
                if let Some(Ok(mut s2)) = r {
                    let r = cx.drive(s2.end(), HORIZON).await;
                    obs.probe("new session end", &r);
                }
            } else {
                obs.probe_str("SessionAcceptor::accept(new session)", "skipped:the peer has sent a close, the library none".into());
            }
        }
    }
    let r = match &mut conn {
        Conn::C(x) => cx.drive(x.close(), HORIZON).await,
        Conn::L(x) => cx.drive(x.close(), HORIZON).await,
    };
    obs.probe("connection.close", &r);
    cx.settle(1).await;
    cx.flush(&mut obs);

    match bystander_ping(&mut bys).await {
        Ok(()) => obs.note("  independent connection: send/recv ok"),
        Err(e) => {
            obs.note(format!("  independent connection: {e}"));
            obs.bystander = Some(e);
        }
    }
    obs.completed = true;
    obs
}
