//! C10 - reassembly is independent of how the peer fragments a delivery.
//!
//! A real `Receiver` (client side: real Connection + Session + two receiver links over a `vpipe`) is fed by
//! the scripted peer, which plays the sending side and hand-fragments every delivery.  Bounded-exhaustive
//! enumeration over: a small corpus of message shapes x every partition of the encoded bytes into <= 3
//! transfer frames, the all-1-byte partition, an empty-payload frame at every position x the 8 choices of
//! {delivery-id, delivery-tag, message-format} repeated/omitted on continuation frames x a second link's
//! 2-frame delivery interleaved at every position x abort at every position followed by a normal delivery
//! x contradictory continuation fields (on a middle / the last frame) x what follows them on the same link
//! (nothing, a 1-frame delivery, a 2-frame delivery, two deliveries).
//!
//! An application task per link loops `recv::<Body<Value>>()` (+ `accept`) and reports every result on a
//! channel; the harness injects ONE frame, waits for quiescence (paused clock) and looks at the channel.
//! So "what the application has received when frame k has been processed" is exact.
//!
//! Oracle (the statement's words, nothing more):
//!  * nothing is received before the last frame of a delivery has arrived;
//!  * at the last frame exactly one message is received, on the right link, equal to the message the peer
//!    encoded (`Body::Empty` and amqp-value(null) are the same thing on the wire and compare equal);
//!  * an aborted delivery yields nothing, and the following delivery arrives like any other;
//!  * a continuation frame whose delivery-id / delivery-tag / message-format contradicts the first frame is
//!    *reported as an error*: `recv` returns `Err`, or (permissive reading) the library closes the link /
//!    session / connection with an error on the wire.  Any `Ok(delivery)` for such a delivery is a violation.
//!    The contradictory delivery ends with its last frame like any other: well-formed deliveries that the peer
//!    sends behind it on the same link are messages like any other (exactly once, unchanged, at their last
//!    frame) - unless the library chose to close the link, then they are not judged.  How often the error is
//!    reported is not judged.  (Such a case always ends its connection.)
//!  * only the message is compared; the delivery-id/tag/format reported in `Delivery` and the result of
//!    `accept` are recorded but not judged (the statement does not speak about them).
use crate::typed::gen_message;
use fe2o3_amqp::link::{CreditMode, RecvError};
use fe2o3_amqp::{Connection, Receiver, Session};
use fe2o3_amqp_types::definitions::Handle;
use fe2o3_amqp_types::messaging::message::__private::{Deserializable, Serializable};
use fe2o3_amqp_types::messaging::{AmqpValue, Body, Message};
use fe2o3_amqp_types::performatives::*;
use serde::{Deserialize, Serialize};
use serde_amqp::Value;
use serde_bytes::ByteBuf;
use serde_json::json;
use std::collections::{BTreeMap, BTreeSet, HashSet};
use std::sync::atomic::{AtomicBool, Ordering};
use std::sync::Arc;
use std::time::{Duration, Instant};
use vlib::peer::{drive, trace_to_strings, value_len, Auto, Body as WBody, Dirn, Peer};
use vlib::report::{Ctx, Outcome};
use vlib::runner::{run_exec, RunCfg, Scenario};
use vlib::util::{h64, hex, par_map};
use vlib::vpipe::Pipe;

type Msg = Message<Body<Value>>;

// ------------------------------------------------------------------------------------------- corpus
/// (mask, alt) arguments of `typed::gen_message`: section subsets x body kinds
/// (bits 0 header, 1 delivery-annotations, 2 message-annotations, 3 properties, 4 application-properties,
/// 5 footer; body kind = mask >> 6: 0 value, 1 data, 2 data x2, 3 sequence, 4 sequence x2, 5 empty)
const SHAPES: [(u64, bool); 8] = [
    (0b000001 | (0 << 6), false), // header + amqp-value(string)
    (0b001000 | (1 << 6), false), // properties + data
    (0b010110 | (3 << 6), false), // delivery-annotations + message-annotations + application-properties + sequence
    (0b100001 | (4 << 6), false), // header + footer + sequence x2
    (0b001001 | (2 << 6), false), // header + properties + data x2 (second one empty)
    (0b101000 | (5 << 6), false), // properties + footer, empty body
    (0b111111 | (0 << 6), false), // every section + amqp-value
    (0b001000 | (0 << 6), true),  // big properties + amqp-value(map with an array)
];
/// one large body (data of 300 bytes: vbin32 with a 4-byte length field): enumerated in the thorough tier,
/// in the quick tier only the partner of interleaved deliveries and one sample
const BIG_SHAPE: (u64, bool) = (0b000001 | (1 << 6), true);

#[derive(Debug, Clone)]
pub struct Shape {
    pub mask: u64,
    pub alt: bool,
    pub bytes: Vec<u8>,
    /// the message as the application must see it (normalised)
    pub expected: Msg,
    /// start offset of every section
    pub sections: Vec<usize>,
    /// offsets c such that a cut at c lies strictly inside a 3-byte section header
    pub in_header: BTreeSet<usize>,
    /// offsets c such that a cut at c lies inside constructor+size(+count) of a section's value
    pub in_length: BTreeSet<usize>,
    /// the offsets tried when the full offset range is too expensive
    pub interesting: Vec<usize>,
}

/// `Body::Empty` is written as amqp-value(null): both forms are the same message
fn normalise(mut m: Msg) -> Msg {
    if matches!(&m.body, Body::Value(AmqpValue(Value::Null))) {
        m.body = Body::Empty;
    }
    m
}

fn make_shape(mask: u64, alt: bool) -> Result<Shape, String> {
    let (m, _, _) = gen_message(mask, alt);
    let bytes = serde_amqp::to_vec(&Serializable(&m)).map_err(|e| format!("encode: {e}"))?;
    let expected = normalise(m);
    // the codec itself must round-trip this shape in one piece (that is C03's business, not ours)
    let back = serde_amqp::from_slice::<Deserializable<Msg>>(&bytes).map_err(|e| format!("one-piece decode: {e}"))?;
    if normalise(back.0) != expected {
        return Err("one-piece decode differs from the original".into());
    }
    // section structure, parsed independently of the library (peer::value_len knows only format codes)
    let mut sections = vec![];
    let mut in_header = BTreeSet::new();
    let mut in_length = BTreeSet::new();
    let mut interesting = BTreeSet::new();
    let mut pos = 0;
    while pos < bytes.len() {
        let n = value_len(&bytes[pos..]).ok_or_else(|| format!("cannot parse section at {pos}"))?;
        sections.push(pos);
        // 0x00 0x53 code | value
        let dlen = 1 + value_len(&bytes[pos + 1..]).ok_or("descriptor")?;
        for c in pos + 1..pos + dlen {
            in_header.insert(c);
        }
        let v = pos + dlen;
        let code = bytes[v];
        let w = match code >> 4 {
            0xa => 1,
            0xc | 0xe => 2,
            0xb => 4,
            0xd | 0xf => 8,
            _ => 0,
        };
        for c in v + 1..=v + w {
            if c < pos + n {
                in_length.insert(c);
            }
        }
        for c in pos..(pos + dlen + 1 + w + 2).min(pos + n) {
            interesting.insert(c);
        }
        interesting.insert(pos + n - 1);
        pos += n;
    }
    interesting.insert(1);
    interesting.insert(bytes.len() / 2);
    let len = bytes.len();
    let interesting: Vec<usize> = interesting.into_iter().filter(|c| *c >= 1 && *c < len).collect();
    Ok(Shape {
        mask,
        alt,
        bytes,
        expected,
        sections,
        in_header,
        in_length,
        interesting,
    })
}

/// the corpus is the same in both tiers and in replays (case.msg indexes it); the quick tier enumerates
/// the first 8 shapes only
fn corpus() -> (Vec<Shape>, Vec<String>) {
    let mut v = vec![];
    let mut dropped = vec![];
    let mut list: Vec<(u64, bool)> = SHAPES.to_vec();
    list.push(BIG_SHAPE);
    for (mask, alt) in list {
        match make_shape(mask, alt) {
            Ok(s) => v.push(s),
            Err(e) => dropped.push(format!("message shape mask={mask:#b} alt={alt} left out: {e}")),
        }
    }
    (v, dropped)
}

// ------------------------------------------------------------------------------------------- cases
#[derive(Debug, Clone, PartialEq, Eq, Hash, Serialize, Deserialize)]
pub enum Kind {
    /// the delivery alone
    Plain,
    /// a 2-frame delivery on the second link: its first frame goes before frame `i` of the main delivery,
    /// its second frame before frame `j` (i <= j <= number of frames; == number of frames means "after")
    Interleave { i: u16, j: u16 },
    /// `after` frames of the partition (all with more=true), then a transfer with aborted=true (carrying a
    /// junk payload if `junk`), then the same message as a normal delivery with the same partition
    Abort { after: u16, junk: bool },
    /// continuation frame `frame` (>= 1) carries a different delivery-id (0) / delivery-tag (1) / message-format (2);
    /// all frames of that delivery are sent, then `follow` says what the peer sends next on the same link:
    /// 0 nothing, 1 a well-formed 1-frame delivery, 2 a well-formed 2-frame delivery, 3 a 2-frame and then a
    /// 1-frame delivery (other messages of the corpus than the contradictory one)
    Contra {
        frame: u16,
        field: u8,
        #[serde(default)]
        follow: u8,
    },
}

#[derive(Debug, Clone, PartialEq, Eq, Hash, Serialize, Deserialize)]
pub struct Case {
    /// index into the corpus
    pub msg: u8,
    /// split offsets, non-decreasing, each in 0..=len: frame k carries bytes[cuts[k-1]..cuts[k]]
    /// (repeated offsets, 0 and len give empty-payload frames)
    pub cuts: Vec<u16>,
    /// continuation frames repeat: bit 0 delivery-id, bit 1 delivery-tag, bit 2 message-format (else omitted)
    pub cont: u8,
    /// the first frame says settled=true (pre-settled delivery); otherwise settled is left out everywhere
    #[serde(default)]
    pub settled: bool,
    pub kind: Kind,
}

impl Case {
    fn nframes(&self) -> usize {
        self.cuts.len() + 1
    }
    fn has_empty(&self, len: usize) -> bool {
        let mut prev = 0usize;
        for c in self.cuts.iter().map(|c| *c as usize).chain(std::iter::once(len)) {
            if c == prev {
                return true;
            }
            prev = c;
        }
        false
    }
    /// family of the case: the shape part of a violation signature
    fn family(&self, len: usize) -> String {
        let part = if self.nframes() == len && len > 3 {
            "all-1-byte".to_string()
        } else if self.has_empty(len) {
            "empty-frame".to_string()
        } else {
            format!("frames={}", self.nframes())
        };
        match &self.kind {
            Kind::Plain => part,
            Kind::Interleave { .. } => "interleaved".into(),
            Kind::Abort { .. } => "after-abort".into(),
            Kind::Contra { frame, field, .. } => format!(
                "field={} at={}",
                ["delivery-id", "delivery-tag", "message-format"][*field as usize % 3],
                if *frame as usize + 1 == self.nframes() { "last" } else { "middle" }
            ),
        }
    }
    fn is_terminal(&self) -> bool {
        matches!(self.kind, Kind::Contra { .. })
    }
    /// number of well-formed deliveries that follow the contradictory one
    fn followers(&self) -> usize {
        match self.kind {
            Kind::Contra { follow, .. } => [0, 1, 1, 2][follow as usize % 4],
            _ => 0,
        }
    }
}

fn plain(msg: usize, cuts: &[usize], cont: u8) -> Case {
    Case {
        msg: msg as u8,
        cuts: cuts.iter().map(|c| *c as u16).collect(),
        cont,
        settled: false,
        kind: Kind::Plain,
    }
}

fn mk(msg: usize, cuts: &[usize], cont: u8, kind: Kind) -> Case {
    Case {
        msg: msg as u8,
        cuts: cuts.iter().map(|c| *c as u16).collect(),
        cont,
        settled: false,
        kind,
    }
}

/// The enumeration of one tier.  Every case is generated exactly once.
///
/// quick: the 8 small shapes (23..103 bytes); thorough: additionally the 327-byte shape, 4-frame partitions of
/// the shapes below 40 bytes and the denser variants marked below.
fn enumerate(corpus: &[Shape], quick: bool, deep: bool) -> Vec<Case> {
    let mut v = vec![];
    let nshapes = if quick { corpus.len().min(SHAPES.len()) } else { corpus.len() };
    let all_conts: Vec<u8> = (0..8).collect();
    let two_conts: Vec<u8> = vec![0, 7];
    for (mi, s) in corpus.iter().enumerate().take(nshapes) {
        let len = s.bytes.len();
        let all: Vec<usize> = (1..len).collect();
        let int = &s.interesting;
        // a handful of offsets: inside the first/last section header, inside the first/last length field, at
        // a section boundary, the middle, the last byte
        let mut few: Vec<usize> = vec![];
        for c in [
            s.in_header.iter().next().copied(),
            s.in_length.iter().next().copied(),
            s.sections.get(1).copied(),
            s.in_header.iter().last().copied(),
            s.in_length.iter().last().copied(),
            Some(len / 2),
            Some(len - 1),
        ]
        .into_iter()
        .flatten()
        {
            if c >= 1 && c < len && !few.contains(&c) {
                few.push(c);
            }
        }
        few.sort();
        let dense: &Vec<usize> = if quick { int } else { &all };
        // (a) one frame
        v.push(plain(mi, &[], 0));
        // (b) two frames: every offset x all 8 continuation choices
        for a in &all {
            for c in &all_conts {
                v.push(plain(mi, &[*a], *c));
            }
        }
        // (c) three frames: all pairs of offsets x all 8 continuation choices
        for (x, a) in all.iter().enumerate() {
            for b in &all[x + 1..] {
                for c in &all_conts {
                    v.push(plain(mi, &[*a, *b], *c));
                }
            }
        }
        // (c') thorough: four frames, all triples of offsets, for the shapes below 40 bytes
        if !quick && len < if deep { 60 } else { 40 } {
            for (x, a) in all.iter().enumerate() {
                for (y, b) in all.iter().enumerate().skip(x + 1) {
                    for c3 in &all[y + 1..] {
                        for c in &two_conts {
                            v.push(plain(mi, &[*a, *b, *c3], *c));
                        }
                    }
                }
            }
        }
        // (d) the all-1-byte partition
        for c in &all_conts {
            v.push(plain(mi, &all, *c));
        }
        // (e) an empty-payload frame inserted at every position of the 1- and 2-frame partitions
        for c in &two_conts {
            v.push(plain(mi, &[0], *c));
            v.push(plain(mi, &[len], *c));
        }
        for a in &all {
            for c in &two_conts {
                v.push(plain(mi, &[0, *a], *c));
                v.push(plain(mi, &[*a, *a], *c));
                v.push(plain(mi, &[*a, len], *c));
            }
        }
        // ... and of the 3-frame partitions at a few (thorough: the interesting) offsets
        let e3: &Vec<usize> = if quick { &few } else { int };
        for (x, a) in e3.iter().enumerate() {
            for b in &e3[x + 1..] {
                for cuts in [[0, *a, *b], [*a, *a, *b], [*a, *b, *b], [*a, *b, len]] {
                    v.push(plain(mi, &cuts, 0));
                }
            }
        }
        // (e') pre-settled deliveries (settled=true on the first frame): the library decodes them on another path
        for a in &all {
            for c in &two_conts {
                let mut k = plain(mi, &[*a], *c);
                k.settled = true;
                v.push(k);
            }
        }
        // (f) a second link's 2-frame delivery interleaved at every position
        for (i, j) in [(0u16, 0u16), (0, 1), (1, 1)] {
            v.push(mk(mi, &[], 0, Kind::Interleave { i, j }));
        }
        for a in &all {
            for i in 0..=2u16 {
                for j in i..=2u16 {
                    for c in &all_conts {
                        v.push(mk(mi, &[*a], *c, Kind::Interleave { i, j }));
                    }
                }
            }
        }
        for (x, a) in dense.iter().enumerate() {
            for b in &dense[x + 1..] {
                for i in 0..=3u16 {
                    for j in i..=3u16 {
                        v.push(mk(mi, &[*a, *b], if (i + j) % 2 == 0 { 0 } else { 7 }, Kind::Interleave { i, j }));
                    }
                }
            }
        }
        // (g) abort at every position (with and without a junk payload on the aborting frame), then a normal delivery
        for a in &all {
            for after in 0..=2u16 {
                for junk in [false, true] {
                    for c in &all_conts {
                        v.push(mk(mi, &[*a], *c, Kind::Abort { after, junk }));
                    }
                }
            }
        }
        for (x, a) in dense.iter().enumerate() {
            for b in &dense[x + 1..] {
                for after in 0..=3u16 {
                    v.push(mk(mi, &[*a, *b], if after % 2 == 0 { 0 } else { 7 }, Kind::Abort { after, junk: after % 2 == 1 }));
                }
            }
        }
        for p in 0..=len {
            v.push(mk(mi, &all, if p % 2 == 0 { 0 } else { 7 }, Kind::Abort { after: p as u16, junk: p % 3 == 0 }));
        }
        // (h) contradictory continuation fields: on the last frame of 2 frames, on the middle or the last of 3;
        // each x what the peer sends afterwards on the same link (nothing / a 1-frame delivery / a 2-frame
        // delivery / two deliveries): the contradiction must not disturb what follows it
        for a in &all {
            for field in 0..3u8 {
                for c in &two_conts {
                    for follow in 0..4u8 {
                        v.push(mk(mi, &[*a], *c, Kind::Contra { frame: 1, field, follow }));
                    }
                }
            }
        }
        for (x, a) in few.iter().enumerate() {
            for b in &few[x + 1..] {
                for frame in 1..=2u16 {
                    for field in 0..3u8 {
                        for follow in 0..4u8 {
                            v.push(mk(mi, &[*a, *b], if (frame + follow as u16) % 2 == 1 { 0 } else { 7 }, Kind::Contra { frame, field, follow }));
                        }
                    }
                }
            }
        }
        // ... on an empty-payload frame (nothing to splice, still contradictory), and after an empty frame
        for field in 0..3u8 {
            for follow in 0..4u8 {
                v.push(mk(mi, &[len], 0, Kind::Contra { frame: 1, field, follow }));
                v.push(mk(mi, &[len / 2, len / 2], 7, Kind::Contra { frame: 2, field, follow }));
            }
        }
    }
    v
}

// ------------------------------------------------------------------------------------------- script
struct Fr {
    link: usize,
    t: Transfer,
    payload: Vec<u8>,
    /// this frame completes a delivery of corpus message `.1` on link `.0`
    done: Option<(usize, usize)>,
}

struct Ids {
    next_id: u32,
    next_tag: u32,
    handles: [u32; 2],
}

impl Ids {
    fn fresh(&mut self) -> (u32, Vec<u8>) {
        let id = self.next_id;
        self.next_id += 1;
        let tag = self.next_tag;
        self.next_tag += 1;
        (id, format!("t{tag}").into_bytes())
    }
}

fn transfer(handle: u32, first: bool, cont: u8, id: u32, tag: &[u8], more: bool) -> Transfer {
    Transfer {
        handle: Handle(handle),
        delivery_id: if first || cont & 1 != 0 { Some(id) } else { None },
        delivery_tag: if first || cont & 2 != 0 { Some(ByteBuf::from(tag.to_vec())) } else { None },
        message_format: if first || cont & 4 != 0 { Some(0) } else { None },
        settled: None,
        more,
        rcv_settle_mode: None,
        state: None,
        resume: false,
        aborted: false,
        batchable: false,
    }
}

fn chunks(bytes: &[u8], cuts: &[u16]) -> Vec<Vec<u8>> {
    let mut out = vec![];
    let mut prev = 0usize;
    for c in cuts.iter().map(|c| *c as usize).chain(std::iter::once(bytes.len())) {
        let c = c.min(bytes.len()).max(prev);
        out.push(bytes[prev..c].to_vec());
        prev = c;
    }
    out
}

/// frames of one whole delivery of corpus message `msg` on `link`
fn delivery(corpus: &[Shape], link: usize, msg: usize, cuts: &[u16], cont: u8, settled: bool, ids: &mut Ids) -> Vec<Fr> {
    let (id, tag) = ids.fresh();
    let ch = chunks(&corpus[msg].bytes, cuts);
    let n = ch.len();
    ch.into_iter()
        .enumerate()
        .map(|(k, payload)| {
            let mut t = transfer(ids.handles[link], k == 0, cont, id, &tag, k + 1 < n);
            if settled && k == 0 {
                t.settled = Some(true);
            }
            Fr {
                link,
                t,
                payload,
                done: if k + 1 == n { Some((link, msg)) } else { None },
            }
        })
        .collect()
}

fn build_unit(corpus: &[Shape], case: &Case, ids: &mut Ids) -> Vec<Fr> {
    let msg = case.msg as usize % corpus.len();
    match &case.kind {
        Kind::Plain => delivery(corpus, 0, msg, &case.cuts, case.cont, case.settled, ids),
        Kind::Interleave { i, j } => {
            let other = (msg + 1) % corpus.len();
            let half = (corpus[other].bytes.len() / 2) as u16;
            let k = case.nframes();
            let (i, j) = ((*i as usize).min(k), (*j as usize).min(k));
            // delivery-ids follow the order of the first frames
            let (a, b) = if i == 0 {
                let b = delivery(corpus, 1, other, &[half], case.cont, case.settled, ids);
                let a = delivery(corpus, 0, msg, &case.cuts, case.cont, case.settled, ids);
                (a, b)
            } else {
                let a = delivery(corpus, 0, msg, &case.cuts, case.cont, case.settled, ids);
                let b = delivery(corpus, 1, other, &[half], case.cont, case.settled, ids);
                (a, b)
            };
            let mut b = b.into_iter();
            let mut out = vec![];
            let mut a = a.into_iter();
            for pos in 0..=k {
                if pos == i {
                    out.push(b.next().unwrap());
                }
                if pos == j {
                    out.push(b.next().unwrap());
                }
                if pos < k {
                    out.push(a.next().unwrap());
                }
            }
            out
        }
        Kind::Abort { after, junk } => {
            let k = case.nframes();
            let p = (*after as usize).min(k);
            let mut first = delivery(corpus, 0, msg, &case.cuts, case.cont, case.settled, ids);
            first.truncate(p);
            let (id, tag) = match first.first() {
                Some(f) => (f.t.delivery_id.unwrap(), f.t.delivery_tag.clone().unwrap().into_vec()),
                None => {
                    // the aborted transfer is the first frame of its delivery: it uses the id/tag taken above
                    (ids.next_id - 1, format!("t{}", ids.next_tag - 1).into_bytes())
                }
            };
            for f in first.iter_mut() {
                f.t.more = true;
                f.done = None;
            }
            let mut ab = transfer(ids.handles[0], p == 0, case.cont, id, &tag, false);
            ab.aborted = true;
            // "aborted takes precedence over more" (2.7.5): half of the abort frames also say more=true
            ab.more = (p + case.msg as usize + case.cont as usize) % 2 == 0;
            first.push(Fr {
                link: 0,
                t: ab,
                // "any payload within the frame carrying the performative MUST be ignored": a well-formed
                // extra section, so that a receiver that keeps it visibly changes the message
                payload: if *junk { vec![0x00, 0x53, 0x75, 0xa0, 0x03, b'b', b'a', b'd'] } else { vec![] },
                done: None,
            });
            first.extend(delivery(corpus, 0, msg, &case.cuts, case.cont, case.settled, ids));
            first
        }
        Kind::Contra { frame, field, follow } => {
            let mut d = delivery(corpus, 0, msg, &case.cuts, case.cont, case.settled, ids);
            let f = (*frame as usize).clamp(1, d.len().max(2) - 1).min(d.len() - 1);
            let first_id = d[0].t.delivery_id.unwrap();
            match field % 3 {
                // a delivery-id nobody else uses (ids.fresh() would collide with the next delivery)
                0 => d[f].t.delivery_id = Some(first_id.wrapping_add(1_000_000)),
                1 => d[f].t.delivery_tag = Some(ByteBuf::from(b"other-tag".to_vec())),
                _ => d[f].t.message_format = Some(1),
            }
            for x in d.iter_mut() {
                x.done = None;
            }
            // the well-formed deliveries behind it: other messages than the contradictory one, so that a
            // message made of both is never equal to an expected one
            let n = corpus.len();
            let (m1, m2) = ((msg + 1) % n, (msg + 2) % n);
            let half = |m: usize| (corpus[m].bytes.len() / 2) as u16;
            match follow % 4 {
                0 => {}
                1 => d.extend(delivery(corpus, 0, m1, &[], case.cont, case.settled, ids)),
                2 => d.extend(delivery(corpus, 0, m1, &[half(m1)], case.cont, case.settled, ids)),
                _ => {
                    d.extend(delivery(corpus, 0, m1, &[half(m1)], case.cont, case.settled, ids));
                    d.extend(delivery(corpus, 0, m2, &[], case.cont, case.settled, ids));
                }
            }
            d
        }
    }
}

// ------------------------------------------------------------------------------------------- scenario
#[derive(Debug)]
enum Ev {
    Ok { link: usize, msg: Box<Msg>, id: u32, tag: Vec<u8>, fmt: Option<u32> },
    Err { link: usize, variant: String, text: String },
    AcceptErr { link: usize, text: String },
}

fn variant_of(e: &RecvError) -> String {
    let s = format!("{:?}", e);
    s.split(|c: char| !(c.is_alphanumeric() || c == '_')).next().unwrap_or("").to_string()
}

#[derive(Debug, Clone, Copy, PartialEq, Eq, Serialize, Deserialize)]
pub enum Mode {
    /// one frame, quiescence, look; one frame, ...
    Step,
    /// all frames of a case in one write, then quiescence
    Burst,
}

#[derive(Debug, Clone, Default)]
pub struct Fail {
    pub unit: usize,
    pub sig: String,
    pub detail: String,
    pub trace: Vec<String>,
}

#[derive(Debug, Clone, Default)]
pub struct BatchObs {
    pub setup_error: Option<String>,
    /// units judged (all of them passed except possibly the failing one)
    pub judged: usize,
    pub fail: Option<Fail>,
    pub frames_sent: u64,
    /// deliveries the application received complete that had arrived in >= 2 transfer frames
    pub multi_frame_received: u64,
    pub deliveries_received: u64,
    pub early_checks: u64,
    /// well-formed deliveries sent behind a contradictory one on the same link and received intact
    pub after_contra_received: u64,
    /// ... and not judged because the library had closed the link with an error
    pub after_contra_not_judged: u64,
    /// how contradictory deliveries were reported: RecvError variant (or wire:<frame>) -> count
    pub contra_reports: BTreeMap<String, u64>,
    pub accept_errors: Vec<String>,
    /// Delivery { id, tag, format } differing from the first frame (recorded, not judged)
    pub info_mismatch: Vec<String>,
    pub trace: Vec<String>,
}

fn spawn_app(link: usize, mut rx: Receiver, tx: std::sync::mpsc::Sender<Ev>) -> tokio::task::JoinHandle<()> {
    tokio::spawn(async move {
        let mut errors = 0;
        loop {
            match rx.recv::<Body<Value>>().await {
                Ok(d) => {
                    let _ = tx.send(Ev::Ok {
                        link,
                        msg: Box::new(d.message().clone()),
                        id: *d.delivery_id(),
                        tag: d.delivery_tag().to_vec(),
                        fmt: *d.message_format(),
                    });
                    if let Err(e) = rx.accept(&d).await {
                        let _ = tx.send(Ev::AcceptErr { link, text: e.to_string() });
                    }
                }
                Err(e) => {
                    let _ = tx.send(Ev::Err {
                        link,
                        variant: variant_of(&e),
                        text: e.to_string(),
                    });
                    // keep the link as it is (no detach from our side) and go on receiving, like an application that
                    // logs the error and carries on: a delivery that was reported as contradictory must not come
                    // back later as a message (a few rounds only: an error that repeats at once would spin)
                    errors += 1;
                    if errors > 3 {
                        std::future::pending::<()>().await;
                    }
                }
            }
        }
    })
}

fn describe_case(corpus: &[Shape], c: &Case) -> String {
    let s = &corpus[c.msg as usize % corpus.len()];
    let cuts = if c.cuts.len() > 8 { format!("[{} cuts: every byte]", c.cuts.len()) } else { format!("{:?}", c.cuts) };
    format!(
        "message shape #{} (mask={:#b} alt={} {} bytes, sections at {:?}) cuts={} continuation-fields(id,tag,format)={}{}{} {}",
        c.msg,
        s.mask,
        s.alt,
        s.bytes.len(),
        s.sections,
        cuts,
        if c.cont & 1 != 0 { "R" } else { "-" },
        if c.cont & 2 != 0 { "R" } else { "-" },
        if c.cont & 4 != 0 { "R" } else { "-" },
        if c.settled { format!("pre-settled {:?}", c.kind) } else { format!("{:?}", c.kind) }
    )
}

pub async fn scenario(corpus: Arc<Vec<Shape>>, cases: Vec<Case>, mode: Mode, want_trace: bool) -> BatchObs {
    let mut obs = BatchObs::default();
    let (pipe, a, _b) = Pipe::new();
    let mut auto = Auto::default();
    auto.max_frame_size = 4096;
    auto.outgoing_window = 1 << 30;
    auto.incoming_window = 1 << 20;
    let mut peer = Peer::new(pipe, 1, auto);
    let h = Duration::from_secs(10);
    // ---- start state: connection, session with a huge incoming window, two receiver links with plenty of credit
    let conn = drive(&mut peer, Connection::builder().container_id("c10").max_frame_size(4096).open_with_stream(a), h).await;
    let mut conn = match conn {
        Some(Ok(c)) => c,
        other => {
            obs.setup_error = Some(format!("open: {:?}", other.map(|r| r.map(|_| ()).map_err(|e| e.to_string()))));
            return obs;
        }
    };
    let sess = drive(&mut peer, Session::builder().incoming_window(1 << 24).begin(&mut conn), h).await;
    let mut sess = match sess {
        Some(Ok(s)) => s,
        other => {
            obs.setup_error = Some(format!("begin: {:?}", other.map(|r| r.map(|_| ()).map_err(|e| e.to_string()))));
            return obs;
        }
    };
    let (tx, events) = std::sync::mpsc::channel::<Ev>();
    let mut apps = vec![];
    for (k, name) in ["ra", "rb"].iter().enumerate() {
        let r = drive(
            &mut peer,
            Receiver::builder().name(*name).source("q").credit_mode(CreditMode::Auto(100_000)).attach(&mut sess),
            h,
        )
        .await;
        match r {
            Some(Ok(rx)) => apps.push(spawn_app(k, rx, tx.clone())),
            other => {
                obs.setup_error = Some(format!("attach {name}: {:?}", other.map(|r| r.map(|_| ()).map_err(|e| e.to_string()))));
                return obs;
            }
        }
    }
    tokio::time::sleep(Duration::from_millis(1)).await;
    peer.pump();
    tokio::time::sleep(Duration::from_millis(1)).await;
    let handle_of = |peer: &Peer, name: &str| peer.links.iter().find(|l| l.name == name).map(|l| l.our_handle);
    let (Some(ha), Some(hb)) = (handle_of(&peer, "ra"), handle_of(&peer, "rb")) else {
        obs.setup_error = Some("the peer did not see both attaches".into());
        return obs;
    };
    let credit_ok = peer.links.iter().all(|l| l.credit >= 1000);
    if !credit_ok || events.try_recv().is_ok() {
        obs.setup_error = Some(format!("start state not reached: credit {:?}", peer.links.iter().map(|l| l.credit).collect::<Vec<_>>()));
        return obs;
    }
    let ch = peer.our_channel(0);
    let mut ids = Ids {
        next_id: 0,
        next_tag: 0,
        handles: [ha, hb],
    };
    // ---- the cases
    for (ui, case) in cases.iter().enumerate() {
        let shape_len = corpus[case.msg as usize % corpus.len()].bytes.len();
        let fam = case.family(shape_len);
        let mark = peer.trace.len();
        let frames = build_unit(&corpus, case, &mut ids);
        let contra = case.is_terminal();
        // a contradictory unit = the frames of the contradictory delivery (judged as such), then the frames of
        // the well-formed deliveries behind it (judged like any other delivery - as long as the library has
        // left the link attached: reporting the contradiction by closing link/session/connection is allowed)
        let contra_frames = if contra { case.nframes() } else { 0 };
        let followers = case.followers();
        let fam_after = if contra { format!("after-contradiction {fam}") } else { fam.clone() };
        let mut link_gone = false;
        // frames of the delivery currently open on each link (to count real multi-frame deliveries)
        let mut open_frames: [usize; 2] = [0, 0];
        let mut cur_id: [u32; 2] = [0, 0];
        let mut fail: Option<(String, String)> = None;
        let mut got_err = false;
        // (link, corpus message, number of frames the delivery arrived in)
        let mut pending_expect: Vec<(usize, usize, usize)> = vec![];
        let nframes = frames.len();
        let abort_idx = frames.iter().position(|f| f.t.aborted);
        for (fi, fr) in frames.into_iter().enumerate() {
            let in_contra = fi < contra_frames;
            if open_frames[fr.link] == 0 {
                if let Some(id) = fr.t.delivery_id {
                    cur_id[fr.link] = id;
                }
            }
            open_frames[fr.link] += 1;
            let flink = fr.link;
            if fr.t.aborted {
                open_frames[flink] = 0;
            }
            if let Some((l, m)) = fr.done {
                pending_expect.push((l, m, open_frames[flink]));
                open_frames[flink] = 0;
            }
            peer.send_perf(ch, Performative::Transfer(fr.t), &fr.payload);
            obs.frames_sent += 1;
            if fi + 1 == contra_frames {
                // that was the last frame of the contradictory delivery
                open_frames[flink] = 0;
            }
            if mode == Mode::Burst && fi + 1 < nframes {
                continue;
            }
            tokio::time::sleep(Duration::from_millis(1)).await;
            if contra && fi + 1 >= contra_frames && followers > 0 {
                peer.pump();
                if wire_error_report(&peer.trace[mark..]).is_some() {
                    // the library reported the contradiction by closing the link (or more): the deliveries
                    // behind it have nowhere to go, they are not judged
                    link_gone = true;
                }
            }
            let got: Vec<Ev> = events.try_iter().collect();
            let mut oks: Vec<(usize, Box<Msg>)> = vec![];
            for ev in got {
                match ev {
                    Ev::Ok { link, msg, id, tag, fmt } => {
                        if !in_contra {
                            let want_tag_ok = tag.starts_with(b"t");
                            if id != cur_id[link] || !want_tag_ok || fmt != Some(0) {
                                if obs.info_mismatch.len() < 5 {
                                    obs.info_mismatch.push(format!("unit {ui}: Delivery reports id={id} tag={:?} format={:?}, first frame had id={}", tag, fmt, cur_id[link]));
                                }
                            }
                        }
                        oks.push((link, msg));
                    }
                    Ev::Err { link, variant, text } => {
                        got_err = true;
                        if contra {
                            *obs.contra_reports.entry(format!("recv:{variant}")).or_insert(0) += 1;
                        } else if fail.is_none() {
                            fail = Some((
                                format!("recv-error {variant} {fam}"),
                                format!("recv on link {link} returned Err({text}) although the peer sent only well-formed deliveries (after frame {fi} of the case)"),
                            ));
                        }
                    }
                    Ev::AcceptErr { link, text } => {
                        if obs.accept_errors.len() < 5 {
                            obs.accept_errors.push(format!("unit {ui} link {link}: {text}"));
                        }
                    }
                }
            }
            if in_contra {
                if let Some((link, m)) = oks.first() {
                    fail = Some((
                        format!("contradictory-accepted {fam}"),
                        format!(
                            "a continuation frame contradicted the first frame, yet recv on link {link} returned Ok with {} (after frame {fi}): {}",
                            if normalise((**m).clone()) == corpus[case.msg as usize % corpus.len()].expected { "the complete message, spliced from contradictory frames" } else { "a message that is not even the one sent" },
                            short_msg(m)
                        ),
                    ));
                }
            } else if link_gone {
                obs.after_contra_not_judged += pending_expect.len() as u64;
                break;
            } else if fail.is_none() {
                let fam = &fam_after;
                // expected completions at this quiescent point (Step: at most one; Burst: all of the case)
                let want = std::mem::take(&mut pending_expect);
                if mode == Mode::Step && want.is_empty() && !oks.is_empty() {
                    let (link, m) = &oks[0];
                    fail = Some((
                        format!("{} {fam}", if abort_idx.map(|a| fi <= a).unwrap_or(false) { "aborted-delivery-received" } else { "received-before-last-frame" }),
                        format!("after frame {fi} of the case (not the last frame of any delivery) recv on link {link} already returned a message: {}", short_msg(m)),
                    ));
                } else {
                    if mode == Mode::Step && want.is_empty() {
                        obs.early_checks += 1;
                    }
                    let mut oks_left = oks;
                    for (wl, wm, wn) in want {
                        let pos = oks_left.iter().position(|(l, _)| *l == wl);
                        match pos {
                            None => {
                                fail = Some((
                                    format!("{} {fam}", if oks_left.is_empty() { "nothing-received" } else { "received-on-wrong-link" }),
                                    format!(
                                        "the last frame of the delivery on link {wl} has been processed but recv has not returned it{}",
                                        if got_err { " (recv returned an error)" } else { "" }
                                    ),
                                ));
                                break;
                            }
                            Some(p) => {
                                let (_, m) = oks_left.remove(p);
                                obs.deliveries_received += 1;
                                if wn >= 2 {
                                    obs.multi_frame_received += 1;
                                }
                                if contra {
                                    obs.after_contra_received += 1;
                                }
                                if normalise((*m).clone()) != corpus[wm].expected {
                                    fail = Some((
                                        format!("message-changed {fam}"),
                                        format!("recv on link {wl} returned a message that differs from the one sent: {}", diff_msg(&normalise((*m).clone()), &corpus[wm].expected)),
                                    ));
                                    break;
                                }
                            }
                        }
                    }
                    if fail.is_none() && !oks_left.is_empty() {
                        fail = Some((
                            format!("received-twice {fam}"),
                            format!("{} more message(s) than deliveries completed: {}", oks_left.len(), short_msg(&oks_left[0].1)),
                        ));
                    }
                }
            }
            if fail.is_some() {
                break;
            }
        }
        peer.pump();
        if fail.is_none() && contra && !got_err {
            // permissive reading: the error may be reported by closing the link/session/connection with an error
            tokio::time::sleep(Duration::from_millis(1)).await;
            peer.pump();
            match wire_error_report(&peer.trace[mark..]) {
                Some(wr) => *obs.contra_reports.entry(wr.to_string()).or_insert(0) += 1,
                None => {
                    fail = Some((
                        format!("contradictory-unreported {fam}"),
                        "a continuation frame contradicted the first frame; recv reported no error and no detach/end/close with an error was sent".to_string(),
                    ))
                }
            }
        }
        obs.judged = ui + 1;
        if let Some((sig, detail)) = fail {
            let mut trace = vec![];
            trace.extend(peer.trace[mark..].iter().map(|w| format!("{} payload={}", w.short(), hex(&w.payload))));
            obs.fail = Some(Fail {
                unit: ui,
                sig,
                detail: format!("{detail}\n    case: {}", describe_case(&corpus, case)),
                trace,
            });
            break;
        }
    }
    // ---- nothing may arrive afterwards
    if obs.fail.is_none() {
        tokio::time::sleep(Duration::from_millis(2)).await;
        if let Some(Ev::Ok { link, msg, .. }) = events.try_iter().find(|e| matches!(e, Ev::Ok { .. })) {
            obs.fail = Some(Fail {
                unit: cases.len().saturating_sub(1),
                sig: "received-twice trailing".into(),
                detail: format!("after all deliveries were received recv on link {link} returned one more message: {}", short_msg(&msg)),
                trace: vec![],
            });
        }
    }
    if want_trace {
        obs.trace = trace_to_strings(&peer.trace);
    }
    for a in &apps {
        a.abort();
    }
    drop(sess);
    drop(conn);
    obs
}

/// the library closed the link / session / connection with an error (the permissive way of reporting a
/// contradictory delivery)
fn wire_error_report(trace: &[vlib::peer::WFrame]) -> Option<&'static str> {
    trace.iter().find_map(|w| match (&w.body, w.dir) {
        (WBody::Perf(Performative::Detach(d)), Dirn::FromLib) if d.error.is_some() => Some("wire:detach"),
        (WBody::Perf(Performative::End(d)), Dirn::FromLib) if d.error.is_some() => Some("wire:end"),
        (WBody::Perf(Performative::Close(d)), Dirn::FromLib) if d.error.is_some() => Some("wire:close"),
        _ => None,
    })
}

fn clip(s: String) -> String {
    if s.chars().count() > 160 {
        format!("{}..(+{} chars)", s.chars().take(160).collect::<String>(), s.chars().count() - 160)
    } else {
        s
    }
}

/// the sections in which two messages differ
fn diff_msg(got: &Msg, want: &Msg) -> String {
    let mut d = vec![];
    macro_rules! f {
        ($name:ident) => {
            if got.$name != want.$name {
                d.push(format!("{}: got {} expected {}", stringify!($name), clip(format!("{:?}", got.$name)), clip(format!("{:?}", want.$name))));
            }
        };
    }
    f!(header);
    f!(delivery_annotations);
    f!(message_annotations);
    f!(properties);
    f!(application_properties);
    f!(body);
    f!(footer);
    d.join("; ")
}

fn short_msg(m: &Msg) -> String {
    let s = format!("{:?}", m);
    if s.chars().count() > 400 {
        format!("{}..(+{} chars)", s.chars().take(400).collect::<String>(), s.chars().count() - 400)
    } else {
        s
    }
}

// ------------------------------------------------------------------------------------------- driver
#[derive(Debug, Default)]
struct BatchRun {
    obs: BatchObs,
    machinery: Option<String>,
    lib_panics: Vec<String>,
    spun: bool,
}

fn run_batch(corpus: &Arc<Vec<Shape>>, cases: &[Case], mode: Mode, want_trace: bool) -> BatchRun {
    let scen: Scenario<BatchObs> = {
        let corpus = corpus.clone();
        let cases = cases.to_vec();
        Arc::new(move || Box::pin(scenario(corpus.clone(), cases.clone(), mode, want_trace)))
    };
    let cfg = RunCfg {
        real_timeout: Duration::from_secs(60),
        ..RunCfg::none()
    };
    let ex = run_exec(vec![], &cfg, &scen);
    let mut r = BatchRun::default();
    r.spun = ex.spun;
    r.lib_panics = ex.panics.iter().filter(|p| !p.contains("vcheck/src")).cloned().collect();
    match ex.out {
        Some(o) => {
            if let Some(e) = &o.setup_error {
                r.machinery = Some(format!("start state not reached: {e}; panics {:?}", ex.panics));
            }
            r.obs = o;
        }
        None => {
            r.machinery = Some(if ex.watchdog {
                format!("a batch of {} cases did not finish in 60 s of real time", cases.len())
            } else {
                format!("scenario panicked: {:?}", ex.panics)
            });
        }
    }
    if let Some(f) = r.obs.fail.as_mut() {
        if !r.lib_panics.is_empty() {
            f.detail.push_str(&format!("\n    library task panicked: {:?}", r.lib_panics));
        }
        if r.spun {
            f.detail.push_str("\n    (a task was busy-looping)");
        }
    }
    r
}

#[derive(Debug, Default)]
struct Tally {
    judged: u64,
    connections: u64,
    frames_sent: u64,
    multi_frame_received: u64,
    deliveries_received: u64,
    early_checks: u64,
    after_contra_received: u64,
    after_contra_not_judged: u64,
    contra_reports: BTreeMap<String, u64>,
    accept_errors: Vec<String>,
    info_mismatch: Vec<String>,
    violations: Vec<(String, String, serde_json::Value)>,
    machinery: Vec<String>,
    skipped: u64,
    judged_hashes: Vec<u64>,
}

impl Tally {
    fn absorb(&mut self, o: &BatchObs) {
        self.connections += 1;
        self.frames_sent += o.frames_sent;
        self.multi_frame_received += o.multi_frame_received;
        self.deliveries_received += o.deliveries_received;
        self.early_checks += o.early_checks;
        self.after_contra_received += o.after_contra_received;
        self.after_contra_not_judged += o.after_contra_not_judged;
        for (k, v) in &o.contra_reports {
            *self.contra_reports.entry(k.clone()).or_insert(0) += v;
        }
        for e in &o.accept_errors {
            if self.accept_errors.len() < 5 {
                self.accept_errors.push(e.clone());
            }
        }
        for e in &o.info_mismatch {
            if self.info_mismatch.len() < 5 {
                self.info_mismatch.push(e.clone());
            }
        }
    }
}

fn replay_json(cases: &[Case], mode: Mode, trace: &[String]) -> serde_json::Value {
    json!({"mode": mode, "cases": cases, "trace": trace})
}

/// Run one batch; on a discrepancy re-run the failing case singly (then with its predecessor, then with the
/// whole prefix) to find the smallest reproducing history, record the violation and go on with the rest.
fn process_batch(corpus: &Arc<Vec<Shape>>, cases: &[Case], mode: Mode, stop: &AtomicBool, deadline: Instant) -> Tally {
    let mut t = Tally::default();
    let mut start = 0;
    while start < cases.len() {
        if Instant::now() > deadline {
            stop.store(true, Ordering::Relaxed);
            t.skipped += (cases.len() - start) as u64;
            break;
        }
        let part = &cases[start..];
        let r = run_batch(corpus, part, mode, false);
        t.absorb(&r.obs);
        if let Some(m) = r.machinery {
            t.machinery.push(m);
            t.skipped += part.len() as u64;
            break;
        }
        if r.obs.fail.is_none() && (!r.lib_panics.is_empty() || r.spun) {
            // not this property's verdict: hand to the owner
            t.machinery.push(format!(
                "library task panicked / spun without affecting the deliveries: panics {:?} spun {} (first case of the batch: {})",
                r.lib_panics,
                r.spun,
                describe_case(corpus, &part[0])
            ));
        }
        let judged_ok = match &r.obs.fail {
            Some(f) => f.unit,
            None => r.obs.judged,
        };
        for c in &part[..judged_ok.min(part.len())] {
            t.judged += 1;
            t.judged_hashes.push(h64(c));
        }
        match r.obs.fail {
            None => break,
            Some(f) => {
                let idx = f.unit.min(part.len() - 1);
                t.judged += 1;
                t.judged_hashes.push(h64(&part[idx]));
                // smallest reproducing history
                let single = run_batch(corpus, &part[idx..=idx], mode, false);
                t.connections += 1;
                if let Some(sf) = single.obs.fail {
                    t.violations.push((sf.sig, sf.detail, replay_json(&part[idx..=idx], mode, &sf.trace)));
                } else {
                    let mut reported = false;
                    if idx >= 1 {
                        let pair = run_batch(corpus, &part[idx - 1..=idx], mode, false);
                        t.connections += 1;
                        if let Some(pf) = pair.obs.fail {
                            if pf.unit == 1 {
                                t.violations.push((
                                    format!("{} [after another delivery]", pf.sig),
                                    format!("{}\n    only after the preceding case: {}", pf.detail, describe_case(corpus, &part[idx - 1])),
                                    replay_json(&part[idx - 1..=idx], mode, &pf.trace),
                                ));
                                reported = true;
                            }
                        }
                    }
                    if !reported {
                        t.violations.push((
                            format!("{} [after earlier deliveries]", f.sig),
                            format!("{}\n    reproduces only after the {} preceding cases of its connection", f.detail, idx),
                            replay_json(&part[..=idx], mode, &f.trace),
                        ));
                    }
                }
                start += idx + 1;
            }
        }
    }
    t
}

/// batches: up to `per` non-terminal cases (shapes alternate inside a batch) followed by one terminal
/// (contradictory) case, which ends its connection
fn make_batches(cases: Vec<Case>, per: usize) -> Vec<Vec<Case>> {
    let (terminal, normal): (Vec<Case>, Vec<Case>) = cases.into_iter().partition(|c| c.is_terminal());
    // heavy cases (hundreds of frames) first so that the pool does not end on them; round-robin over shapes
    let mut by_msg: BTreeMap<u8, Vec<Case>> = BTreeMap::new();
    for c in normal {
        by_msg.entry(c.msg).or_default().push(c);
    }
    let mut queues: Vec<std::vec::IntoIter<Case>> = by_msg.into_values().map(|v| v.into_iter()).collect();
    let mut mixed = vec![];
    loop {
        let mut any = false;
        for q in queues.iter_mut() {
            if let Some(c) = q.next() {
                mixed.push(c);
                any = true;
            }
        }
        if !any {
            break;
        }
    }
    let mut batches: Vec<Vec<Case>> = vec![];
    let mut cur: Vec<Case> = vec![];
    let mut weight = 0usize;
    for c in mixed {
        weight += c.nframes();
        cur.push(c);
        if cur.len() >= per || weight >= 1200 {
            batches.push(std::mem::take(&mut cur));
            weight = 0;
        }
    }
    if !cur.is_empty() {
        batches.push(cur);
    }
    let mut term = terminal.into_iter();
    for b in batches.iter_mut() {
        if let Some(t) = term.next() {
            b.push(t);
        }
    }
    for t in term {
        batches.push(vec![t]);
    }
    batches
}

pub fn run(ctx: &Ctx) -> Outcome {
    let mut out = Outcome::new("exploration");
    if let Some(p) = &ctx.replay {
        return replay(p, out);
    }
    // (the quick tier runs what used to be the thorough enumeration - about 10 s; thorough adds the 4-frame
    // partitions of the shapes below 60 bytes)
    let deep = !ctx.quick();
    let quick = false;
    let (shapes, dropped) = corpus();
    let nshapes = if quick { shapes.len().min(SHAPES.len()) } else { shapes.len() };
    for d in dropped {
        out.assume(d);
    }
    if shapes.len() < 2 {
        out.machinery_errors.push("fewer than 2 message shapes survive the one-piece round trip".into());
        return out;
    }
    let corpus = Arc::new(shapes);
    let deadline = ctx.start + Duration::from_secs_f64((ctx.budget_s - 3.0).max(1.0));
    let cases = enumerate(&corpus, quick, deep);
    let enumerated = cases.len() as u64;
    // what the enumeration covers, measured on the cases themselves
    let mut fam: BTreeMap<String, u64> = BTreeMap::new();
    let mut cut_in_header = 0u64;
    let mut cut_in_length = 0u64;
    for c in &cases {
        let s = &corpus[c.msg as usize];
        let key = match &c.kind {
            Kind::Plain => c.family(s.bytes.len()),
            Kind::Interleave { .. } => "interleaved".into(),
            Kind::Abort { .. } => "abort".into(),
            Kind::Contra { follow: 0, .. } => "contradictory".into(),
            Kind::Contra { .. } => "contradictory+following-deliveries".into(),
        };
        *fam.entry(key).or_insert(0) += 1;
        if c.cuts.len() <= 3 {
            if c.cuts.iter().any(|x| s.in_header.contains(&(*x as usize))) {
                cut_in_header += 1;
            }
            if c.cuts.iter().any(|x| s.in_length.contains(&(*x as usize))) {
                cut_in_length += 1;
            }
        }
    }
    // Step mode for everything; Burst mode (all frames of a case in one write) for the plain and interleaved
    // partitions of <= 3 frames with continuation choices 0 and 7, and for the contradictory deliveries that
    // are followed by well-formed ones
    let burst: Vec<Case> = cases
        .iter()
        .filter(|c| (!c.is_terminal() || c.followers() > 0) && (1..=2).contains(&c.cuts.len()) && (c.cont == 0 || c.cont == 7))
        .cloned()
        .collect();
    let burst_n = burst.len() as u64;
    let mut work: Vec<(Mode, Vec<Case>)> = make_batches(cases, 32).into_iter().map(|b| (Mode::Step, b)).collect();
    work.extend(make_batches(burst, 32).into_iter().map(|b| (Mode::Burst, b)));
    // heaviest batches first
    work.sort_by_key(|(_, b)| std::cmp::Reverse(b.iter().map(|c| c.nframes()).sum::<usize>()));
    let t_enum = ctx.elapsed();
    let stop = AtomicBool::new(false);
    let tallies = par_map(&work, ctx.threads, |_, (mode, b)| {
        if stop.load(Ordering::Relaxed) || Instant::now() > deadline {
            stop.store(true, Ordering::Relaxed);
            let mut t = Tally::default();
            t.skipped = b.len() as u64;
            return t;
        }
        process_batch(&corpus, b, *mode, &stop, deadline)
    });
    let t_run = ctx.elapsed();
    let mut total = Tally::default();
    let mut distinct: HashSet<u64> = HashSet::new();
    let mut nontrivial: HashSet<u64> = HashSet::new();
    for (t, (mode, b)) in tallies.into_iter().zip(work.iter()) {
        total.judged += t.judged;
        total.connections += t.connections;
        total.frames_sent += t.frames_sent;
        total.multi_frame_received += t.multi_frame_received;
        total.deliveries_received += t.deliveries_received;
        total.early_checks += t.early_checks;
        total.after_contra_received += t.after_contra_received;
        total.after_contra_not_judged += t.after_contra_not_judged;
        total.skipped += t.skipped;
        for (k, v) in t.contra_reports {
            *total.contra_reports.entry(k).or_insert(0) += v;
        }
        for e in t.accept_errors {
            if total.accept_errors.len() < 5 {
                total.accept_errors.push(e);
            }
        }
        for e in t.info_mismatch {
            if total.info_mismatch.len() < 5 {
                total.info_mismatch.push(e);
            }
        }
        total.machinery.extend(t.machinery);
        total.violations.extend(t.violations);
        let judged: HashSet<u64> = t.judged_hashes.into_iter().collect();
        for c in b {
            let hc = h64(c);
            if judged.contains(&hc) {
                let k = h64(&(hc, *mode == Mode::Burst));
                distinct.insert(k);
                if c.nframes() >= 2 {
                    nontrivial.insert(k);
                }
            }
        }
    }
    // smallest reproducing case of every class first (report::finish keeps the first of each signature)
    let size_of = |rp: &serde_json::Value| -> (usize, usize, usize) {
        let cs = rp["cases"].as_array().cloned().unwrap_or_default();
        let cuts: usize = cs.iter().map(|c| c["cuts"].as_array().map(|a| a.len()).unwrap_or(0)).sum();
        let bytes: usize = cs.iter().map(|c| corpus.get(c["msg"].as_u64().unwrap_or(0) as usize).map(|s| s.bytes.len()).unwrap_or(0)).sum();
        (cs.len(), cuts, bytes)
    };
    total.violations.sort_by_key(|(sig, _, rp)| (sig.clone(), size_of(rp)));
    for (sig, detail, rp) in std::mem::take(&mut total.violations) {
        out.violation(sig, detail, rp);
    }
    for m in total.machinery.iter().take(10) {
        out.machinery_errors.push(m.clone());
    }
    // samples: three cases run on their own with the wire trace
    let mut samples = vec![];
    let sample_corpus = corpus.clone();
    let big = (sample_corpus.len() - 1) as u8;
    let sh = &corpus[0];
    let a = sh.in_header.iter().next().copied().unwrap_or(1);
    let b = sh.in_length.iter().next().copied().unwrap_or(5);
    for c in [
        mk(0, &[a, b], 0, Kind::Plain),
        mk(0, &[b], 2, Kind::Abort { after: 1, junk: true }),
        mk(0, &[b], 7, Kind::Contra { frame: 1, field: 1, follow: 0 }),
        mk(0, &[a, b], 0, Kind::Contra { frame: 2, field: 0, follow: 3 }),
        mk(big as usize, &[7, 9], 0, Kind::Interleave { i: 1, j: 2 }),
    ] {
        let r = run_batch(&sample_corpus, &[c.clone()], Mode::Step, true);
        let tr: Vec<String> = r.obs.trace.iter().filter(|l| l.contains("transfer(") || l.contains("disposition(") || l.contains("detach(")).cloned().collect();
        samples.push(json!({"case": describe_case(&sample_corpus, &c), "passed": r.obs.fail.is_none() && r.machinery.is_none(), "contradiction_reported_as": r.obs.contra_reports, "wire": tr}));
        if !quick || c.msg != big {
            continue;
        }
        // quick tier: the big shape (4-byte length field) is otherwise not enumerated; judge this one sample
        if let Some(f) = r.obs.fail {
            out.violation(f.sig, f.detail, replay_json(&[c], Mode::Step, &f.trace));
        }
    }
    let truncated = total.skipped > 0 || stop.load(Ordering::Relaxed);
    out.set("phase_seconds", json!({"enumerate": t_enum, "execute": t_run - t_enum, "tally_and_samples": ctx.elapsed() - t_run}));
    out.set("evaluations", total.judged);
    out.set("distinct_nontrivial", nontrivial.len() as u64);
    out.set("distinct_cases", distinct.len() as u64);
    out.set("enumerated", enumerated + burst_n);
    out.set("cases_not_run_budget", total.skipped);
    out.set("connections", total.connections);
    out.set("transfer_frames_sent", total.frames_sent);
    out.set("deliveries_received_intact", total.deliveries_received);
    out.set("multi_frame_deliveries_received", total.multi_frame_received);
    out.set("quiescent_points_checked_nothing_received_before_last_frame", total.early_checks);
    out.set("cases_by_family", json!(fam));
    out.set("burst_mode_cases", burst_n);
    out.set("cases_with_cut_inside_section_header", cut_in_header);
    out.set("cases_with_cut_inside_length_field", cut_in_length);
    out.set("contradictions_reported_as", json!(total.contra_reports));
    out.set("deliveries_received_intact_after_a_contradictory_one", total.after_contra_received);
    out.set("deliveries_after_a_contradictory_one_not_judged_link_closed", total.after_contra_not_judged);
    out.set("accept_errors_not_judged", json!(total.accept_errors));
    out.set("delivery_info_mismatches_not_judged", json!(total.info_mismatch));
    out.set(
        "message_shapes",
        json!(corpus.iter().map(|s| format!("mask={:#b} alt={} {}B sections@{:?}", s.mask, s.alt, s.bytes.len(), s.sections)).collect::<Vec<_>>()),
    );
    out.set("samples", json!(samples));
    out.set("exhaustive", !truncated);
    out.set(
        "bound",
        format!(
            "{} message shapes of {}..{} encoded bytes ({}); per shape: 1 frame; 2 frames at every offset x 8 continuation-field choices (+ pre-settled x 2); 3 frames at all pairs of offsets x 8 choices{}; the all-1-byte partition x 8; an empty frame at every position of every 1-/2-frame partition and of 3-frame partitions at {} offsets; the second link's 2-frame delivery at every position of every 2-frame partition (x 8 choices) and of the 3-frame partitions at {} offsets; abort at every position (with/without junk payload) of every 2-frame partition (x 8 choices), of the 3-frame partitions at {} offsets and at every position of the all-1-byte partition; contradictory delivery-id/tag/format on the last frame of every 2-frame partition, on the middle/last frame of a few 3-frame ones and on an empty frame, each followed on the same link by nothing / a 1-frame delivery / a 2-frame delivery / a 2-frame and a 1-frame delivery; everything frame-by-frame, the 2-/3-frame non-contradictory cases and the contradictory ones with followers also as one burst{}",
            nshapes,
            corpus.iter().take(nshapes).map(|s| s.bytes.len()).min().unwrap_or(0),
            corpus.iter().take(nshapes).map(|s| s.bytes.len()).max().unwrap_or(0),
            if quick { "the 327-byte shape only as one sample and as the second link's message" } else { "including one 327-byte shape with a 4-byte length field" },
            if quick { "" } else if deep { "; 4 frames at all triples of offsets (shapes < 60 bytes)" } else { "; 4 frames at all triples of offsets (shapes < 40 bytes)" },
            if quick { "a few" } else { "the header/length-field" },
            if quick { "the header/length-field" } else { "all" },
            if quick { "the header/length-field" } else { "all" },
            if truncated { format!("; CUT by the time budget: {} cases not run", total.skipped) } else { String::new() }
        ),
    );
    out.set(
        "rule",
        "evaluations = cases executed on the real Receiver and judged; a case is non-trivial if its delivery reached the library in >= 2 transfer frames (so reassembly really happened); distinct = distinct (message shape, split offsets, continuation-field choice, kind, feeding mode) tuples among the judged cases; multi_frame_deliveries_received is counted at run time from the frames actually sent",
    );
    out.assume("the scripted peer injects a frame only at quiescent points (frame-by-frame mode) or all frames of one case in one write (burst mode); transport-level chunking of the byte stream is C06's subject");
    out.assume("one application task per link loops recv::<Body<Value>>() and accept(); link credit (100000) and the session's incoming window never run out");
    out.assume("only the message returned by recv is judged; Delivery's id/tag/format and accept() results are recorded in the evidence but not judged");
    out.assume("after a contradictory continuation frame the peer sends the remaining frames of that delivery and the application keeps calling recv() (up to 3 more errors): nothing of it may come back as a message; the well-formed deliveries the peer sends behind it on the same link are judged like any other delivery (exactly once, unchanged, at their last frame) unless the library has closed the link/session/connection with an error, which also counts as reporting; then the case ends its connection");
    out
}

fn replay(p: &std::path::Path, mut out: Outcome) -> Outcome {
    let s = std::fs::read_to_string(p).unwrap_or_default();
    let j: serde_json::Value = serde_json::from_str(&s).unwrap_or_default();
    let r = &j["replay"];
    let cases: Vec<Case> = match serde_json::from_value(r["cases"].clone()) {
        Ok(c) => c,
        Err(e) => {
            out.machinery_errors.push(format!("cannot read the cases of the replay file: {e}"));
            return out;
        }
    };
    let mode: Mode = serde_json::from_value(r["mode"].clone()).unwrap_or(Mode::Step);
    let (shapes, _) = corpus();
    let corpus = Arc::new(shapes);
    println!("replaying {} case(s) in {:?} mode", cases.len(), mode);
    for c in &cases {
        println!("  case: {}", describe_case(&corpus, c));
    }
    let res = run_batch(&corpus, &cases, mode, true);
    for l in &res.obs.trace {
        println!("  {l}");
    }
    if let Some(m) = res.machinery {
        out.machinery_errors.push(m);
    }
    if let Some(f) = res.obs.fail {
        println!("  FAIL {}: {}", f.sig, f.detail);
        for l in &f.trace {
            println!("    {l}");
        }
        out.violation(f.sig, f.detail, r.clone());
    } else {
        println!("  no violation; contradictions reported as {:?}", res.obs.contra_reports);
    }
    out.set("evaluations", res.obs.judged as u64);
    out.set("distinct_nontrivial", cases.iter().filter(|c| c.nframes() >= 2).count() as u64);
    out.set("samples", json!([r]));
    out
}
