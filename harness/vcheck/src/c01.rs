//! C01 - end-to-end delivery: every message sent arrives intact, once, in order.
//!
//! Two REAL endpoints over one in-memory duplex (`vlib::vpipe::Pipe`):
//!   client   : `Connection::builder()` / `Session::builder()` / `Sender::builder()`, a task that sends a finite
//!              message sequence with `send` (or `send_batchable` + awaiting the delivery futures),
//!   listener : `ConnectionAcceptor` / `SessionAcceptor` / `LinkAcceptor`, a task that loops `recv()` + `accept()`
//!              (re-issuing credit in manual mode) and pushes the re-encoded message into a shared log.
//! All tasks are `tokio::spawn`ed on the hooked current-thread runtime, so the explorer's Task / Select / Read /
//! Write / Preempt choices cover the sender task, the receiver task, the four engine tasks and the byte-stream
//! fragmentation of the transport.
//!
//! Enumerated:
//!  (1) the configuration lattice (max-frame-size x client windows x listener windows x credit policy x
//!      snd-settle x rcv-settle x channel buffers) x message sequences x {send, send_batchable}, every instance
//!      once with the DEFAULT schedule;
//!  (2) on a fixed list of small instances (24 hand-picked: windows of 1, credit Auto(1)/Manual(1), buffers of 1,
//!      exact-fit / one-over / multi-frame messages ...; 32 "pressure" instances: multi-frame + small + multi-frame
//!      through buffers of 1 / 2 against a listener window of 1 / 2) EVERY schedule within a deviation bound
//!      (`vlib::explore`; quick: one deviation of any kind; thorough: also task<=2 and one deviation on every
//!      31st lattice instance).
//!
//! Oracle = the statement, nothing more:
//!   * the sequence of messages the receiving application got == the sequence sent: same count (exactly once),
//!     same order, byte-for-byte equal re-encoding of all sections and the body;
//!   * every send resolves (the connection stays up in every scenario: no faults are injected, nobody closes),
//!     judged with a far virtual-time horizon; a busy loop, a real-time hang or a panic of a library task is a
//!     violation as well, because then the message cannot arrive while the connection was never lost.
//! Permissive readings: the outcome value a send resolves with is not judged beyond "it resolved with Ok"
//! (the receiver accepts everything; settlement semantics are C02's); wire-level flow-control conformance is
//! C07/C08's business and only COUNTED here (non-vacuity), never judged.
//!
//! Signatures: `order-differs`, `message-corrupted`, `message-delivered-twice`, `unknown-message-delivered`,
//! `send-failed [..]`, `library-task-panicked [..]`, `busy-loop`, `real-time-hang`, and for stalls
//! `stall <buffers> <schedule>: send-hangs [<stage>]` / `stall <buffers> <schedule>: message-lost [<stage>]` where <stage> says
//! how far the first stuck message got as seen on the wire and by the two applications, <buffers> is
//! buffers-of-1 / buffers-of-2 / roomy-buffers (256) and <schedule> is default-schedule / deviating-schedule /
//! deviating-schedule+preempt.
use fe2o3_amqp::acceptor::{
    ConnectionAcceptor, LinkAcceptor, LinkEndpoint, SessionAcceptor, SupportedReceiverSettleModes, SupportedSenderSettleModes,
};
use fe2o3_amqp::link::delivery::Sendable;
use fe2o3_amqp::link::CreditMode;
use fe2o3_amqp::{Connection, Sender, Session};
use fe2o3_amqp_types::definitions::{ReceiverSettleMode, SenderSettleMode};
use fe2o3_amqp_types::messaging::message::__private::Serializable;
use fe2o3_amqp_types::messaging::{AmqpValue, Batch, Body, Data, Message};
use fe2o3_amqp_types::performatives::Performative;
use serde::{Deserialize, Serialize};
use serde_amqp::Value;
use serde_bytes::ByteBuf;
use serde_json::json;
use std::collections::{BTreeMap, HashMap, HashSet};
use std::sync::{Arc, Mutex};
use std::time::{Duration, Instant};
use tokio::time::timeout;
use vlib::explore::{determinism_check, explore, Bounds};
use vlib::peer::value_len;
use vlib::report::{Ctx, Outcome};
use vlib::runner::{run_exec, Exec, RunCfg, Scenario};
use vlib::tape::{Kind, Point, KINDS};
use vlib::util::{h64, hex, par_map};
use vlib::vpipe::{Chunking, End, Pipe};

// ------------------------------------------------------------------------------------------ configuration

#[derive(Debug, Clone, Copy, PartialEq, Eq, Hash, Serialize, Deserialize)]
pub enum Credit {
    /// listener receiver in `CreditMode::Auto(n)`
    Auto(u32),
    /// `CreditMode::Manual`, n credits granted initially, the application re-issues n after every delivery
    Manual(u32),
}

/// size classes of a message: what the ENCODED message (all sections + body) measures against the payload room
/// of a single transfer frame ("cap" = max-frame-size - frame header - transfer performative, measured on the wire)
#[derive(Debug, Clone, Copy, PartialEq, Eq, Hash, Serialize, Deserialize)]
pub enum Size {
    /// body of 0 bytes
    B0,
    /// body of 10 bytes
    B10,
    /// encoded message = cap - 1
    CapM1,
    /// encoded message = cap: fills a frame of exactly max-frame-size
    Cap,
    /// encoded message = cap + 1: needs a second frame
    CapP1,
    /// body of 2.5 x max-frame-size
    Big,
}

#[derive(Debug, Clone, Copy, PartialEq, Eq, Hash, Serialize, Deserialize)]
pub struct Msg {
    pub size: Size,
    /// section combination 0..4: 0 body only; 1 header+properties; 2 all six optional sections;
    /// 3 delivery-annotations+message-annotations+application-properties+footer.
    /// It also selects the body kind: 0 amqp-value(string), 1 one data section, 2 amqp-value(binary), 3 two data sections
    pub sec: u8,
    /// `Sendable::settled` (only looked at by the library when the negotiated snd-settle-mode is mixed)
    pub settled: Option<bool>,
}

#[derive(Debug, Clone, PartialEq, Eq, Hash, Serialize, Deserialize)]
pub struct Cfg {
    /// max-frame-size of the client / of the listener (the smaller one is what both must respect)
    pub mfs: u32,
    pub mfs_l: u32,
    /// client session: incoming-window = outgoing-window = cw; listener session: lw
    pub cw: u32,
    pub lw: u32,
    pub credit: Credit,
    /// 0 settled, 1 unsettled, 2 mixed
    pub snd: u8,
    /// 0 first, 1 second
    pub rcv: u8,
    /// mpsc buffer size of: client connection, client session, client sender link, listener connection, listener session
    pub buf: usize,
    /// false: `send`, true: `send_batchable` for all messages, then await the delivery futures in order
    pub batch: bool,
    pub seq: Vec<Msg>,
    /// max-message-size the listener's receiving link announces (0 = none). The library's sender cuts a larger
    /// message into chunks of this size (each ending a transfer series with more=true) before the frame encoder
    /// cuts every chunk at max-frame-size: two splitters that have to agree on the more flag
    #[serde(default)]
    pub mms: u64,
}

impl Cfg {
    fn negotiated_mfs(&self) -> u32 {
        self.mfs.min(self.mfs_l)
    }
    fn short(&self) -> String {
        format!(
            "mfs {}/{}{} windows client {} listener {} credit {:?} snd {} rcv {} buffers {} {} seq {:?}",
            self.mfs,
            self.mfs_l,
            if self.mms > 0 { format!(" receiver max-message-size {}", self.mms) } else { String::new() },
            self.cw,
            self.lw,
            self.credit,
            ["settled", "unsettled", "mixed"][self.snd as usize % 3],
            ["first", "second"][self.rcv as usize % 2],
            self.buf,
            if self.batch { "send_batchable" } else { "send" },
            self.seq.iter().map(|m| format!("{:?}/s{}{}", m.size, m.sec, match m.settled { None => "", Some(true) => "/pre-settled", Some(false) => "/unsettled" })).collect::<Vec<_>>()
        )
    }
}

fn snd_mode(c: &Cfg) -> SenderSettleMode {
    match c.snd {
        0 => SenderSettleMode::Settled,
        1 => SenderSettleMode::Unsettled,
        _ => SenderSettleMode::Mixed,
    }
}
fn rcv_mode(c: &Cfg) -> ReceiverSettleMode {
    if c.rcv == 0 {
        ReceiverSettleMode::First
    } else {
        ReceiverSettleMode::Second
    }
}

// ------------------------------------------------------------------------------------------ messages

type M = Message<Body<Value>>;

fn filler(index: usize, n: usize) -> Vec<u8> {
    // position dependent, different per message: a lost, duplicated or swapped chunk changes the bytes
    (0..n).map(|j| b'a' + ((j * 7 + index * 11 + j / 26) % 26) as u8).collect()
}

fn with_body(index: usize, sec: u8, n: usize) -> M {
    let mask: u64 = match sec % 4 {
        0 => 0,
        1 => 0b001001,
        2 => 0b111111,
        _ => 0b110110,
    };
    // body kind 5 of gen_message = empty body; replaced below
    let (mut m, _, _) = crate::typed::gen_message(mask | (5 << 6), false);
    let bytes = filler(index, n);
    m.body = match sec % 4 {
        0 => Body::Value(AmqpValue(Value::String(String::from_utf8(bytes).expect("ascii")))),
        1 => Body::Data(Batch::new(vec![Data(ByteBuf::from(bytes))])),
        2 => Body::Value(AmqpValue(Value::Binary(ByteBuf::from(bytes)))),
        _ => {
            let cut = n / 3;
            Body::Data(Batch::new(vec![Data(ByteBuf::from(bytes[..cut].to_vec())), Data(ByteBuf::from(bytes[cut..].to_vec()))]))
        }
    };
    m
}

fn encode(m: &M) -> Vec<u8> {
    serde_amqp::to_vec(&Serializable(m)).expect("encode message")
}

/// build message `index` of the sequence; `cap` = payload room of a single frame for this message
fn build_message(index: usize, spec: &Msg, cap: usize, mfs: u32) -> M {
    let target = match spec.size {
        Size::B0 => return with_body(index, spec.sec, 0),
        Size::B10 => return with_body(index, spec.sec, 10),
        Size::Big => return with_body(index, spec.sec, mfs as usize * 5 / 2),
        Size::CapM1 => cap - 1,
        Size::Cap => cap,
        Size::CapP1 => cap + 1,
    };
    // smallest body whose encoding reaches the target (exact unless the target falls into the 3-byte jump
    // between the 8-bit and the 32-bit length form; the non-vacuity counters tell)
    let base = encode(&with_body(index, spec.sec, 0)).len();
    let mut n = target.saturating_sub(base + 12);
    loop {
        let m = with_body(index, spec.sec, n);
        if encode(&m).len() >= target {
            return m;
        }
        n += 1;
    }
}

pub struct Prepared {
    pub msgs: Vec<M>,
    pub enc: Vec<Vec<u8>>,
    pub caps: Vec<usize>,
}

// ------------------------------------------------------------------------------------------ the scenario

/// far virtual-time horizon: the clock only advances when every task is blocked, so reaching it means "hangs"
const HORIZON: Duration = Duration::from_secs(100);

#[derive(Debug, Clone, Default, Hash)]
pub struct Obs {
    /// set-up of the client (open / begin / attach) or of the listener failed: not a verdict on C01
    pub setup_error: Option<String>,
    /// what the sender task is doing / did last
    pub step: String,
    /// per message: the result of send (or of send_batchable and of its delivery future)
    pub sends: Vec<Option<Result<String, String>>>,
    pub sender_hangs: bool,
    /// re-encoded messages in the order the receiving application got them
    pub received: Vec<Vec<u8>>,
    pub recv_notes: Vec<String>,
    pub wire: Wire,
}

#[derive(Default)]
struct Shared {
    step: String,
    setup_error: Option<String>,
    sends: Vec<Option<Result<String, String>>>,
    received: Vec<Vec<u8>>,
    recv_notes: Vec<String>,
}
type Sh = Arc<Mutex<Shared>>;

async fn listener_main(io: End, cfg: Cfg, sh: Sh) {
    macro_rules! step {
        ($what:expr, $e:expr) => {
            match $e {
                Ok(v) => v,
                Err(e) => {
                    sh.lock().unwrap().setup_error = Some(format!("listener: {} failed: {:?}", $what, e));
                    return;
                }
            }
        };
    }
    let acceptor = ConnectionAcceptor::builder().container_id("listener").max_frame_size(cfg.mfs_l).buffer_size(cfg.buf).build();
    let mut conn = step!("connection accept", acceptor.accept(io).await);
    let sacc = SessionAcceptor::builder().incoming_window(cfg.lw).outgoing_window(cfg.lw).buffer_size(cfg.buf).build();
    let mut session = step!("session accept", sacc.accept(&mut conn).await);
    let lacc = LinkAcceptor::builder()
        .supported_sender_settle_modes(SupportedSenderSettleModes::All)
        .supported_receiver_settle_modes(SupportedReceiverSettleModes::Both);
    let lacc = if cfg.mms > 0 { lacc.max_message_size(cfg.mms) } else { lacc };
    let lacc = lacc.build();
    let mut r = match step!("link accept", lacc.accept(&mut session).await) {
        LinkEndpoint::Receiver(r) => r,
        LinkEndpoint::Sender(_) => {
            sh.lock().unwrap().setup_error = Some("listener: the client's sender link was accepted as a sender".into());
            return;
        }
    };
    // the LinkAcceptor has no credit-mode knob: an accepted receiver starts as Auto(200) and the application
    // changes the policy through the public Receiver API (a credit reduction is valid AMQP)
    match cfg.credit {
        Credit::Auto(200) => {}
        Credit::Auto(n) => step!("set_credit", r.set_credit(n).await),
        Credit::Manual(n) => {
            r.set_credit_mode(CreditMode::Manual);
            step!("set_credit", r.set_credit(n).await)
        }
    }
    loop {
        match r.recv::<Body<Value>>().await {
            Ok(d) => {
                let bytes = serde_amqp::to_vec(&Serializable(d.message())).unwrap_or_else(|e| format!("<re-encode failed: {e}>").into_bytes());
                sh.lock().unwrap().received.push(bytes);
                if let Err(e) = r.accept(&d).await {
                    sh.lock().unwrap().recv_notes.push(format!("accept failed: {e:?}"));
                }
                if let Credit::Manual(n) = cfg.credit {
                    if let Err(e) = r.set_credit(n).await {
                        sh.lock().unwrap().recv_notes.push(format!("set_credit failed: {e:?}"));
                    }
                }
            }
            Err(e) => {
                sh.lock().unwrap().recv_notes.push(format!("recv ended: {e:?}"));
                break;
            }
        }
    }
    // keep the endpoints alive: the connection must stay up until the scenario is over
    std::future::pending::<()>().await;
    drop((conn, session));
}

type Keep = (fe2o3_amqp::connection::ConnectionHandle<()>, fe2o3_amqp::session::SessionHandle<()>, Sender);

async fn sender_main(io: End, cfg: Cfg, p: Arc<Prepared>, sh: Sh) -> Option<Keep> {
    macro_rules! step {
        ($what:expr, $e:expr) => {{
            sh.lock().unwrap().step = $what.to_string();
            match $e {
                Ok(v) => v,
                Err(e) => {
                    sh.lock().unwrap().setup_error = Some(format!("client: {} failed: {:?}", $what, e));
                    return None;
                }
            }
        }};
    }
    let mut conn = step!("open", Connection::builder().container_id("client").max_frame_size(cfg.mfs).buffer_size(cfg.buf).open_with_stream(io).await);
    let mut session = step!("begin", Session::builder().incoming_window(cfg.cw).outgoing_window(cfg.cw).buffer_size(cfg.buf).begin(&mut conn).await);
    let mut b = Sender::builder().name("c01-link").target("q").sender_settle_mode(snd_mode(&cfg)).receiver_settle_mode(rcv_mode(&cfg));
    b.buffer_size = cfg.buf;
    let mut sender = step!("attach", b.attach(&mut session).await);
    let mut futs = vec![];
    for (i, m) in p.msgs.iter().enumerate() {
        sh.lock().unwrap().step = format!("send #{i}");
        let sendable = Sendable::builder().message(m.clone()).settled(cfg.seq[i].settled).build();
        if cfg.batch {
            match sender.send_batchable(sendable).await {
                Ok(f) => futs.push((i, f)),
                Err(e) => sh.lock().unwrap().sends[i] = Some(Err(format!("send_batchable: {e:?}"))),
            }
        } else {
            let r = sender.send(sendable).await;
            sh.lock().unwrap().sends[i] = Some(r.map(|o| format!("{o:?}")).map_err(|e| format!("send: {e:?}")));
        }
    }
    for (i, f) in futs {
        sh.lock().unwrap().step = format!("await delivery future #{i}");
        let r = f.await;
        sh.lock().unwrap().sends[i] = Some(r.map(|o| format!("{o:?}")).map_err(|e| format!("delivery future: {e:?}")));
    }
    sh.lock().unwrap().step = "done".into();
    Some((conn, session, sender))
}

async fn scen(cfg: Cfg, p: Arc<Prepared>, io_choices: bool) -> Obs {
    let (pipe, a, b) = Pipe::new();
    if io_choices {
        for d in 0..2 {
            pipe.set_read_chunking(d, Chunking::Tape);
            pipe.set_write_chunking(d, Chunking::Tape);
        }
    }
    let sh: Sh = Arc::new(Mutex::new(Shared { sends: vec![None; p.msgs.len()], ..Default::default() }));
    let lt = tokio::spawn(listener_main(b, cfg.clone(), sh.clone()));
    let mut st = tokio::spawn(sender_main(a, cfg.clone(), p.clone(), sh.clone()));
    let joined = timeout(HORIZON, &mut st).await;
    let mut o = Obs::default();
    let keep = match joined {
        Ok(Ok(k)) => k,
        Ok(Err(e)) => {
            // the sender task died: its panic message is in Exec.panics
            o.recv_notes.push(format!("sender task ended abnormally: {e}"));
            None
        }
        Err(_) => {
            o.sender_hangs = true;
            None
        }
    };
    // settled sends return before anything is on the wire: let the system run dry
    for _ in 0..3 {
        tokio::time::sleep(Duration::from_millis(1)).await;
    }
    {
        let g = sh.lock().unwrap();
        o.setup_error = g.setup_error.clone();
        o.step = g.step.clone();
        o.sends = g.sends.clone();
        o.received = g.received.clone();
        o.recv_notes.extend(g.recv_notes.iter().cloned());
    }
    o.wire = analyse_wire(&pipe);
    // the observation is over: what is still sitting unread in the transport (diagnostic only)
    o.wire.unread = [pipe.take_bytes(0).len(), pipe.take_bytes(1).len()];
    st.abort();
    lt.abort();
    drop(keep);
    o
}

fn scenario(cfg: &Cfg, p: &Arc<Prepared>, io_choices: bool) -> Scenario<Obs> {
    let cfg = cfg.clone();
    let p = p.clone();
    Arc::new(move || Box::pin(scen(cfg.clone(), p.clone(), io_choices)))
}

// ------------------------------------------------------------------------------------------ wire tap

#[derive(Debug, Clone, Default, Hash)]
pub struct Wire {
    /// transfer frames per delivery, client -> listener, in wire order
    pub frames_per_delivery: Vec<usize>,
    /// size on the wire of every transfer frame
    pub transfer_frame_sizes: Vec<usize>,
    /// re-assembled payload of every delivery (hash) - compared with the sent encoding for the DETAIL text only
    pub payload_hashes: Vec<u64>,
    /// performative length + 8 of the FIRST frame of every delivery
    pub overheads: Vec<usize>,
    /// at some moment the client had sent as many transfer frames as the session flows written by the listener
    /// until then allowed: the window was really closed
    pub window_closed: bool,
    /// the client sent MORE transfer frames than every flow written until then allowed
    pub window_overrun: bool,
    /// at some moment the client had started as many deliveries as the link flows written until then allowed
    pub credit_exhausted: bool,
    /// deliveries whose last frame (more=false) is on the wire
    pub complete_deliveries: usize,
    pub deliveries_started: usize,
    /// at the END of the execution: what the last flows written by the listener still allow
    pub final_window_open: bool,
    pub final_credit_open: bool,
    /// bytes written by the listener / the client that the other side never read from the transport
    pub unread: [usize; 2],
    pub flows_from_listener: usize,
    pub dispositions: [usize; 2],
    pub frames: [usize; 2],
    /// human-readable trace, global wire order
    pub trace: Vec<String>,
    pub parse_error: Option<String>,
}

/// Cut the byte log into frames (global order preserved by processing the log entries in order) and follow
/// the session window and the link credit as a wire observer can.
fn analyse_wire(pipe: &Pipe) -> Wire {
    let mut w = Wire::default();
    let mut bufs: [Vec<u8>; 2] = [vec![], vec![]];
    let mut hdr = [false; 2];
    // session window the listener advertised: next-incoming-id + incoming-window (transfer-ids start at the
    // client's begin.next-outgoing-id)
    let mut client_first_id: u32 = 0;
    let mut win_limit: Option<u64> = None;
    let mut sent_frames: u64 = 0;
    let mut credit_limit: Option<u64> = None;
    let mut client_initial_dc: u32 = 0;
    let mut deliveries_started: u64 = 0;
    let mut in_delivery = false;
    let mut cur_payload: Vec<u8> = vec![];
    let mut cur_frames = 0usize;
    for e in pipe.log() {
        let d = e.dir;
        bufs[d].extend_from_slice(&e.bytes);
        loop {
            let b = &bufs[d];
            if !hdr[d] {
                if b.len() < 8 {
                    break;
                }
                if &b[..4] != b"AMQP" {
                    w.parse_error = Some(format!("direction {d} does not start with a protocol header"));
                    return w;
                }
                hdr[d] = true;
                bufs[d].drain(..8);
                continue;
            }
            if b.len() < 8 {
                break;
            }
            let size = u32::from_be_bytes(b[..4].try_into().unwrap()) as usize;
            if size < 8 {
                w.parse_error = Some(format!("direction {d}: frame size {size}"));
                return w;
            }
            if b.len() < size {
                break;
            }
            let frame: Vec<u8> = bufs[d].drain(..size).collect();
            w.frames[d] += 1;
            let doff = (frame[4] as usize * 4).min(size);
            let body = &frame[doff..];
            if body.is_empty() {
                w.trace.push(format!("{} empty frame", if d == 0 { "client  ->" } else { "listener<-" }));
                continue;
            }
            let Some(vl) = value_len(body) else {
                w.parse_error = Some(format!("direction {d}: frame body is not an AMQP value: {}", hex(body)));
                return w;
            };
            let perf = match serde_amqp::from_slice::<Performative>(&body[..vl]) {
                Ok(p) => p,
                Err(e) => {
                    w.parse_error = Some(format!("direction {d}: performative does not decode ({e}): {}", hex(&body[..vl])));
                    return w;
                }
            };
            let payload = &body[vl..];
            let who = if d == 0 { "client  ->" } else { "listener<-" };
            match &perf {
                Performative::Begin(bg) => {
                    if d == 0 {
                        client_first_id = bg.next_outgoing_id;
                    } else {
                        win_limit = Some(bg.incoming_window as u64);
                    }
                    w.trace.push(format!("{who} begin(next-outgoing-id={}, incoming-window={}, outgoing-window={})", bg.next_outgoing_id, bg.incoming_window, bg.outgoing_window));
                }
                Performative::Attach(a) => {
                    if d == 0 {
                        client_initial_dc = a.initial_delivery_count.unwrap_or(0);
                    }
                    w.trace.push(format!("{who} attach(role={:?}, snd={:?}, rcv={:?})", a.role, a.snd_settle_mode, a.rcv_settle_mode));
                }
                Performative::Flow(f) => {
                    if d == 1 {
                        w.flows_from_listener += 1;
                        if let Some(nii) = f.next_incoming_id {
                            win_limit = Some(nii.wrapping_sub(client_first_id) as u64 + f.incoming_window as u64);
                        }
                        if f.handle.is_some() {
                            if let (Some(dc), Some(lc)) = (f.delivery_count, f.link_credit) {
                                credit_limit = Some(dc.wrapping_sub(client_initial_dc) as u64 + lc as u64);
                            }
                        }
                    }
                    w.trace.push(format!(
                        "{who} flow(next-incoming-id={:?}, incoming-window={}, next-outgoing-id={}, handle={:?}, delivery-count={:?}, link-credit={:?}, drain={})",
                        f.next_incoming_id,
                        f.incoming_window,
                        f.next_outgoing_id,
                        f.handle.as_ref().map(|h| h.0),
                        f.delivery_count,
                        f.link_credit,
                        f.drain
                    ));
                }
                Performative::Transfer(t) => {
                    if d == 0 {
                        sent_frames += 1;
                        w.transfer_frame_sizes.push(size);
                        if let Some(l) = win_limit {
                            if sent_frames == l {
                                w.window_closed = true;
                            }
                            if sent_frames > l {
                                w.window_overrun = true;
                            }
                        }
                        if !in_delivery {
                            in_delivery = true;
                            deliveries_started += 1;
                            cur_payload.clear();
                            cur_frames = 0;
                            w.overheads.push(8 + vl);
                            if let Some(l) = credit_limit {
                                if deliveries_started >= l {
                                    w.credit_exhausted = true;
                                }
                            }
                        }
                        cur_frames += 1;
                        cur_payload.extend_from_slice(payload);
                        if !t.more {
                            in_delivery = false;
                            w.complete_deliveries += 1;
                            w.frames_per_delivery.push(cur_frames);
                            w.payload_hashes.push(h64(&cur_payload));
                        }
                    }
                    w.trace.push(format!(
                        "{who} transfer(id={:?}, tag={:?}, settled={:?}, more={}, batchable={}) + {} B payload, frame {} B",
                        t.delivery_id,
                        t.delivery_tag.as_ref().map(|x| hex(x)),
                        t.settled,
                        t.more,
                        t.batchable,
                        payload.len(),
                        size
                    ));
                }
                Performative::Disposition(dp) => {
                    w.dispositions[d] += 1;
                    w.trace.push(format!("{who} disposition({:?}, {}..{:?}, settled={}, state={})", dp.role, dp.first, dp.last, dp.settled, dp.state.as_ref().map(|s| format!("{s:?}").split('(').next().unwrap_or("").to_string()).unwrap_or_else(|| "-".into())));
                }
                Performative::Open(o) => w.trace.push(format!("{who} open(max-frame-size={})", o.max_frame_size.0)),
                Performative::Detach(x) => w.trace.push(format!("{who} detach(closed={}, error={:?})", x.closed, x.error)),
                Performative::End(x) => w.trace.push(format!("{who} end(error={:?})", x.error)),
                Performative::Close(x) => w.trace.push(format!("{who} close(error={:?})", x.error)),
            }
        }
    }
    if in_delivery {
        w.frames_per_delivery.push(cur_frames);
        w.payload_hashes.push(h64(&cur_payload));
    }
    w.deliveries_started = deliveries_started as usize;
    w.final_window_open = win_limit.map(|l| sent_frames < l).unwrap_or(false);
    w.final_credit_open = credit_limit.map(|l| deliveries_started < l).unwrap_or(false);
    w
}

// ------------------------------------------------------------------------------------------ preparation (cap calibration)

/// key of everything the transfer performative's size depends on
fn calib_key(c: &Cfg) -> (u8, u8, bool, Vec<Option<bool>>) {
    (c.snd, c.rcv, c.batch, c.seq.iter().map(|m| m.settled).collect())
}

type Calib = Mutex<HashMap<(u8, u8, bool, Vec<Option<bool>>), Vec<usize>>>;

/// Measure ON THE WIRE (own frame cutter) how many bytes of a frame the header and the transfer performative
/// take for message #i of a sequence under this settlement configuration: a probe run with small messages.
fn overheads(cfg: &Cfg, calib: &Calib) -> Result<Vec<usize>, String> {
    let key = calib_key(cfg);
    if let Some(v) = calib.lock().unwrap().get(&key) {
        return Ok(v.clone());
    }
    let probe = Cfg {
        mfs: 4096,
        mfs_l: 4096,
        cw: 5000,
        lw: 5000,
        credit: Credit::Auto(200),
        buf: 256,
        seq: cfg.seq.iter().map(|m| Msg { size: Size::B10, sec: 0, settled: m.settled }).collect(),
        ..cfg.clone()
    };
    let msgs: Vec<M> = probe.seq.iter().enumerate().map(|(i, s)| build_message(i, s, 0, 4096)).collect();
    let enc = msgs.iter().map(encode).collect();
    let p = Arc::new(Prepared { msgs, enc, caps: vec![] });
    let ex = run_exec(vec![], &RunCfg::none(), &scenario(&probe, &p, false));
    let Some(o) = ex.out else {
        return Err(format!("calibration run died: {:?}", ex.panics));
    };
    if o.wire.overheads.len() != probe.seq.len() || o.wire.frames_per_delivery.iter().any(|k| *k != 1) {
        return Err(format!("calibration run did not put {} single-frame deliveries on the wire: {:?} {:?} {:?}", probe.seq.len(), o.wire.frames_per_delivery, o.setup_error, o.sends));
    }
    calib.lock().unwrap().insert(key, o.wire.overheads.clone());
    Ok(o.wire.overheads)
}

fn prepare(cfg: &Cfg, calib: &Calib) -> Result<Arc<Prepared>, String> {
    let ov = overheads(cfg, calib)?;
    let mfs = cfg.negotiated_mfs();
    let caps: Vec<usize> = ov.iter().map(|o| mfs as usize - o).collect();
    let msgs: Vec<M> = cfg.seq.iter().enumerate().map(|(i, s)| build_message(i, s, caps[i], mfs)).collect();
    let enc = msgs.iter().map(encode).collect();
    Ok(Arc::new(Prepared { msgs, enc, caps }))
}

// ------------------------------------------------------------------------------------------ the oracle

/// frames a message needs on the wire (for naming the cause of a hang)
fn frames_needed(p: &Prepared, i: usize) -> usize {
    let cap = p.caps.get(i).copied().unwrap_or(usize::MAX).max(1);
    let len = p.enc[i].len();
    if len <= cap {
        1
    } else {
        // continuation frames carry a shorter performative; the exact count is read from the wire where possible
        1 + (len - cap).div_ceil(cap)
    }
}

fn describe_msg(b: &[u8]) -> String {
    format!("{} B #{:016x}", b.len(), h64(b))
}

/// THE ORACLE.  Returns (signature, detail) per violated clause of the statement.
fn judge(cfg: &Cfg, p: &Prepared, o: &Obs, sched: &str) -> Vec<(String, String)> {
    let mut f = vec![];
    let sent: Vec<&Vec<u8>> = p.enc.iter().collect();
    let got: Vec<&Vec<u8>> = o.received.iter().collect();
    let summary = || {
        format!(
            "sent [{}]; receiving application got [{}]; send results {:?}; sender task at '{}'; receiver notes {:?}; frames per delivery on the wire {:?}, re-assembled wire payload equals the sent encoding {:?}",
            sent.iter().map(|b| describe_msg(b)).collect::<Vec<_>>().join(", "),
            got.iter().map(|b| describe_msg(b)).collect::<Vec<_>>().join(", "),
            o.sends,
            o.step,
            o.recv_notes,
            o.wire.frames_per_delivery,
            o.wire.payload_hashes.iter().enumerate().map(|(i, h)| p.enc.get(i).map(|e| h64(e) == *h).unwrap_or(false)).collect::<Vec<_>>()
        )
    };
    // --- every send resolves
    // where message #i got stuck, as far as an observer of the wire and of the two applications can tell
    let stage = |i: usize| -> &'static str {
        let w = &o.wire;
        if i < got.len() {
            "delivered, send unresolved"
        } else if i < w.complete_deliveries {
            "written, not delivered"
        } else if i < w.deliveries_started {
            "partially written"
        } else if !w.final_window_open {
            "never written, session window closed"
        } else if !w.final_credit_open {
            "never written, no link credit"
        } else {
            "never written, window and credit open"
        }
    };
    // the cause is named only where the wire shows it: the window the sender sees is closed AND the sequence
    // contains a message that the transport splits into more frames than the listener's window holds
    let kmax = (0..p.enc.len()).map(|i| frames_needed(p, i)).max().unwrap_or(1);
    let split_tag = |st: &str| if st.ends_with("session window closed") && kmax > 1 && (cfg.lw as usize) < kmax { " transport-split window<k" } else { "" };
    let stall = format!(
        "final flow-control state on the wire: session window {}, link credit {}, {} deliveries started / {} complete; unread bytes in the transport: {} towards the client, {} towards the listener",
        if o.wire.final_window_open { "open" } else { "closed" },
        if o.wire.final_credit_open { "available" } else { "used up" },
        o.wire.deliveries_started,
        o.wire.complete_deliveries,
        o.wire.unread[0],
        o.wire.unread[1]
    );
    // stalls (hangs, messages that never arrive) are qualified by the two things that tell a bounded-channel
    // stall between engine tasks from a flow-control bug: the size class of the mpsc buffers and the kinds of
    // schedule deviations the execution needed
    let bufclass = if cfg.buf <= 1 { "buffers-of-1" } else if cfg.buf <= 2 { "buffers-of-2" } else { "roomy-buffers" };
    if o.sender_hangs {
        // the message the sender task is stuck on
        let i = o.step.rsplit('#').next().and_then(|x| x.parse::<usize>().ok()).unwrap_or_else(|| o.sends.iter().position(|s| s.is_none()).unwrap_or(0));
        let st = stage(i);
        f.push((
            // (buffer class and schedule class first: they identify the one known root cause, the mutual wait of the
            // connection and session engines on full channels of capacity 1, whatever stage it strikes at)
            format!("stall {bufclass} {sched}: send-hangs [{st}]{}", split_tag(st)),
            format!("the sender task is still at '{}' (message #{i}) after {} s of virtual time with the connection up; {stall}: {}", o.step, HORIZON.as_secs(), summary()),
        ));
    }
    for (i, s) in o.sends.iter().enumerate() {
        if let Some(Err(e)) = s {
            let class: String = e.split(|c: char| !c.is_alphanumeric() && c != '_' && c != ':' && c != ' ').next().unwrap_or("").trim().to_string();
            f.push((format!("send-failed [{class}]"), format!("message #{i}: {e}; {}", summary())));
            break;
        }
    }
    // --- received sequence == sent sequence
    if got != sent {
        let mut sig = None;
        // classify by the first offending item
        for (k, g) in got.iter().enumerate() {
            let n_sent = sent.iter().filter(|s| s == &g).count();
            let n_got = got.iter().filter(|s| s == &g).count();
            if n_sent == 0 {
                sig = Some(if sent.iter().any(|s| s.len() == g.len()) || k < sent.len() { "message-corrupted" } else { "unknown-message-delivered" });
                break;
            }
            if n_got > n_sent {
                sig = Some("message-delivered-twice");
                break;
            }
        }
        let sig: String = match sig {
            Some(x) => x.to_string(),
            None if got.len() < sent.len() => {
                // got is a proper prefix of sent: message #got.len() is the first one missing
                let st = stage(got.len());
                format!("stall {bufclass} {sched}: message-lost [{st}]{}", split_tag(st))
            }
            None => "order-differs".to_string(),
        };
        let mut detail = format!("{}; {stall}", summary());
        if sig == "message-corrupted" {
            for (k, g) in got.iter().enumerate() {
                if let Some(s) = sent.get(k) {
                    if s != g {
                        let at = s.iter().zip(g.iter()).position(|(a, b)| a != b).unwrap_or(s.len().min(g.len()));
                        detail += &format!("; message #{k} differs from byte {at}: sent ..{} got ..{}", hex(&s[at.saturating_sub(4)..(at + 12).min(s.len())]), hex(&g[at.saturating_sub(4)..(at + 12).min(g.len())]));
                        break;
                    }
                }
            }
        }
        // a message that is missing only because its send hangs / failed is reported once, under the send's class
        if !(sig.contains("message-lost") && !f.is_empty()) {
            f.push((sig, detail));
        }
    }
    f
}

/// "default-schedule", "deviating-schedule" (task order / select branch / IO chunking deviations only) or
/// "deviating-schedule+preempt" (the execution also parks a task at the in-poll preempt point of the sender's
/// credit wait)
fn sched_class(points: &[Point]) -> String {
    let dev = |k: Kind| points.iter().any(|p| p.chosen != 0 && p.kind == k);
    if dev(Kind::Preempt) {
        "deviating-schedule+preempt".into()
    } else if points.iter().any(|p| p.chosen != 0) {
        "deviating-schedule".into()
    } else {
        "default-schedule".into()
    }
}

/// verdicts that need the Exec (panics / busy loop / watchdog)
fn judge_exec(cfg: &Cfg, p: &Prepared, e: &Exec<Obs>) -> (Vec<(String, String)>, Vec<String>) {
    let mut f = vec![];
    let mut mach = vec![];
    if e.watchdog {
        f.push(("real-time-hang".to_string(), format!("the execution did not finish within the real-time watchdog ({})", cfg.short())));
        return (f, mach);
    }
    if e.spun {
        f.push(("busy-loop".to_string(), format!("some task was polled >20000 times at one virtual instant without the system ever blocking ({})", cfg.short())));
    }
    let lib_panics: Vec<&String> = e.panics.iter().filter(|p| !p.contains("vcheck/src")).collect();
    let own_panics: Vec<&String> = e.panics.iter().filter(|p| p.contains("vcheck/src")).collect();
    if !own_panics.is_empty() {
        mach.push(format!("the scenario itself panicked: {:?} ({})", own_panics, cfg.short()));
    }
    if !lib_panics.is_empty() {
        let where_ = lib_panics[0].rsplit(" @ ").next().unwrap_or("").rsplit('/').next().unwrap_or("").split(':').next().unwrap_or("").to_string();
        f.push((format!("library-task-panicked [{where_}]"), format!("{:?}", lib_panics)));
    }
    match &e.out {
        None => {
            if own_panics.is_empty() && lib_panics.is_empty() {
                mach.push(format!("the scenario produced no observation ({})", cfg.short()));
            }
        }
        Some(o) => {
            if let Some(pe) = &o.wire.parse_error {
                mach.push(format!("wire tap: {pe} ({})", cfg.short()));
            }
            if let Some(s) = &o.setup_error {
                // brief, requirement 6: the scenario could not reach its start state - for the owner to look at
                mach.push(format!("set-up failed: {s}; step '{}' ({})", o.step, cfg.short()));
            } else if o.sender_hangs && !o.step.starts_with("send") && !o.step.starts_with("await") {
                mach.push(format!("set-up hangs at step '{}' ({})", o.step, cfg.short()));
            } else {
                f.extend(judge(cfg, p, o, &sched_class(&e.points)));
            }
        }
    }
    (f, mach)
}

/// canonical observable state of an execution (for counting distinct states)
fn obs_key(e: &Exec<Obs>) -> u64 {
    match &e.out {
        None => h64(&("died", e.panics.len(), e.spun, e.watchdog)),
        Some(o) => h64(&(
            &o.setup_error,
            &o.step,
            &o.sends,
            o.sender_hangs,
            o.received.iter().map(|b| h64(b)).collect::<Vec<_>>(),
            (&o.wire.frames_per_delivery, &o.wire.transfer_frame_sizes, o.wire.window_closed, o.wire.window_overrun, o.wire.credit_exhausted),
            o.wire.flows_from_listener,
            o.wire.dispositions,
            e.spun,
        )),
    }
}

// ------------------------------------------------------------------------------------------ enumeration

const CREDITS: [Credit; 4] = [Credit::Auto(1), Credit::Auto(2), Credit::Auto(200), Credit::Manual(1)];
const WINDOWS: [u32; 3] = [1, 2, 5000];
const BUFS: [usize; 3] = [1, 2, 256];
const MFS: [u32; 2] = [512, 4096];

fn m(size: Size, sec: u8) -> Msg {
    Msg { size, sec, settled: None }
}

/// the message sequences of the lattice (1-3 messages; every size class and every section combination occurs;
/// multi-frame first / middle / last; identical neighbours)
fn sequences() -> Vec<Vec<Msg>> {
    use Size::*;
    vec![
        vec![m(B10, 1)],
        vec![m(B0, 0), m(Big, 2)],
        vec![m(CapM1, 3), m(Cap, 0), m(CapP1, 1)],
        vec![m(Big, 1), m(B10, 3), m(Big, 0)],
        vec![m(CapP1, 2), m(B0, 3)],
        vec![m(B10, 0), m(B10, 0), m(Cap, 2)],
    ]
}

/// per-message settled flags used when the link is in mixed mode
fn mixed_flags(seq: &mut [Msg]) {
    let pat = [Some(true), Some(false), None];
    for (i, s) in seq.iter_mut().enumerate() {
        s.settled = pat[i % 3];
    }
}

fn lattice() -> Vec<Cfg> {
    let mut v = vec![];
    for mfs in MFS {
        for cw in WINDOWS {
            for lw in WINDOWS {
                for credit in CREDITS {
                    for snd in 0..3u8 {
                        for rcv in 0..2u8 {
                            for buf in BUFS {
                                for batch in [false, true] {
                                    for seq in sequences() {
                                        let mut seq = seq;
                                        if snd == 2 {
                                            mixed_flags(&mut seq);
                                        }
                                        v.push(Cfg { mfs, mfs_l: mfs, cw, lw, credit, snd, rcv, buf, batch, seq, mms: 0 });
                                    }
                                }
                            }
                        }
                    }
                }
            }
        }
    }
    // the receiving link announces a max-message-size between the frame size and the size of the multi-frame
    // messages: the sending link cuts them into chunks which the frame encoder cuts again
    for mms in [700u64, 1000] {
        for (cw, lw) in [(2u32, 2u32), (5000, 5000)] {
            for snd in 0..3u8 {
                for batch in [false, true] {
                    for seq in sequences() {
                        let mut seq = seq;
                        if snd == 2 {
                            mixed_flags(&mut seq);
                        }
                        v.push(Cfg { mfs: 512, mfs_l: 512, cw, lw, credit: Credit::Auto(200), snd, rcv: (snd % 2), buf: 2, batch, seq, mms });
                    }
                }
            }
        }
    }
    // the two sides announce different max-frame-sizes: the smaller one binds both
    for (mfs, mfs_l) in [(512u32, 4096u32), (4096, 512)] {
        for credit in CREDITS {
            for snd in 0..3u8 {
                for batch in [false, true] {
                    for seq in sequences() {
                        let mut seq = seq;
                        if snd == 2 {
                            mixed_flags(&mut seq);
                        }
                        v.push(Cfg { mfs, mfs_l, cw: 2, lw: 2, credit, snd, rcv: (snd % 2), buf: 2, batch, seq, mms: 0 });
                    }
                }
            }
        }
    }
    v
}

/// the small instances whose schedules are explored exhaustively (within the deviation bound)
fn explored_instances() -> Vec<Cfg> {
    use Size::*;
    let base = Cfg { mfs: 512, mfs_l: 512, cw: 1, lw: 1, credit: Credit::Auto(1), snd: 1, rcv: 0, buf: 1, batch: false, seq: vec![], mms: 0 };
    let c = |f: &dyn Fn(&mut Cfg)| {
        let mut x = base.clone();
        f(&mut x);
        if x.snd == 2 {
            mixed_flags(&mut x.seq);
        }
        x
    };
    vec![
        // everything at its minimum, single-frame messages
        c(&|x| x.seq = vec![m(B10, 0), m(B10, 1)]),
        c(&|x| { x.seq = vec![m(B10, 0), m(B10, 1)]; x.batch = true }),
        c(&|x| { x.seq = vec![m(B0, 2), m(B10, 3), m(B10, 0)]; x.snd = 0 }),
        c(&|x| { x.seq = vec![m(B10, 1), m(B0, 0)]; x.snd = 2; x.rcv = 1 }),
        c(&|x| { x.seq = vec![m(B10, 0), m(B10, 0)]; x.credit = Credit::Manual(1); x.rcv = 1 }),
        c(&|x| { x.seq = vec![m(B10, 3), m(B10, 2)]; x.credit = Credit::Manual(1); x.batch = true; x.snd = 0 }),
        // exact-fit and one-over frames, windows of 1 and 2
        c(&|x| x.seq = vec![m(Cap, 0), m(B10, 1)]),
        c(&|x| { x.seq = vec![m(CapP1, 1), m(B10, 0)]; x.lw = 2; x.cw = 2 }),
        c(&|x| { x.seq = vec![m(CapP1, 0)]; x.lw = 2; x.snd = 0 }),
        c(&|x| { x.seq = vec![m(CapM1, 2), m(CapP1, 3)]; x.lw = 2; x.cw = 1; x.batch = true }),
        // multi-frame message (4 frames at 512): listener window below / at / above the frame count
        c(&|x| { x.seq = vec![m(Big, 1)]; x.lw = 1 }),
        c(&|x| { x.seq = vec![m(Big, 0)]; x.lw = 2; x.snd = 0 }),
        c(&|x| { x.seq = vec![m(Big, 1), m(B10, 0)]; x.lw = 5000; x.cw = 1 }),
        c(&|x| { x.seq = vec![m(B10, 0), m(Big, 2)]; x.lw = 5000; x.cw = 1; x.batch = true; x.rcv = 1 }),
        c(&|x| { x.seq = vec![m(Big, 3), m(Big, 0)]; x.lw = 5000; x.cw = 5000; x.credit = Credit::Auto(2); x.buf = 2 }),
        c(&|x| { x.seq = vec![m(Big, 0), m(B10, 1)]; x.lw = 5000; x.snd = 2; x.credit = Credit::Manual(1) }),
        // credit Auto(1) / Auto(2) against roomy windows, buffers of 1 and 2
        c(&|x| { x.seq = vec![m(B10, 0), m(B10, 1), m(B10, 2)]; x.lw = 5000; x.cw = 5000 }),
        c(&|x| { x.seq = vec![m(B10, 0), m(B10, 1), m(B10, 2)]; x.lw = 5000; x.cw = 5000; x.batch = true; x.credit = Credit::Auto(2) }),
        c(&|x| { x.seq = vec![m(B10, 1), m(CapP1, 0)]; x.lw = 5000; x.cw = 5000; x.snd = 0; x.buf = 2 }),
        // windows of 1 / 2 against plenty of credit
        c(&|x| { x.seq = vec![m(B10, 0), m(B10, 1), m(B10, 2)]; x.credit = Credit::Auto(200); x.batch = true }),
        c(&|x| { x.seq = vec![m(B10, 0), m(B10, 1), m(B10, 2)]; x.credit = Credit::Auto(200); x.snd = 0; x.lw = 2 }),
        // roomy everything (the default-like configuration), 4096-byte frames
        c(&|x| { x.seq = vec![m(B10, 2), m(Big, 1)]; x.mfs = 4096; x.mfs_l = 4096; x.lw = 5000; x.cw = 5000; x.credit = Credit::Auto(200); x.buf = 256; x.rcv = 1 }),
        c(&|x| { x.seq = vec![m(Cap, 1), m(CapP1, 1)]; x.mfs = 4096; x.mfs_l = 512; x.lw = 5000; x.cw = 2; x.credit = Credit::Auto(2); x.buf = 2; x.snd = 2 }),
        c(&|x| { x.seq = vec![m(B10, 0)]; x.snd = 1; x.rcv = 1; x.credit = Credit::Manual(1) }),
    ]
}

/// "pressure" instances: three messages (multi-frame, small, multi-frame) pushed through buffers of 1 / 2 while
/// a small listener window makes the listener answer every transfer frame with a flow: traffic in both
/// directions through the bounded engine channels at the same time
fn pressure_instances() -> Vec<Cfg> {
    use Size::*;
    let mut v = vec![];
    for buf in [1usize, 2] {
        for lw in [1u32, 2] {
            for credit in [Credit::Auto(200), Credit::Auto(1)] {
                for snd in [0u8, 1] {
                    for batch in [false, true] {
                        v.push(Cfg { mfs: 512, mfs_l: 512, cw: 5000, lw, credit, snd, rcv: 0, buf, batch, seq: vec![m(Big, 1), m(B10, 3), m(Big, 0)], mms: 0 });
                    }
                }
            }
        }
    }
    v
}

fn explore_cfg() -> RunCfg {
    RunCfg::default().with(Kind::Read, true).with(Kind::Write, true)
}

fn points_json(p: &[Point]) -> serde_json::Value {
    json!(p.iter().map(|x| json!([x.kind.idx(), x.n, x.chosen])).collect::<Vec<_>>())
}

fn replay_json(cfg: &Cfg, points: &[Point], io: bool) -> serde_json::Value {
    // up to the last deviation; default answers beyond
    let last = points.iter().rposition(|p| p.chosen != 0).map(|i| i + 1).unwrap_or(0);
    json!({"cfg": cfg, "io_choices": io, "schedule": points_json(&points[..last])})
}

#[derive(Default)]
struct Agg {
    executions: u64,
    transitions: u64,
    states: HashSet<u64>,
    /// signature -> (count, first (fewest deviations) detail, replay)
    fails: BTreeMap<String, (u64, usize, String, serde_json::Value)>,
    mach: Vec<String>,
    // non-vacuity
    window_closed: u64,
    window_overrun: u64,
    credit_exhausted: u64,
    split: u64,
    exact_fit: u64,
    one_over_two_frames: u64,
    delivered_msgs: u64,
    hang_split_small_window: u64,
    hang_other: u64,
    split_small_window_total: u64,
}

impl Agg {
    fn fail(&mut self, sig: String, devs: usize, detail: String, replay: serde_json::Value) {
        self.fail_n(sig, 1, devs, detail, replay)
    }
    fn fail_n(&mut self, sig: String, n: u64, devs: usize, detail: String, replay: serde_json::Value) {
        let e = self.fails.entry(sig).or_insert((0, usize::MAX, String::new(), json!(null)));
        e.0 += n;
        if devs < e.1 {
            e.1 = devs;
            e.2 = detail;
            e.3 = replay;
        }
    }
    fn merge(&mut self, o: Agg) {
        self.executions += o.executions;
        self.transitions += o.transitions;
        self.states.extend(o.states);
        for (sig, (count, devs, detail, replay)) in o.fails {
            let e = self.fails.entry(sig).or_insert((0, usize::MAX, String::new(), json!(null)));
            e.0 += count;
            if devs < e.1 {
                e.1 = devs;
                e.2 = detail;
                e.3 = replay;
            }
        }
        for m in o.mach {
            self.mach(m);
        }
        self.window_closed += o.window_closed;
        self.window_overrun += o.window_overrun;
        self.credit_exhausted += o.credit_exhausted;
        self.split += o.split;
        self.exact_fit += o.exact_fit;
        self.one_over_two_frames += o.one_over_two_frames;
        self.delivered_msgs += o.delivered_msgs;
        self.hang_split_small_window += o.hang_split_small_window;
        self.hang_other += o.hang_other;
        self.split_small_window_total += o.split_small_window_total;
    }
    fn mach(&mut self, s: String) {
        if self.mach.len() < 6 {
            self.mach.push(s);
        }
    }
    fn count_wire(&mut self, cfg: &Cfg, p: &Prepared, o: &Obs) {
        let w = &o.wire;
        self.window_closed += w.window_closed as u64;
        self.window_overrun += w.window_overrun as u64;
        self.credit_exhausted += w.credit_exhausted as u64;
        self.split += w.frames_per_delivery.iter().any(|k| *k > 1) as u64;
        self.delivered_msgs += o.received.len() as u64;
        let mfs = cfg.negotiated_mfs() as usize;
        let mut fi = 0usize;
        for (i, k) in w.frames_per_delivery.iter().enumerate() {
            if let Some(s) = cfg.seq.get(i) {
                if s.size == Size::Cap && *k == 1 && w.transfer_frame_sizes.get(fi) == Some(&mfs) && p.enc[i].len() == p.caps[i] {
                    self.exact_fit += 1;
                }
                if s.size == Size::CapP1 && *k == 2 && p.enc[i].len() == p.caps[i] + 1 {
                    self.one_over_two_frames += 1;
                }
            }
            fi += k;
        }
    }
}

fn run_lattice(ctx: &Ctx, cfgs: &[Cfg], calib: &Calib, agg: &mut Agg, deadline: Instant) -> (usize, Vec<String>) {
    struct R {
        key: u64,
        frames: u64,
        fails: Vec<(String, String)>,
        mach: Vec<String>,
        obs: Option<Obs>,
        prepared: Option<Arc<Prepared>>,
        skipped: bool,
    }
    let res = par_map(cfgs, ctx.threads, |_, cfg| {
        if Instant::now() > deadline {
            return R { key: 0, frames: 0, fails: vec![], mach: vec![], obs: None, prepared: None, skipped: true };
        }
        let p = match prepare(cfg, calib) {
            Ok(p) => p,
            Err(e) => return R { key: 0, frames: 0, fails: vec![], mach: vec![format!("{e} ({})", cfg.short())], obs: None, prepared: None, skipped: false },
        };
        let ex = run_exec(vec![], &RunCfg::none(), &scenario(cfg, &p, false));
        let (fails, mach) = judge_exec(cfg, &p, &ex);
        let frames = ex.out.as_ref().map(|o| (o.wire.frames[0] + o.wire.frames[1]) as u64).unwrap_or(0);
        R { key: obs_key(&ex), frames, fails, mach, obs: ex.out, prepared: Some(p), skipped: false }
    });
    let mut done = 0usize;
    let mut samples = vec![];
    for (cfg, r) in cfgs.iter().zip(res) {
        if r.skipped {
            continue;
        }
        done += 1;
        agg.executions += 1;
        agg.transitions += r.frames;
        agg.states.insert(r.key);
        for s in r.mach {
            agg.mach(s);
        }
        if let (Some(o), Some(p)) = (&r.obs, &r.prepared) {
            agg.count_wire(cfg, p, o);
            // verify (not assume) the cause named in the hang signature: how many instances with a transport-split
            // message and a listener window below its frame count hang, and how many hangs are there elsewhere
            let kmax = (0..p.enc.len()).map(|i| frames_needed(p, i)).max().unwrap_or(1);
            let small = kmax > 1 && (cfg.lw as usize) < kmax;
            agg.split_small_window_total += small as u64;
            if o.sender_hangs && o.setup_error.is_none() {
                if small {
                    agg.hang_split_small_window += 1;
                } else {
                    agg.hang_other += 1;
                }
            }
            if samples.len() < 2 && o.wire.frames_per_delivery.iter().any(|k| *k > 1) && o.wire.window_closed && r.fails.is_empty() {
                samples.push(format!("{} => {}", cfg.short(), o.wire.trace.join(" | ")));
            }
        }
        for (sig, detail) in r.fails {
            let trace = r.obs.as_ref().map(|o| o.wire.trace.join("\n    ")).unwrap_or_default();
            agg.fail(sig, 0, format!("[default schedule] {}: {detail}\n  wire:\n    {trace}", cfg.short()), replay_json(cfg, &[], false));
        }
    }
    (done, samples)
}

struct ExploreStats {
    executions: u64,
    complete: bool,
    level: Option<u32>,
    branching: [u64; 5],
}

fn explore_instance(threads: usize, cfg: &Cfg, calib: &Calib, bounds: &Bounds, deadline: Instant, agg: &mut Agg) -> Option<ExploreStats> {
    let p = match prepare(cfg, calib) {
        Ok(p) => p,
        Err(e) => {
            agg.mach(format!("{e} ({})", cfg.short()));
            return None;
        }
    };
    let rc = explore_cfg();
    let sc = scenario(cfg, &p, true);
    if let Err(e) = determinism_check(&rc, &sc, obs_key) {
        agg.mach(format!("determinism self-check: {e} ({})", cfg.short()));
        return None;
    }
    let local = Mutex::new((BTreeMap::<String, (u64, usize, String, Vec<Point>)>::new(), Vec::<String>::new(), HashSet::<u64>::new(), [0u64; 8]));
    let st = explore(&rc, bounds, &sc, threads, deadline, |e| {
        let key = obs_key(e);
        let (fails, mach) = judge_exec(cfg, &p, e);
        let devs = e.points.iter().filter(|x| x.chosen != 0).count();
        let mut g = local.lock().unwrap();
        g.2.insert(key);
        if let Some(o) = &e.out {
            let w = &o.wire;
            g.3[0] += w.window_closed as u64;
            g.3[1] += w.window_overrun as u64;
            g.3[2] += w.credit_exhausted as u64;
            g.3[3] += w.frames_per_delivery.iter().any(|k| *k > 1) as u64;
            g.3[4] += o.received.len() as u64;
        }
        for s in mach {
            if g.1.len() < 3 {
                g.1.push(format!("{s} [schedule {:?}]", dev_list(&e.points)));
            }
        }
        for (sig, detail) in fails {
            // count every occurrence, keep the fewest-deviation representative per signature
            let better = g.0.get(&sig).map(|x| devs < x.1).unwrap_or(true);
            let n = g.0.get(&sig).map(|x| x.0).unwrap_or(0) + 1;
            if better {
                let trace = e.out.as_ref().map(|o| o.wire.trace.join("\n    ")).unwrap_or_default();
                g.0.insert(sig, (n, devs, format!("[schedule deviations {:?}] {}: {detail}\n  wire:\n    {trace}", dev_list(&e.points), cfg.short()), e.points.clone()));
            } else if let Some(x) = g.0.get_mut(&sig) {
                x.0 = n;
            }
        }
        key
    });
    let (fails, mach, keys, cnt) = local.into_inner().unwrap();
    for (sig, (n, devs, detail, points)) in fails {
        agg.fail_n(sig, n, devs, detail, replay_json(cfg, &points, true));
    }
    for s in mach {
        agg.mach(s);
    }
    for d in &st.divergences {
        agg.mach(format!("replay divergence: {d} ({})", cfg.short()));
    }
    agg.states.extend(keys);
    agg.executions += st.executions;
    agg.transitions += st.points_total;
    agg.window_closed += cnt[0];
    agg.window_overrun += cnt[1];
    agg.credit_exhausted += cnt[2];
    agg.split += cnt[3];
    agg.delivered_msgs += cnt[4];
    Some(ExploreStats { executions: st.executions, complete: st.exhaustive, level: st.completed_level, branching: st.branching_points_by_kind })
}

/// explore several instances, `GROUPS` at a time (the first deviation level of one instance is a single
/// execution, so one instance alone cannot keep all cores busy); results in instance order
const GROUPS: usize = 4;
fn explore_many(ctx: &Ctx, cfgs: &[&Cfg], calib: &Calib, bounds: &Bounds, deadline: Instant, agg: &mut Agg) -> Vec<Option<ExploreStats>> {
    let per = (ctx.threads / GROUPS).max(1);
    let res = par_map(cfgs, GROUPS.min(ctx.threads.max(1)), |_, cfg| {
        if Instant::now() > deadline {
            return (Agg::default(), None, true);
        }
        let mut a = Agg::default();
        let st = explore_instance(per, cfg, calib, bounds, deadline, &mut a);
        (a, st, false)
    });
    let mut out = vec![];
    for (a, st, skipped) in res {
        agg.merge(a);
        if skipped {
            out.push(Some(ExploreStats { executions: 0, complete: false, level: None, branching: [0; 5] }));
        } else {
            out.push(st);
        }
    }
    out
}

fn dev_list(points: &[Point]) -> Vec<(usize, String, u32)> {
    points.iter().enumerate().filter(|(_, p)| p.chosen != 0).map(|(i, p)| (i, format!("{:?}", p.kind), p.chosen)).collect()
}

pub fn run(ctx: &Ctx) -> Outcome {
    let mut out = Outcome::new("model_checking");
    if let Some(path) = &ctx.replay {
        return replay(path, out);
    }
    let calib: Calib = Mutex::new(HashMap::new());
    let mut agg = Agg::default();
    let t0 = Instant::now();
    let budget = Duration::from_secs_f64(ctx.budget_s);
    let deadline = ctx.start + budget;

    // ---- (1) the configuration lattice, default schedule
    let all = lattice();
    let lattice_deadline = if ctx.quick() { ctx.start + budget.mul_f64(0.5) } else { ctx.start + budget.mul_f64(0.15) };
    let (lattice_done, mut samples) = run_lattice(ctx, &all, &calib, &mut agg, lattice_deadline);
    let lattice_wall = t0.elapsed().as_secs_f64();
    let lattice_execs = agg.executions;

    // ---- (2) exhaustive schedule exploration of the small instances
    let small = explored_instances();
    let mut inst = small.clone();
    inst.extend(pressure_instances());
    let b1 = Bounds::new(1);
    let mut per_instance = vec![];
    let mut explored_complete = true;
    let mut n_b1 = 0usize;
    // quick: keep clear of the 30 s wall limit whatever the budget says
    let explore_deadline = if ctx.quick() { deadline.min(ctx.start + Duration::from_secs(24)) } else { ctx.start + budget.mul_f64(0.45) };
    let refs: Vec<&Cfg> = inst.iter().collect();
    for (cfg, st) in inst.iter().zip(explore_many(ctx, &refs, &calib, &b1, explore_deadline, &mut agg)) {
        match st {
            Some(s) => {
                explored_complete &= s.complete;
                n_b1 += s.complete as usize;
                per_instance.push(json!({"instance": cfg.short(), "bound": b1.describe(), "executions": s.executions, "complete": s.complete, "completed_level": s.level,
                    "branching_points_default_schedule": {"task": s.branching[0], "select": s.branching[1], "read": s.branching[2], "write": s.branching[3], "preempt": s.branching[4]}}));
            }
            None => explored_complete = false,
        }
    }
    let mut thorough_note = String::new();
    let mut wide_done = 0usize;
    let mut wide_total = 0usize;
    let mut deep_done = 0usize;
    if !ctx.quick() {
        // (3) bound 1 on a few hundred lattice configurations (every k-th, so that every value of every
        // dimension occurs), then (4) task<=2 on the small instances, as far as the budget reaches
        let stride = 31usize; // prime to every dimension's period
        let wide: Vec<&Cfg> = all.iter().step_by(stride).collect();
        wide_total = wide.len();
        let wide_deadline = ctx.start + budget.mul_f64(0.75);
        for st in explore_many(ctx, &wide, &calib, &b1, wide_deadline, &mut agg).into_iter().flatten() {
            wide_done += st.complete as usize;
        }
        let b2 = Bounds::new(2).kind(Kind::Select, 1).kind(Kind::Read, 1).kind(Kind::Write, 1).kind(Kind::Preempt, 1);
        // deep exploration: one instance at a time with all threads (levels 1 and 2 are wide enough)
        for cfg in &small {
            if Instant::now() > deadline {
                break;
            }
            if let Some(s) = explore_instance(ctx.threads, cfg, &calib, &b2, deadline, &mut agg) {
                deep_done += s.complete as usize;
                per_instance.push(json!({"instance": cfg.short(), "bound": b2.describe(), "executions": s.executions, "complete": s.complete, "completed_level": s.level}));
                if !s.complete {
                    break;
                }
            }
        }
        thorough_note = format!("; bound 1 on {wide_done}/{wide_total} further lattice configurations (every {stride}th); [{}] complete on {deep_done}/{} small instances", b2.describe(), small.len());
    }

    // ---- verdicts
    for (sig, (count, _devs, detail, replay)) in std::mem::take(&mut agg.fails) {
        out.violation(sig, format!("(x{count} in this run) {detail}"), replay);
    }
    out.machinery_errors.extend(agg.mach.iter().cloned());
    if agg.hang_other > 0 {
        // the signature names a cause; say so if hangs also occur where that cause is absent
        out.set("hangs_outside_transport_split_small_window", agg.hang_other);
    }

    // ---- evidence
    let exhaustive = lattice_done == all.len() && explored_complete && n_b1 == inst.len() && (ctx.quick() || (wide_done == wide_total && deep_done == small.len()));
    out.set("states", agg.states.len() as u64);
    out.set("transitions", agg.transitions);
    out.set("traces_validated_against_impl", agg.executions);
    out.set("exhaustive", exhaustive);
    out.set(
        "bound",
        format!(
            "lattice: {lattice_done}/{} instances (max-frame-size {{512,4096}} x client window {{1,2,5000}} x listener window {{1,2,5000}} x credit {{Auto(1),Auto(2),Auto(200),Manual(1)}} x snd-settle {{settled,unsettled,mixed}} x rcv-settle {{first,second}} x buffers {{1,2,256}} x {{send,send_batchable}} x 6 sequences of 1-3 messages over 6 size classes and 4 section combinations, + 144 instances with unequal max-frame-sizes), default schedule; schedules: [{}] complete on {n_b1}/{} instances (24 hand-picked small ones + 32 pressure instances){thorough_note}",
            all.len(),
            b1.describe(),
            inst.len()
        ),
    );
    out.set("rule", "state = canonical observation of one execution of the real client+listener pair at its final quiescent point (send results, received re-encodings, frames per delivery and frame sizes on the wire, window/credit exhaustion flags, flow and disposition counts); transitions = scheduling / select / IO choice points executed in the explored executions + wire frames exchanged in the default-schedule executions");
    if samples.is_empty() {
        samples.push("(no sample with a closed window and a split delivery)".into());
    }
    out.set("samples", json!(samples));
    out.set("lattice_instances", lattice_done as u64);
    out.set("lattice_executions", lattice_execs);
    out.set("lattice_wall_s", (lattice_wall * 100.0).round() / 100.0);
    out.set("explored_instances", json!(per_instance));
    out.set("explored_executions", agg.executions - lattice_execs);
    // non-vacuity (measured on the wire by the tap, per execution)
    out.set("nonvacuity_executions_window_really_closed", agg.window_closed);
    out.set("nonvacuity_executions_credit_really_ran_out", agg.credit_exhausted);
    out.set("nonvacuity_executions_with_split_delivery", agg.split);
    out.set("nonvacuity_exact_fit_frames(frame==max-frame-size)", agg.exact_fit);
    out.set("nonvacuity_one_byte_over_needs_two_frames", agg.one_over_two_frames);
    out.set("nonvacuity_messages_delivered", agg.delivered_msgs);
    out.set("info_executions_window_overrun_on_wire(C07)", agg.window_overrun);
    out.set("lattice_instances_split_message_and_listener_window_below_frame_count", agg.split_small_window_total);
    out.set("lattice_hangs_in_those", agg.hang_split_small_window);
    out.set("lattice_hangs_elsewhere", agg.hang_other);
    out.assume("the listener application accepts every delivery; the receiver's credit policy is set through the public Receiver API right after the link is accepted (LinkAcceptor has no credit knob), so Auto(1)/Auto(2)/Manual start as a reduction from the initial 200");
    out.assume("no faults: the connection stays up in every scenario, nobody detaches, ends or closes before the observation");
    if agg.window_closed == 0 || agg.credit_exhausted == 0 || agg.split == 0 || agg.exact_fit == 0 || agg.one_over_two_frames == 0 {
        out.machinery_errors.push(format!(
            "vacuous: window closed {} credit ran out {} split deliveries {} exact-fit frames {} one-over {}",
            agg.window_closed, agg.credit_exhausted, agg.split, agg.exact_fit, agg.one_over_two_frames
        ));
    }
    out
}

fn replay(path: &std::path::Path, mut out: Outcome) -> Outcome {
    let s = std::fs::read_to_string(path).unwrap_or_default();
    let j: serde_json::Value = serde_json::from_str(&s).unwrap_or_default();
    let r = if j.get("replay").is_some() { &j["replay"] } else { &j };
    let cfg: Cfg = match serde_json::from_value(r["cfg"].clone()) {
        Ok(c) => c,
        Err(e) => {
            out.machinery_errors.push(format!("replay file has no usable cfg: {e}"));
            return out;
        }
    };
    let io = r["io_choices"].as_bool().unwrap_or(false);
    let pts: Vec<Point> = r["schedule"]
        .as_array()
        .map(|a| {
            a.iter()
                .filter_map(|x| {
                    let v = x.as_array()?;
                    Some(Point { kind: KINDS[v.first()?.as_u64()? as usize % KINDS.len()], n: v.get(1)?.as_u64()? as u32, chosen: v.get(2)?.as_u64()? as u32 })
                })
                .collect()
        })
        .unwrap_or_default();
    let calib: Calib = Mutex::new(HashMap::new());
    let p = match prepare(&cfg, &calib) {
        Ok(p) => p,
        Err(e) => {
            out.machinery_errors.push(e);
            return out;
        }
    };
    println!("replaying {}", cfg.short());
    println!("  messages: {:?} (single-frame payload room {:?})", p.enc.iter().map(|b| describe_msg(b)).collect::<Vec<_>>(), p.caps);
    println!("  schedule deviations: {:?}", dev_list(&pts));
    let rc = if io { explore_cfg() } else { RunCfg::none() };
    let e = run_exec(pts, &rc, &scenario(&cfg, &p, io));
    println!("  diverged={:?} spun={} watchdog={} panics={:?}", e.diverged, e.spun, e.watchdog, e.panics);
    if let Some(o) = &e.out {
        for l in &o.wire.trace {
            println!("  {l}");
        }
        println!("  sender task: '{}' hangs={} results {:?}", o.step, o.sender_hangs, o.sends);
        println!("  received: {:?}; notes {:?}", o.received.iter().map(|b| describe_msg(b)).collect::<Vec<_>>(), o.recv_notes);
        println!("  wire: frames/delivery {:?} window closed {} overrun {} credit ran out {}", o.wire.frames_per_delivery, o.wire.window_closed, o.wire.window_overrun, o.wire.credit_exhausted);
    }
    if let Some(d) = &e.diverged {
        out.machinery_errors.push(format!("replay diverged: {d}"));
    }
    let (fails, mach) = judge_exec(&cfg, &p, &e);
    for (sig, d) in fails {
        println!("  FAIL {sig}: {d}");
        out.violation(sig, d, r.clone());
    }
    out.machinery_errors.extend(mach);
    out.set("states", 1);
    out.set("transitions", e.points.len().max(1) as u64);
    out.set("traces_validated_against_impl", 1);
    out.set("samples", json!([r]));
    out.set("exhaustive", false);
    out.set("bound", "replay of one execution");
    out.set("rule", "replay");
    out
}
