//! C18 series 1: the controller is the REAL client API (Controller / Transaction / OwnedTransaction, client
//! Connection / Session / Sender on side A), the resource is the real listener on side B.
use super::common::*;
use super::Obs;
use fe2o3_amqp::transaction::{Controller, OwnedTransaction, Transaction, TransactionBase, TransactionDischarge, TransactionPosting};
use fe2o3_amqp::{Connection, Sender, Session};
use fe2o3_amqp_types::messaging::Outcome;
use fe2o3_amqp_types::performatives::{Performative, Transfer};
use std::time::Duration;
use tokio::time::timeout;
use vlib::util::{h64, hex};
use vlib::vpipe::Pipe;

const T: Duration = Duration::from_secs(5);

async fn quiesce() {
    for _ in 0..3 {
        tokio::time::sleep(Duration::from_millis(1)).await;
    }
}

pub async fn scenario(owned: bool, events: Vec<Ev>) -> Obs {
    let series = if owned { Series::S1Owned } else { Series::S1Shared };
    let mut obs = Obs::default();
    let (pipe, a, b) = Pipe::new();
    let sh: Sh = Default::default();
    spawn_listener(b, sh.clone());
    macro_rules! setup {
        ($what:expr, $fut:expr) => {
            match timeout(T, $fut).await {
                Ok(Ok(v)) => v,
                Ok(Err(e)) => {
                    obs.machinery = Some(format!("{}: set-up step '{}' failed: {:?}", series.tag(), $what, e));
                    return obs;
                }
                Err(_) => {
                    obs.machinery = Some(format!("{}: set-up step '{}' hangs", series.tag(), $what));
                    return obs;
                }
            }
        };
    }
    let mut conn = setup!("open", Connection::builder().container_id("client").max_frame_size(MFS).open_with_stream(a));
    let mut session = setup!("begin", Session::begin(&mut conn));
    let mut s1 = setup!("attach link-1", Sender::attach(&mut session, "link-1", "q1"));
    let mut s2 = setup!("attach link-2", Sender::attach(&mut session, "link-2", "q2"));
    quiesce().await;

    let mut model = Model::default();
    let mut ctrl: Option<&'static Controller> = None;
    let mut ctl_count = 0usize;
    let mut tx_shared: [Option<Transaction<'static>>; 2] = [None, None];
    let mut tx_owned: [Option<OwnedTransaction>; 2] = [None, None];
    let mut session_alive = true;
    let mut dropped_id: Option<Vec<u8>> = None;
    let mut wire_mark = tap(&pipe, 0).len();
    obs.state_keys.push(h64(&(model.key(), false, true)));

    for (i, ev) in events.iter().enumerate() {
        let enabled = session_alive
            && match ev {
                Ev::Declare => model.free_slot().is_some(),
                Ev::Post { txn: 0, .. } => true,
                Ev::Post { txn, .. } | Ev::Commit(txn) | Ev::Rollback(txn) => model.live(*txn),
                Ev::X1 => {
                    if owned {
                        model.live(1)
                    } else {
                        ctrl.is_some()
                    }
                }
                Ev::X2 => {
                    if owned {
                        model.live(2)
                    } else {
                        ctrl.is_some()
                    }
                }
                Ev::SessionEnd => true,
                Ev::X3 => !owned && model.live(1),
                Ev::CloseLink(_) | Ev::AttachReuse(_) => false,
            };
        if !enabled {
            break;
        }
        let name = ev_name(series, *ev);
        obs.trace.push(format!("-- event {}: {}", i + 1, name));
        let mut fail: Option<(String, String)> = None;
        // id under which this event's wire traffic must go out
        let mut want_post: Option<(u8, Option<Vec<u8>>)> = None;
        let mut want_discharge: Option<(Vec<u8>, bool)> = None;
        match *ev {
            Ev::Declare => {
                let slot = model.free_slot().unwrap();
                let id: Option<Vec<u8>> = if owned {
                    ctl_count += 1;
                    match timeout(T, OwnedTransaction::declare(&mut session, format!("ctl-{ctl_count}"), None)).await {
                        Ok(Ok(t)) => {
                            let id = t.txn_id().to_vec();
                            tx_owned[slot] = Some(t);
                            Some(id)
                        }
                        Ok(Err(e)) => {
                            fail = Some(("declare-failed".into(), format!("OwnedTransaction::declare returned {e:?}")));
                            None
                        }
                        Err(_) => {
                            fail = Some(("declare-hangs".into(), "OwnedTransaction::declare did not return".into()));
                            None
                        }
                    }
                } else {
                    if ctrl.is_none() {
                        ctl_count += 1;
                        match timeout(T, Controller::attach(&mut session, format!("ctl-{ctl_count}"))).await {
                            Ok(Ok(c)) => ctrl = Some(Box::leak(Box::new(c))),
                            Ok(Err(e)) => fail = Some(("control-link-attach-failed".into(), format!("Controller::attach returned {e:?}"))),
                            Err(_) => fail = Some(("control-link-attach-hangs".into(), "Controller::attach did not return".into())),
                        }
                    }
                    match ctrl {
                        None => None,
                        Some(c) => match timeout(T, Transaction::declare(c, None)).await {
                            Ok(Ok(t)) => {
                                let id = t.txn_id().to_vec();
                                tx_shared[slot] = Some(t);
                                Some(id)
                            }
                            Ok(Err(e)) => {
                                fail = Some(("declare-failed".into(), format!("Transaction::declare returned {e:?}")));
                                None
                            }
                            Err(_) => {
                                fail = Some(("declare-hangs".into(), "Transaction::declare did not return".into()));
                                None
                            }
                        },
                    }
                };
                if let Some(id) = id {
                    obs.trace.push(format!("   declared t{} = {}", slot + 1, hex(&id)));
                    obs.declares += 1;
                    if !model.declare(slot, id.clone()) {
                        fail = Some(("declare-returned-used-txn-id".into(), format!("declare returned txn-id {} which an earlier declare of this history had already returned", hex(&id))));
                    }
                }
            }
            Ev::Post { link, txn } => {
                let body = body_for(link, i);
                let label = label_for(link, i);
                let sender = if link == 1 { &mut s1 } else { &mut s2 };
                // every other post (by position in the history) is sent pre-settled
                let body = fe2o3_amqp::Sendable::builder().message(body).settled(i % 2 == 1).build();
                let res: Result<Result<Outcome, String>, ()> = if txn == 0 {
                    timeout(T, sender.send(body)).await.map(|r| r.map_err(|e| format!("{e:?}"))).map_err(|_| ())
                } else if owned {
                    let t = tx_owned[txn as usize - 1].as_ref().unwrap();
                    timeout(T, t.post(sender, body)).await.map(|r| r.map_err(|e| format!("{e:?}"))).map_err(|_| ())
                } else {
                    let t = tx_shared[txn as usize - 1].as_ref().unwrap();
                    timeout(T, t.post(sender, body)).await.map(|r| r.map_err(|e| format!("{e:?}"))).map_err(|_| ())
                };
                let idw = if txn == 0 { None } else { model.ids[txn as usize - 1].clone() };
                want_post = Some((link, idw));
                match res {
                    Ok(Ok(Outcome::Accepted(_))) => {
                        model.post(link, txn, label);
                        if txn != 0 {
                            obs.txn_posts += 1;
                        }
                    }
                    Ok(Ok(o)) => fail = Some(("valid-post-not-accepted".into(), format!("{name} was answered with outcome {o:?}"))),
                    Ok(Err(e)) => fail = Some(("valid-post-failed".into(), format!("{name} returned {e}"))),
                    Err(()) => fail = Some(("post-hangs".into(), format!("{name} did not return within 5 s of virtual time"))),
                }
            }
            Ev::Commit(t) | Ev::Rollback(t) => {
                let commit = matches!(ev, Ev::Commit(_));
                let idx = t as usize - 1;
                want_discharge = Some((model.ids[idx].clone().unwrap(), !commit));
                let res: Result<Result<(), String>, ()> = if owned {
                    let tx = tx_owned[idx].take().unwrap();
                    if commit {
                        timeout(T, tx.commit()).await.map(|r| r.map_err(|e| format!("{e:?}"))).map_err(|_| ())
                    } else {
                        timeout(T, tx.rollback()).await.map(|r| r.map_err(|e| format!("{e:?}"))).map_err(|_| ())
                    }
                } else {
                    let tx = tx_shared[idx].take().unwrap();
                    if commit {
                        timeout(T, tx.commit()).await.map(|r| r.map_err(|e| format!("{e:?}"))).map_err(|_| ())
                    } else {
                        timeout(T, tx.rollback()).await.map(|r| r.map_err(|e| format!("{e:?}"))).map_err(|_| ())
                    }
                };
                match res {
                    Ok(Ok(())) => {
                        if commit {
                            if !model.pending[idx].is_empty() {
                                obs.commits_with_posts += 1;
                            }
                            model.commit(t);
                        } else {
                            model.rollback(t);
                        }
                    }
                    // each id can be discharged once: the first discharge of a live id must succeed
                    Ok(Err(e)) => fail = Some(("discharge-of-live-txn-failed".into(), format!("{name} returned {e}"))),
                    Err(()) => fail = Some(("discharge-hangs".into(), format!("{name} did not return within 5 s of virtual time"))),
                }
            }
            Ev::X1 | Ev::X2 if owned => {
                // dropping an undischarged OwnedTransaction: best-effort rollback + the control link goes away
                let idx = if matches!(ev, Ev::X1) { 0 } else { 1 };
                drop(tx_owned[idx].take());
                model.abort(idx as u8 + 1);
            }
            Ev::X1 | Ev::X2 => {
                // the shared control link goes away WITHOUT a discharge: forget the transaction handles so that
                // their Drop does not send a rollback
                for t in tx_shared.iter_mut() {
                    if let Some(t) = t.take() {
                        std::mem::forget(t);
                    }
                }
                let c = ctrl.take().unwrap();
                // SAFETY: `c` came from Box::leak above and every borrower (the transactions) was just forgotten
                let boxed: Box<Controller> = unsafe { Box::from_raw(c as *const Controller as *mut Controller) };
                if matches!(ev, Ev::X1) {
                    match timeout(T, boxed.close()).await {
                        Ok(r) => obs.trace.push(format!("   controller.close() -> {:?}", r.map_err(|e| format!("{e:?}")))),
                        Err(_) => obs.trace.push("   controller.close() still pending after 5 s".into()),
                    }
                } else {
                    drop(boxed);
                }
                model.abort_all_live();
            }
            Ev::X3 => {
                // dropping an undischarged borrowed Transaction: best-effort rollback over the shared control link,
                // which stays attached.  Permissive reading: whether or not the rollback takes effect, the posts
                // of this transaction are never delivered
                dropped_id = model.ids[0].clone();
                drop(tx_shared[0].take());
                model.abort(1);
            }
            Ev::CloseLink(_) | Ev::AttachReuse(_) => {}
            Ev::SessionEnd => {
                match timeout(T, session.end()).await {
                    Ok(r) => obs.trace.push(format!("   session.end() -> {:?}", r.map_err(|e| format!("{e:?}")))),
                    Err(_) => obs.trace.push("   session.end() still pending after 5 s".into()),
                }
                session_alive = false;
                model.abort_all_live();
            }
        }
        // drop() of a transaction handle is synchronous: the application's next call follows it immediately, before
        // the resource has answered the rollback (every other event is followed by quiescence)
        if !matches!(ev, Ev::X3) {
            quiesce().await;
        }
        obs.executed = i + 1;
        // ---- the wire of this event (controller side, last sentence of the statement)
        let frames = tap(&pipe, 0);
        let new = &frames[wire_mark.min(frames.len())..];
        for f in new {
            obs.trace.push(format!("   {}", tshort(f)));
        }
        let all_attaches: Vec<(String, u32, bool)> = frames
            .iter()
            .filter_map(|f| match &f.perf {
                Performative::Attach(a) => Some((a.name.clone(), a.handle.0, is_coord(&a.target))),
                _ => None,
            })
            .collect();
        let handle_of = |n: &str| all_attaches.iter().rev().find(|(name, _, _)| name == n).map(|x| x.1);
        if let Some((link, idw)) = &want_post {
            if let Some(h) = handle_of(&format!("link-{link}")) {
                let trs: Vec<&Transfer> = new
                    .iter()
                    .filter_map(|f| match &f.perf {
                        Performative::Transfer(t) if t.handle.0 == h => Some(t),
                        _ => None,
                    })
                    .collect();
                if *link == 2 {
                    if trs.len() >= 3 {
                        obs.multi_frame_posts += 1;
                    } else if fail.is_none() {
                        obs.machinery = Some(format!("{}: a link-2 post went out in {} frame(s), expected >= 3 (non-vacuity)", series.tag(), trs.len()));
                    }
                }
                if fail.is_none() {
                    if let Some(x) = judge_post_wire(&trs, idw.as_deref()).into_iter().next() {
                        fail = Some(x);
                    }
                }
            }
        }
        if let (Some((id, want_fail)), None) = (&want_discharge, &fail) {
            let coord_handles: Vec<u32> = all_attaches.iter().filter(|a| a.2).map(|a| a.1).collect();
            let ds: Vec<_> = new
                .iter()
                .filter_map(|f| match &f.perf {
                    Performative::Transfer(t) if coord_handles.contains(&t.handle.0) => match decode_ctl(&f.payload) {
                        // a discharge naming the dropped transaction is its rollback-on-drop, not this event's
                        Some(CtlBody::Discharge(d)) if Some(d.txn_id.as_slice()) != dropped_id.as_deref() => Some(d),
                        _ => None,
                    },
                    _ => None,
                })
                .collect();
            if ds.len() != 1 {
                fail = Some(("discharge-not-on-the-wire".into(), format!("{name}: {} discharge messages were written on the control link, expected exactly one", ds.len())));
            } else {
                let d = &ds[0];
                if d.txn_id.as_slice() != id.as_slice() {
                    fail = Some(("discharge-carries-wrong-txn-id".into(), format!("{name}: discharge carries txn-id {} instead of {}", hex(&d.txn_id), hex(id))));
                } else if d.fail.unwrap_or(false) != *want_fail {
                    fail = Some(("discharge-carries-wrong-fail-flag".into(), format!("{name}: discharge carries fail={:?}", d.fail)));
                }
            }
        }
        wire_mark = frames.len();
        // ---- the oracle: application log == reference model at this quiescent state
        let log = sh.lock().unwrap().log.clone();
        obs.trace.push(format!("   application log: {:?}", log));
        if model.pending.iter().any(|p| !p.is_empty()) {
            obs.withheld_states += 1;
        }
        let mut from_log = false;
        if fail.is_none() {
            fail = model.judge_log(&log);
            from_log = fail.is_some();
        }
        obs.state_keys.push(h64(&(model.key(), ctrl.is_some(), session_alive, log.len())));
        if let Some((sig, detail)) = fail {
            // one canonical class for everything that goes wrong in the call that immediately follows the drop of an
            // undischarged transaction handle on the same control link
            let after_drop = !from_log && matches!(sig.as_str(), "declare-failed" | "declare-hangs" | "discharge-of-live-txn-failed" | "discharge-hangs") && i > 0 && matches!(events[i - 1], Ev::X3) && !owned && matches!(ev, Ev::Declare | Ev::Commit(_) | Ev::Rollback(_));
            let sig = if after_drop { format!("controller: outcome-misreported-after-rollback-on-drop ({})", match ev { Ev::Declare => "declare", _ => "discharge" }) } else { sig };
            obs.fails.push((sig, format!("after event {} ({name}): {detail}", i + 1)));
            break;
        }
    }
    for n in sh.lock().unwrap().notes.iter() {
        obs.trace.push(format!("   note: {n}"));
    }
    // never run the rollback-on-drop of still-live transaction handles during tear-down
    for t in tx_shared.iter_mut() {
        if let Some(t) = t.take() {
            std::mem::forget(t);
        }
    }
    for t in tx_owned.iter_mut() {
        if let Some(mut t) = t.take() {
            t.set_rollback_on_drop_trials(0);
            drop(t);
        }
    }
    drop(s1);
    drop(s2);
    drop(session);
    drop(conn);
    obs
}
