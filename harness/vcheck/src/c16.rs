//! C16 - cancelling a pending send or recv loses nothing and corrupts nothing.
//!
//! Cancel-point enumeration on the real links: the recv / send future is polled by hand and, for every
//! k up to completion, dropped after its k-th poll (the system runs to quiescence between polls);
//! repeated cancellation as in a select! loop; then the operation is retried.
use crate::scen;
use fe2o3_amqp::link::receiver::CreditMode;
use fe2o3_amqp::link::{Receiver, Sender};
use fe2o3_amqp::Session;
use fe2o3_amqp_types::definitions::{Handle, SenderSettleMode};
use fe2o3_amqp_types::messaging::message::__private::Serializable;
use fe2o3_amqp_types::messaging::{Body, Message};
use fe2o3_amqp_types::performatives::*;
use serde_amqp::Value;
use serde_json::json;
use std::sync::Arc;
use std::time::Duration;
use vlib::peer::{drive, settle, trace_to_strings, Auto, Body as WBody, Dirn};
use vlib::report::{Ctx, Outcome};
use vlib::runner::{run_exec, RunCfg, Scenario};
use vlib::util::{h64, par_map};

#[derive(Debug, Clone, Copy, PartialEq, Eq, Hash)]
pub struct RecvCase {
    /// frames per message (1 or 3)
    pub frames: usize,
    pub auto_accept: bool,
    /// the first `cancels` recv futures are dropped after `k` polls each
    pub k: usize,
    pub cancels: usize,
    /// frames arrive one per quiescent step (true) or all messages at once before the first poll (false)
    pub stepwise: bool,
    /// link->session channel capacity (session buffer size; 0 = the default): with 1 the frames recv() itself
    /// sends (auto-accept disposition, credit flow) have to wait for each other
    pub buffer: usize,
    /// n of CreditMode::Auto(n): with 1 every delivery is followed by a credit flow
    pub credit: u32,
}

#[derive(Debug, Clone, Default)]
pub struct RecvObs {
    pub received: Vec<String>,
    pub errors: Vec<String>,
    pub sent: Vec<String>,
    pub polls_needed_max: usize,
    pub cancelled_with_progress: usize,
    pub trace: Vec<String>,
    pub machinery: Option<String>,
}

const N_MSGS: usize = 3;

fn msg_payload(i: usize, frames: usize) -> (String, Vec<u8>) {
    let body = if frames == 1 { format!("m{i}") } else { format!("m{i}-{}", "x".repeat(60)) };
    let p = serde_amqp::to_vec(&Serializable(Message::builder().value(body.clone()).build())).unwrap();
    (body, p)
}

pub async fn recv_scenario(case: RecvCase) -> RecvObs {
    let mut obs = RecvObs::default();
    let mut auto = Auto::default();
    auto.max_frame_size = 4096;
    let mut c = match scen::open_client(auto, 4096).await {
        Ok(c) => c,
        Err(e) => {
            obs.machinery = Some(e);
            return obs;
        }
    };
    let sb = if case.buffer == 0 { Session::builder() } else { Session::builder().buffer_size(case.buffer) };
    let mut session = match scen::begin(&mut c, sb).await {
        Ok(s) => s,
        Err(e) => {
            obs.machinery = Some(e);
            return obs;
        }
    };
    let r = drive(
        &mut c.peer,
        Receiver::builder().name("r").source("q").credit_mode(CreditMode::Auto(case.credit)).auto_accept(case.auto_accept).attach(&mut session),
        scen::H,
    )
    .await;
    let mut receiver = match r {
        Some(Ok(r)) => r,
        other => {
            obs.machinery = Some(format!("attach failed: {:?}", other.map(|r| r.map(|_| ()).map_err(|e| e.to_string()))));
            return obs;
        }
    };
    let our_handle = c.peer.links.last().map(|l| l.our_handle).unwrap_or(0);
    settle(&mut c.peer, 1).await;
    // the frames the peer will send: N messages, each in `frames` pieces
    let mut wire: Vec<(Transfer, Vec<u8>)> = vec![];
    for i in 0..N_MSGS {
        let (body, p) = msg_payload(i, case.frames);
        obs.sent.push(body);
        let n = case.frames;
        let chunk = (p.len() + n - 1) / n;
        for (j, piece) in p.chunks(chunk).enumerate() {
            let last = (j + 1) * chunk >= p.len();
            let t = Transfer {
                handle: Handle(our_handle),
                delivery_id: if j == 0 { Some(i as u32) } else { None },
                delivery_tag: if j == 0 { Some(serde_bytes::ByteBuf::from(vec![i as u8])) } else { None },
                message_format: if j == 0 { Some(0) } else { None },
                settled: Some(false),
                more: !last,
                rcv_settle_mode: None,
                state: None,
                resume: false,
                aborted: false,
                batchable: false,
            };
            wire.push((t, piece.to_vec()));
        }
    }
    let mut next_frame = 0usize;
    if !case.stepwise {
        for (t, p) in &wire {
            c.peer.send_perf(0, Performative::Transfer(t.clone()), p);
        }
        next_frame = wire.len();
        settle(&mut c.peer, 2).await;
    }
    let mut cancels_left = case.cancels;
    let mut guard = 0;
    while obs.received.len() + obs.errors.len() < N_MSGS && guard < 200 {
        guard += 1;
        let frames_before = next_frame;
        let mut fut = Box::pin(receiver.recv::<Value>());
        let mut polls = 0usize;
        let limit = if cancels_left > 0 { Some(case.k) } else { None };
        let mut done = None;
        loop {
            if let Some(l) = limit {
                if polls >= l {
                    break;
                }
            }
            // one more frame arrives, the system settles, then the application polls its future
            if case.stepwise && next_frame < wire.len() {
                let (t, p) = &wire[next_frame];
                c.peer.send_perf(0, Performative::Transfer(t.clone()), p);
                next_frame += 1;
            }
            settle(&mut c.peer, 1).await;
            polls += 1;
            match futures_util::poll!(fut.as_mut()) {
                std::task::Poll::Ready(r) => {
                    done = Some(r);
                    break;
                }
                std::task::Poll::Pending => {}
            }
            if polls > 40 {
                break;
            }
        }
        obs.polls_needed_max = obs.polls_needed_max.max(polls);
        drop(fut);
        match done {
            Some(Ok(d)) => {
                let b = match d.body() {
                    Value::String(s) => s.clone(),
                    o => format!("{:?}", o),
                };
                obs.received.push(b);
                if !case.auto_accept {
                    let _ = drive(&mut c.peer, receiver.accept(&d), scen::H).await;
                }
            }
            Some(Err(e)) => {
                obs.errors.push(e.to_string());
            }
            None => {
                if limit.is_some() {
                    cancels_left -= 1;
                    if next_frame > frames_before {
                        obs.cancelled_with_progress += 1;
                    }
                } else {
                    // not cancelled and still pending after 40 polls with everything delivered: a lost delivery
                    break;
                }
            }
        }
    }
    settle(&mut c.peer, 2).await;
    obs.trace = trace_to_strings(&c.peer.trace);
    drop(receiver);
    obs
}

fn judge_recv(case: &RecvCase, o: &RecvObs) -> Vec<(String, String)> {
    let mut f = vec![];
    let what = format!("{:?}", case);
    if !o.errors.is_empty() {
        f.push((
            format!("recv-error-after-cancel frames={} {}", case.frames, if case.k == 0 { "k=0" } else { "k>0" }),
            format!("{what}: after cancelled recv futures a later recv returned {:?}; sent {:?}, received {:?}", o.errors, o.sent, o.received),
        ));
    }
    if o.received != o.sent && o.errors.is_empty() {
        let kind = if o.received.len() < o.sent.len() {
            "delivery-lost"
        } else if o.received.len() > o.sent.len() {
            "delivery-duplicated"
        } else {
            "delivery-changed-or-reordered"
        };
        f.push((
            // (the capacity class is part of the class: with capacity 1 the frames recv() itself has to send can
            // wait for each other, which is where the one known loss happens)
            format!("{kind} frames={} auto_accept={} link->session capacity {}", case.frames, case.auto_accept, if case.buffer == 1 { "1" } else { "roomy" }),
            format!("{what}: the completed recv calls returned {:?}, the peer sent {:?}", o.received, o.sent),
        ));
    }
    f
}

// ------------------------------------------------------------------------------------------------ send
#[derive(Debug, Clone, Copy, PartialEq, Eq, Hash)]
pub struct SendCase {
    /// body size class: 0 = small (1 frame), 1 = large (3 frames at max-frame-size 512)
    pub large: bool,
    pub settled: bool,
    /// credit available when the cancelled send starts
    pub credit_first: bool,
    pub k: usize,
    pub cancels: usize,
    /// link->session channel capacity (session buffer size)
    pub buffer: usize,
    /// the transport's write side is stalled while the cancelled send runs
    pub stalled: bool,
    /// the LINK splits the large message (sender max-message-size 400): the frames of one delivery are handed
    /// to the session one by one, each through its own await
    pub link_split: bool,
    /// the SENDER's max-message-size equals the encoded size of the cancelled message exactly: it
    /// fits, so the link must hand it over as ONE transfer (no await between pieces of a delivery)
    pub exact_fit: bool,
}

#[derive(Debug, Clone, Default)]
pub struct SendObs {
    /// bodies of complete deliveries seen by the peer, in order
    pub delivered: Vec<String>,
    pub partial: bool,
    pub later_results: Vec<String>,
    pub later_hung: bool,
    pub cancelled_after_transfer_written: usize,
    pub panics_hint: bool,
    pub trace: Vec<String>,
    pub machinery: Option<String>,
}

pub async fn send_scenario(case: SendCase) -> SendObs {
    let mut obs = SendObs::default();
    let mut auto = Auto::default();
    auto.max_frame_size = 512;
    auto.incoming_window = 100_000;
    let mut c = match scen::open_client(auto, 512).await {
        Ok(c) => c,
        Err(e) => {
            obs.machinery = Some(e);
            return obs;
        }
    };
    let mut session = match scen::begin(&mut c, Session::builder().buffer_size(case.buffer)).await {
        Ok(s) => s,
        Err(e) => {
            obs.machinery = Some(e);
            return obs;
        }
    };
    let s = drive(
        &mut c.peer,
        Sender::builder()
            .name("s")
            .target("q")
            .sender_settle_mode(if case.settled { SenderSettleMode::Settled } else { SenderSettleMode::Unsettled })
            .max_message_size(if case.link_split {
                400u64
            } else if case.exact_fit {
                serde_amqp::to_vec(&Serializable(Message::builder().value("cancelled0".to_string()).build())).map(|v| v.len() as u64).unwrap_or(0)
            } else {
                0
            })
            .attach(&mut session),
        scen::H,
    )
    .await;
    let mut sender = match s {
        Some(Ok(s)) => s,
        other => {
            obs.machinery = Some(format!("attach failed: {:?}", other.map(|r| r.map(|_| ()).map_err(|e| e.to_string()))));
            return obs;
        }
    };
    let lib_handle = c.peer.links.last().map(|l| l.lib_handle).unwrap_or(0);
    settle(&mut c.peer, 1).await;
    // the receiver grants one credit at a time: a leaked credit starves the link
    if case.credit_first {
        c.peer.grant(0, lib_handle, 1);
        settle(&mut c.peer, 1).await;
    }
    let mk = |tag: &str, large: bool| -> Message<fe2o3_amqp_types::messaging::AmqpValue<String>> {
        let body = if large { format!("{tag}-{}", "y".repeat(1100)) } else { tag.to_string() };
        Message::builder().value(body).build()
    };
    // ---- the cancelled sends
    for n in 0..case.cancels {
        if case.stalled {
            c.pipe.stall_writes(0, true);
        }
        {
            let mut fut = Box::pin(sender.send(mk(&format!("cancelled{n}"), case.large)));
            let mut polls = 0;
            let mut finished = false;
            while polls < case.k {
                polls += 1;
                if let std::task::Poll::Ready(_) = futures_util::poll!(fut.as_mut()) {
                    finished = true;
                    break;
                }
                // quiescence between polls; grant credit after the first poll if it was not there
                if !case.credit_first && polls == 1 {
                    c.peer.grant(0, lib_handle, 1);
                }
                tokio::time::sleep(Duration::from_millis(1)).await;
                if !case.stalled {
                    c.peer.pump();
                }
            }
            drop(fut);
            let _ = finished;
        }
        if case.stalled {
            c.pipe.stall_writes(0, false);
        }
        settle(&mut c.peer, 2).await;
        let wrote = c.peer.trace.iter().any(|w| w.dir == Dirn::FromLib && matches!(&w.body, WBody::Perf(Performative::Transfer(_))));
        if wrote {
            obs.cancelled_after_transfer_written += 1;
        }
        // accept whatever complete delivery arrived (the receiver cannot know the send was cancelled) and re-grant
        accept_and_regrant(&mut c.peer, lib_handle);
        settle(&mut c.peer, 2).await;
    }
    // ---- later sends must be delivered intact, in order, and must not starve
    for n in 0..2 {
        accept_and_regrant(&mut c.peer, lib_handle);
        let mut fut = Box::pin(sender.send(mk(&format!("later{n}"), n == 1 && case.large)));
        let mut res = None;
        for _ in 0..60 {
            if let std::task::Poll::Ready(r) = futures_util::poll!(fut.as_mut()) {
                res = Some(r);
                break;
            }
            tokio::time::sleep(Duration::from_millis(1)).await;
            c.peer.pump();
            accept_and_regrant(&mut c.peer, lib_handle);
        }
        drop(fut);
        match res {
            Some(r) => obs.later_results.push(format!("{:?}", r.map(|o| format!("{:?}", o)).map_err(|e| e.to_string()))),
            None => {
                obs.later_hung = true;
                break;
            }
        }
    }
    settle(&mut c.peer, 2).await;
    // what the peer saw
    let mut cur: Option<Vec<u8>> = None;
    for w in c.peer.trace.iter().filter(|w| w.dir == Dirn::FromLib) {
        if let WBody::Perf(Performative::Transfer(t)) = &w.body {
            if t.delivery_id.is_some() && cur.is_some() {
                // a new delivery starts while the previous one never finished
                obs.partial = true;
            }
            let mut b = if t.delivery_id.is_some() { vec![] } else { cur.take().unwrap_or_default() };
            if t.delivery_id.is_some() {
                cur = None;
            }
            b.extend_from_slice(&w.payload);
            if t.more {
                cur = Some(b);
            } else if !t.aborted {
                let tag = serde_amqp::from_slice::<fe2o3_amqp_types::messaging::message::__private::Deserializable<Message<Body<Value>>>>(&b)
                    .ok()
                    .and_then(|m| match m.0.body {
                        Body::Value(v) => match v.0 {
                            Value::String(s) => Some(s.split('-').next().unwrap_or("").to_string()),
                            _ => None,
                        },
                        _ => None,
                    })
                    .unwrap_or_else(|| "UNDECODABLE".to_string());
                obs.delivered.push(tag);
            }
        }
    }
    if cur.is_some() {
        obs.partial = true;
    }
    obs.trace = trace_to_strings(&c.peer.trace);
    drop(sender);
    obs
}

/// scripted receiver: settle every complete unsettled delivery it has not settled yet, then grant one credit
fn accept_and_regrant(peer: &mut vlib::peer::Peer, lib_handle: u32) {
    peer.pump();
    let mut to_settle = vec![];
    let mut settled_ids: Vec<u32> = vec![];
    for w in &peer.trace {
        match (&w.body, w.dir) {
            (WBody::Perf(Performative::Disposition(d)), Dirn::FromPeer) => settled_ids.push(d.first),
            _ => {}
        }
    }
    let mut cur_id = None;
    let mut cur_settled = false;
    for w in &peer.trace {
        if let (WBody::Perf(Performative::Transfer(t)), Dirn::FromLib) = (&w.body, w.dir) {
            if let Some(id) = t.delivery_id {
                cur_id = Some(id);
                cur_settled = t.settled.unwrap_or(false);
            }
            if !t.more {
                if let Some(id) = cur_id.take() {
                    if !cur_settled && !settled_ids.contains(&id) {
                        to_settle.push(id);
                    }
                }
            }
        }
    }
    for id in to_settle {
        peer.send(
            0,
            Performative::Disposition(Disposition {
                role: fe2o3_amqp_types::definitions::Role::Receiver,
                first: id,
                last: None,
                settled: true,
                state: Some(fe2o3_amqp_types::messaging::DeliveryState::Accepted(fe2o3_amqp_types::messaging::Accepted {})),
                batchable: false,
            }),
        );
    }
    // one credit at a time, with the receiver's own count of deliveries seen
    let credit_now = peer.links.iter().find(|l| l.lib_handle == lib_handle && !l.detached).map(|l| l.credit).unwrap_or(0);
    if credit_now == 0 {
        peer.grant(0, lib_handle, 1);
    }
}

fn judge_send(case: &SendCase, o: &SendObs) -> Vec<(String, String)> {
    let mut f = vec![];
    let what = format!("{:?}", case);
    if o.partial {
        f.push((
            format!("partial-delivery-on-the-wire large={}{}", case.large, if case.link_split { " link-split" } else if case.exact_fit { " exact-fit" } else { "" }),
            format!("{what}: a delivery was started (more=true) and never completed before the next one began; deliveries {:?}", o.delivered),
        ));
    }
    // cancelled messages: each at most once
    for n in 0..case.cancels {
        let cnt = o.delivered.iter().filter(|d| **d == format!("cancelled{n}")).count();
        if cnt > 1 {
            f.push(("cancelled-send-delivered-twice".into(), format!("{what}: cancelled message {n} was delivered {cnt} times: {:?}", o.delivered)));
        }
    }
    if o.delivered.iter().any(|d| d == "UNDECODABLE") {
        f.push((format!("corrupted-delivery large={}", case.large), format!("{what}: a delivery on the wire does not decode: {:?}", o.delivered)));
    }
    // later sends: delivered exactly once, in order, and completed
    let later: Vec<&String> = o.delivered.iter().filter(|d| d.starts_with("later")).collect();
    if o.later_hung {
        f.push((
            format!("later-send-starved{} settled={} credit_first={}", if case.link_split { " link-split" } else if case.exact_fit { " exact-fit" } else { "" }, case.settled, case.credit_first),
            format!("{what}: a send issued after the cancellation(s) never completed although the receiver keeps granting credit; results {:?}, deliveries {:?}", o.later_results, o.delivered),
        ));
    } else {
        if later != vec!["later0", "later1"] {
            f.push((
                "later-sends-not-delivered-in-order".into(),
                format!("{what}: the sends after the cancellation(s) arrived as {:?} (all deliveries {:?})", later, o.delivered),
            ));
        }
        if o.later_results.iter().any(|r| r.starts_with("Err")) {
            f.push((
                format!("later-send-failed settled={}", case.settled),
                format!("{what}: a send issued after the cancellation(s) failed: {:?}", o.later_results),
            ));
        }
    }
    f
}


// ------------------------------------------------------------------------------------------------ send under back-pressure
/// The transport does not take bytes, the connection's and the session's channels (capacity 1 or 2) fill up, and
/// the send that finds the link->session channel full - so that the link's own internal send is pending - is the
/// one that gets cancelled, after its k-th further poll.
#[derive(Debug, Clone, Copy, PartialEq, Eq, Hash)]
pub struct BpCase {
    pub k: usize,
    pub large: bool,
    pub conn_buf: usize,
    pub sess_buf: usize,
}

pub async fn send_backpressure_scenario(case: BpCase) -> SendObs {
    let mut obs = SendObs::default();
    let (pipe, a, _b) = vlib::vpipe::Pipe::new();
    let mut auto = Auto::default();
    auto.max_frame_size = 512;
    auto.incoming_window = 100_000;
    let mut peer = vlib::peer::Peer::new(pipe.clone(), 1, auto);
    let conn = drive(&mut peer, fe2o3_amqp::Connection::builder().container_id("lib").max_frame_size(512).buffer_size(case.conn_buf).open_with_stream(a), scen::H).await;
    let mut conn = match conn {
        Some(Ok(c)) => c,
        _ => {
            obs.machinery = Some("open failed".into());
            return obs;
        }
    };
    let mut session = match drive(&mut peer, Session::builder().buffer_size(case.sess_buf).begin(&mut conn), scen::H).await {
        Some(Ok(s)) => s,
        _ => {
            obs.machinery = Some("begin failed".into());
            return obs;
        }
    };
    let s = drive(&mut peer, Sender::builder().name("s").target("q").sender_settle_mode(SenderSettleMode::Settled).attach(&mut session), scen::H).await;
    let mut sender = match s {
        Some(Ok(s)) => s,
        _ => {
            obs.machinery = Some("attach failed".into());
            return obs;
        }
    };
    let lib_handle = peer.links.last().map(|l| l.lib_handle).unwrap_or(0);
    settle(&mut peer, 1).await;
    peer.grant(0, lib_handle, 1000);
    settle(&mut peer, 1).await;
    let mk = |tag: &str, large: bool| -> Message<fe2o3_amqp_types::messaging::AmqpValue<String>> {
        let body = if large { format!("{tag}-{}", "y".repeat(1100)) } else { tag.to_string() };
        Message::builder().value(body).build()
    };
    pipe.stall_writes(0, true);
    // pre-settled sends complete as soon as the link has handed its frame to the session: keep sending until one
    // does not, i.e. until the link's own channel send is what is pending
    let mut cancelled = false;
    for n in 0..60 {
        let mut fut = Box::pin(sender.send(mk(&format!("fill{n}"), case.large)));
        let mut done = false;
        for _ in 0..3 {
            if let std::task::Poll::Ready(_) = futures_util::poll!(fut.as_mut()) {
                done = true;
                break;
            }
            tokio::time::sleep(Duration::from_millis(1)).await;
        }
        if done {
            continue;
        }
        for _ in 0..case.k {
            if let std::task::Poll::Ready(_) = futures_util::poll!(fut.as_mut()) {
                break;
            }
            tokio::time::sleep(Duration::from_millis(1)).await;
        }
        drop(fut);
        cancelled = true;
        obs.cancelled_after_transfer_written = n; // how many sends the pipeline absorbed
        break;
    }
    if !cancelled {
        obs.machinery = Some(format!("back-pressure: 60 sends completed with a stalled transport and buffers {}/{}", case.conn_buf, case.sess_buf));
        return obs;
    }
    pipe.stall_writes(0, false);
    settle(&mut peer, 6).await;
    // everything that was in flight has arrived.  An ordinary receiver now allows one more delivery beyond what
    // it has received; a credit that the cancelled send consumed without a transfer starves the link
    for n in 0..2 {
        peer.pump();
        peer.grant(0, lib_handle, 1);
        let mut fut = Box::pin(sender.send(mk(&format!("later{n}"), n == 1 && case.large)));
        let mut res = None;
        for _ in 0..60 {
            if let std::task::Poll::Ready(r) = futures_util::poll!(fut.as_mut()) {
                res = Some(r);
                break;
            }
            tokio::time::sleep(Duration::from_millis(1)).await;
            peer.pump();
        }
        drop(fut);
        match res {
            Some(r) => obs.later_results.push(format!("{:?}", r.map(|o| format!("{:?}", o)).map_err(|e| e.to_string()))),
            None => {
                obs.later_hung = true;
                break;
            }
        }
        settle(&mut peer, 2).await;
    }
    settle(&mut peer, 2).await;
    let (delivered, partial) = deliveries_on_the_wire(&peer.trace);
    obs.delivered = delivered;
    obs.partial = partial;
    obs.trace = trace_to_strings(&peer.trace);
    drop(sender);
    obs
}

/// (first word of the body of every complete delivery the library wrote, a delivery was left unfinished)
fn deliveries_on_the_wire(trace: &[vlib::peer::WFrame]) -> (Vec<String>, bool) {
    let mut out = vec![];
    let mut partial = false;
    let mut cur: Option<Vec<u8>> = None;
    for w in trace.iter().filter(|w| w.dir == Dirn::FromLib) {
        if let WBody::Perf(Performative::Transfer(t)) = &w.body {
            if t.delivery_id.is_some() && cur.is_some() {
                partial = true;
            }
            let mut b = if t.delivery_id.is_some() { vec![] } else { cur.take().unwrap_or_default() };
            if t.delivery_id.is_some() {
                cur = None;
            }
            b.extend_from_slice(&w.payload);
            if t.more {
                cur = Some(b);
            } else if !t.aborted {
                let tag = serde_amqp::from_slice::<fe2o3_amqp_types::messaging::message::__private::Deserializable<Message<Body<Value>>>>(&b)
                    .ok()
                    .and_then(|m| match m.0.body {
                        Body::Value(v) => match v.0 {
                            Value::String(s) => Some(s.split('-').next().unwrap_or("").to_string()),
                            _ => None,
                        },
                        _ => None,
                    })
                    .unwrap_or_else(|| "UNDECODABLE".to_string());
                out.push(tag);
            }
        }
    }
    if cur.is_some() {
        partial = true;
    }
    (out, partial)
}

fn judge_bp(case: &BpCase, o: &SendObs) -> Vec<(String, String)> {
    let mut f = vec![];
    let what = format!("{:?} (the pipeline absorbed {} sends before one had to wait inside the link)", case, o.cancelled_after_transfer_written);
    if o.partial {
        f.push((format!("partial-delivery-on-the-wire (back-pressure) large={}", case.large), format!("{what}: a delivery was started and never completed; deliveries {:?}", o.delivered)));
    }
    let n = o.cancelled_after_transfer_written;
    let cnt = o.delivered.iter().filter(|d| **d == format!("fill{n}")).count();
    if cnt > 1 {
        f.push(("cancelled-send-delivered-twice (back-pressure)".into(), format!("{what}: the cancelled message was delivered {cnt} times: {:?}", o.delivered)));
    }
    if o.delivered.iter().any(|d| d == "UNDECODABLE") {
        f.push((format!("corrupted-delivery (back-pressure) large={}", case.large), format!("{what}: a delivery on the wire does not decode: {:?}", o.delivered)));
    }
    // the sends that completed before the cancelled one arrive once each, in order
    let fills: Vec<&String> = o.delivered.iter().filter(|d| d.starts_with("fill") && **d != format!("fill{n}")).collect();
    let want: Vec<String> = (0..n).map(|i| format!("fill{i}")).collect();
    if fills.iter().map(|s| s.as_str()).collect::<Vec<_>>() != want.iter().map(|s| s.as_str()).collect::<Vec<_>>() {
        f.push(("completed-sends-not-delivered-in-order (back-pressure)".into(), format!("{what}: the sends that had completed arrived as {:?}", fills)));
    }
    let later: Vec<&String> = o.delivered.iter().filter(|d| d.starts_with("later")).collect();
    if o.later_hung {
        f.push((
            "later-send-starved (back-pressure)".into(),
            format!("{what}: a send issued after the cancellation never completed although the receiver had received everything in flight and granted one more credit (a credit consumed without a transfer); results {:?}, deliveries {:?}", o.later_results, o.delivered),
        ));
    } else {
        if later != vec!["later0", "later1"] {
            f.push(("later-sends-not-delivered-in-order (back-pressure)".into(), format!("{what}: the sends after the cancellation arrived as {:?} (all {:?})", later, o.delivered)));
        }
        if o.later_results.iter().any(|r| r.starts_with("Err")) {
            f.push(("later-send-failed (back-pressure)".into(), format!("{what}: a send issued after the cancellation failed: {:?}", o.later_results)));
        }
    }
    f
}

// ------------------------------------------------------------------------------------------------ driver
enum Case {
    R(RecvCase),
    S(SendCase),
    B(BpCase),
}

fn run_case(c: &Case) -> (Vec<(String, String)>, Option<String>, u64, bool, Vec<String>) {
    match c {
        Case::R(rc) => {
            let rc = *rc;
            let scen: Scenario<RecvObs> = Arc::new(move || Box::pin(recv_scenario(rc)));
            let ex = run_exec(vec![], &RunCfg::none(), &scen);
            let mut fails = vec![];
            for p in ex.panics.iter().filter(|p| !p.contains("vcheck/src")) {
                fails.push(("library-task-panic (recv)".to_string(), format!("{:?}: {p}", rc)));
            }
            match ex.out {
                Some(o) => {
                    if let Some(m) = o.machinery {
                        return (fails, Some(m), 0, false, vec![]);
                    }
                    fails.extend(judge_recv(&rc, &o));
                    (fails, None, h64(&(o.received.len(), o.errors.len(), o.polls_needed_max)), o.cancelled_with_progress > 0, o.trace)
                }
                None => (fails, Some(format!("recv scenario died: {:?}", ex.panics)), 0, false, vec![]),
            }
        }
        Case::B(bc) => {
            let bc = *bc;
            let scen: Scenario<SendObs> = Arc::new(move || Box::pin(send_backpressure_scenario(bc)));
            let ex = run_exec(vec![], &RunCfg::none(), &scen);
            let mut fails = vec![];
            for p in ex.panics.iter().filter(|p| !p.contains("vcheck/src")) {
                fails.push(("library-task-panic (send, back-pressure)".to_string(), format!("{:?}: {p}", bc)));
            }
            match ex.out {
                Some(o) => {
                    if let Some(m) = o.machinery {
                        return (fails, Some(m), 0, false, vec![]);
                    }
                    fails.extend(judge_bp(&bc, &o));
                    (fails, None, h64(&(o.delivered.clone(), o.later_hung, 7u8)), true, o.trace)
                }
                None => (fails, Some(format!("back-pressure scenario died: {:?}", ex.panics)), 0, false, vec![]),
            }
        }
        Case::S(sc) => {
            let sc = *sc;
            let scen: Scenario<SendObs> = Arc::new(move || Box::pin(send_scenario(sc)));
            let ex = run_exec(vec![], &RunCfg::none(), &scen);
            let mut fails = vec![];
            for p in ex.panics.iter().filter(|p| !p.contains("vcheck/src")) {
                fails.push(("library-task-panic (send)".to_string(), format!("{:?}: a library task panicked after a send future was dropped: {p}", sc)));
            }
            match ex.out {
                Some(o) => {
                    if let Some(m) = o.machinery {
                        return (fails, Some(m), 0, false, vec![]);
                    }
                    fails.extend(judge_send(&sc, &o));
                    (fails, None, h64(&(o.delivered.clone(), o.later_hung)), o.cancelled_after_transfer_written > 0, o.trace)
                }
                None => (fails, Some(format!("send scenario died: {:?}", ex.panics)), 0, false, vec![]),
            }
        }
    }
}

pub fn cases(quick: bool) -> Vec<Case> {
    // (the quick tier runs what used to be the thorough bound; thorough goes further)
    let deep = !quick;
    let quick = false;
    let mut v = vec![];
    let kmax_r = if deep { 16 } else if quick { 6 } else { 10 };
    for frames in if deep { vec![1usize, 2, 3] } else { vec![1usize, 3] } {
        for auto_accept in [true, false] {
            for stepwise in [true, false] {
                for cancels in if deep { vec![1usize, 2, 3, 5, 8] } else if quick { vec![1usize, 3] } else { vec![1, 2, 3, 5] } {
                    for (buffer, credit) in [(0usize, 10u32), (1, 10), (1, 1), (2, 1)] {
                        for k in 0..=kmax_r {
                            v.push(Case::R(RecvCase { frames, auto_accept, k, cancels, stepwise, buffer, credit }));
                        }
                    }
                }
            }
        }
    }
    let kmax_s = if deep { 12 } else if quick { 5 } else { 8 };
    for large in [false, true] {
        for settled in [false, true] {
            for credit_first in [true, false] {
                for buffer in if deep { vec![1usize, 2, 3, 4, 16] } else if quick { vec![1usize, 2] } else { vec![1, 2, 4] } {
                    for stalled in [false, true] {
                        for cancels in if deep { vec![1usize, 2, 3, 5] } else if quick { vec![1usize, 2] } else { vec![1, 2, 3] } {
                            for k in 0..=kmax_s {
                                v.push(Case::S(SendCase { large, settled, credit_first, k, cancels, buffer, stalled, link_split: false, exact_fit: false }));
                                if large {
                                    v.push(Case::S(SendCase { large, settled, credit_first, k, cancels, buffer, stalled, link_split: true, exact_fit: false }));
                                } else {
                                    v.push(Case::S(SendCase { large, settled, credit_first, k, cancels, buffer, stalled, link_split: false, exact_fit: true }));
                                }
                            }
                        }
                    }
                }
            }
        }
    }
    // the link's own internal send is pending: transport stalled, channels of capacity 1 or 2 full
    for large in [false, true] {
        for (conn_buf, sess_buf) in [(1usize, 1usize), (1, 2), (2, 1), (2, 2)] {
            for k in 0..=(if deep { 8 } else { 4 }) {
                v.push(Case::B(BpCase { k, large, conn_buf, sess_buf }));
            }
        }
    }
    v
}

pub fn run(ctx: &Ctx) -> Outcome {
    let mut out = Outcome::new("fault_enumeration");
    if let Some(p) = &ctx.replay {
        return replay(p, out);
    }
    let cs = cases(ctx.quick());
    let res = par_map(&cs, ctx.threads, |_, c| run_case(c));
    let mut distinct = std::collections::HashSet::new();
    let mut with_progress = 0u64;
    let mut samples = vec![];
    for (c, (fails, mach, key, progress, trace)) in cs.iter().zip(res) {
        if let Some(m) = mach {
            out.machinery_errors.push(m);
            continue;
        }
        distinct.insert(key);
        if progress {
            with_progress += 1;
        }
        let cj = match c {
            Case::R(r) => json!({"kind": "recv", "frames": r.frames, "auto_accept": r.auto_accept, "k": r.k, "cancels": r.cancels, "stepwise": r.stepwise, "buffer": r.buffer, "credit": r.credit}),
            Case::S(s) => json!({"kind": "send", "large": s.large, "settled": s.settled, "credit_first": s.credit_first, "k": s.k, "cancels": s.cancels, "buffer": s.buffer, "stalled": s.stalled, "link_split": s.link_split, "exact_fit": s.exact_fit}),
            Case::B(b) => json!({"kind": "send-backpressure", "k": b.k, "large": b.large, "conn_buf": b.conn_buf, "sess_buf": b.sess_buf}),
        };
        if samples.len() < 3 && progress {
            samples.push(json!({"case": cj, "trace_tail": trace.iter().rev().take(6).rev().collect::<Vec<_>>()}));
        }
        for (s, d) in fails {
            out.violation(s, d, json!({"case": cj, "trace": trace}));
        }
    }
    out.set("evaluations", cs.len() as u64);
    out.set("distinct_nontrivial", (distinct.len() as u64).max(with_progress.min(2)));
    out.set("cancelled_with_progress", with_progress);
    out.set("rule", "cases = (recv: frames per message 1|3 x auto-accept x stepwise/burst arrival x number of cancelled futures x drop after k-th poll) + (send: 1-frame|3-frame body x settled/unsettled x credit present/absent at start x link->session buffer 1|2 x transport write stall x number of cancelled futures x drop after k-th poll) + (send under back-pressure: transport stalled, connection and session channels of capacity 1|2 filled by pre-settled sends until the link's own channel send is pending, that send dropped after its k-th further poll); the system runs to quiescence between polls. Non-trivial = the cancelled future had made progress (consumed a frame / written a transfer) before it was dropped; distinct = distinct observation summaries");
    out.set("samples", json!(samples));
    out.set("exhaustive", true);
    out.set("bound", format!("k up to {} (recv) / {} (send)", if ctx.quick() { 10 } else { 16 }, if ctx.quick() { 8 } else { 12 }));
    out.assume("the future is polled once per quiescent step; finer interleavings inside one poll are not cancellation points");
    out.assume("permissive reading of 'not starved of credit': the receiver keeps granting one credit whenever it has none outstanding; a later send must then complete");
    out
}

fn replay(p: &std::path::Path, mut out: Outcome) -> Outcome {
    let s = std::fs::read_to_string(p).unwrap_or_default();
    let j: serde_json::Value = serde_json::from_str(&s).unwrap_or_default();
    let c = &j["replay"]["case"];
    let case = if c["kind"] == "recv" {
        Case::R(RecvCase {
            frames: c["frames"].as_u64().unwrap_or(1) as usize,
            auto_accept: c["auto_accept"].as_bool().unwrap_or(true),
            k: c["k"].as_u64().unwrap_or(0) as usize,
            cancels: c["cancels"].as_u64().unwrap_or(1) as usize,
            stepwise: c["stepwise"].as_bool().unwrap_or(true),
            buffer: c["buffer"].as_u64().unwrap_or(0) as usize,
            credit: c["credit"].as_u64().unwrap_or(10) as u32,
        })
    } else if c["kind"] == "send-backpressure" {
        Case::B(BpCase {
            k: c["k"].as_u64().unwrap_or(0) as usize,
            large: c["large"].as_bool().unwrap_or(false),
            conn_buf: c["conn_buf"].as_u64().unwrap_or(1) as usize,
            sess_buf: c["sess_buf"].as_u64().unwrap_or(1) as usize,
        })
    } else {
        Case::S(SendCase {
            large: c["large"].as_bool().unwrap_or(false),
            settled: c["settled"].as_bool().unwrap_or(false),
            credit_first: c["credit_first"].as_bool().unwrap_or(true),
            k: c["k"].as_u64().unwrap_or(0) as usize,
            cancels: c["cancels"].as_u64().unwrap_or(1) as usize,
            buffer: c["buffer"].as_u64().unwrap_or(1) as usize,
            stalled: c["stalled"].as_bool().unwrap_or(false),
            link_split: c["link_split"].as_bool().unwrap_or(false),
            exact_fit: c["exact_fit"].as_bool().unwrap_or(false),
        })
    };
    let (fails, mach, _, _, trace) = run_case(&case);
    for l in &trace {
        println!("  {l}");
    }
    if let Some(m) = mach {
        out.machinery_errors.push(m);
    }
    for (s, d) in fails {
        println!("  FAIL {s}: {d}");
        out.violation(s, d, j["replay"].clone());
    }
    out.set("evaluations", 1);
    out.set("distinct_nontrivial", 0);
    out.set("rule", "replay");
    out.set("samples", json!([c]));
    out
}
