//! C07 part U / C08 part L - the LISTENER side of session flow control and of sender link credit.
//!
//! The real listener stack (ConnectionAcceptor / SessionAcceptor / LinkAcceptor in a spawned task; the
//! accepted `Sender`s are owned by tasks that perform queued sends of pre-settled 1-frame messages) runs
//! against a SCRIPTED CLIENT over the in-memory pipe.  The client begins a session, attaches link "a" with
//! role=receiver (the listener's end is a Sender) which the application accepts, and may attach a second link
//! "b" which the application accepts only when the history says so.  Flows that carry the handle of "b"
//! before the application has accepted it take the listener-only path (`ListenerSession::on_incoming_flow`
//! parks the link part, `ListenerSession::allocate_incoming_link` replays it).
//!
//! Part U (C07): history search over {application sends on a / b, client attaches b, application accepts b,
//! client flows on b's handle / a's handle / session-only that set incoming-window w in 0..=3}, client's
//! initial incoming-window W in {1, 2}.
//! Part L (C08): b is attached by the client in the setup; history search over {client flows for b with
//! link-credit 0 / 1 / 5, drain with link-credit 2, application accepts b, application sends on b}.
use crate::scen::{self, SendCmd, SendLog};
use fe2o3_amqp::acceptor::{ConnectionAcceptor, LinkAcceptor, LinkEndpoint, SessionAcceptor};
use fe2o3_amqp_types::definitions::{Handle, ReceiverSettleMode, Role, SenderSettleMode};
use fe2o3_amqp_types::messaging::{Source, Target};
use fe2o3_amqp_types::performatives::*;
use serde_json::json;
use std::sync::atomic::{AtomicU64, Ordering};
use std::sync::{Arc, Mutex};
use std::time::Instant;
use tokio::sync::mpsc;
use vlib::history::{search, HistOut};
use vlib::peer::{settle, Auto, Body, Dirn, Peer, PeerLink, WFrame, AMQP_HEADER};
use vlib::report::{Ctx, Outcome};
use vlib::runner::{run_exec, RunCfg, Scenario};
use vlib::util::h64;
use vlib::vpipe::Pipe;

/// the client's channel and its handles for the links a and b (sparse on purpose: the listener's own
/// channel and handles are 0, 0 and 1)
const P_CH: u16 = 2;
const H_A: u32 = 3;
const H_B: u32 = 7;
/// the client never sends a transfer: its next-outgoing-id stays here
const P_NOI: u32 = 5000;
const MFS: u32 = 512;
const PLENTY: u32 = 100_000;
const WIDE: u32 = 10_000;

#[derive(Debug, Clone, Copy, PartialEq, Eq, Hash)]
pub enum Ev {
    /// the listener application queues one more message on a / b
    LSendA,
    LSendB,
    /// the client attaches link b (role=receiver); the application does not accept it yet
    PAttachB,
    /// the application accepts link b (a second sender task owns it from then on)
    LAcceptB,
    /// part U - client flow carrying a's handle: next-incoming-id = what it has received, incoming-window = w
    PFlowA(u32),
    /// part U - the same carrying b's handle (delivery-count unset before it has seen the listener's attach), link-credit 1000
    PFlowB(u32),
    /// part U - session-only flow
    PFlowS(u32),
    /// part L - client flow for b with link-credit c (session window wide open)
    PCreditB(u32),
    /// part L - client flow for b with drain=true and link-credit c
    PDrainB(u32),
}

impl Ev {
    pub fn name(&self) -> String {
        format!("{self:?}")
    }
    pub fn parse(s: &str) -> Option<Ev> {
        let (head, arg) = match s.find('(') {
            Some(k) => (&s[..k], s[k + 1..].trim_end_matches(')').parse::<u32>().ok()),
            None => (s, None),
        };
        Some(match (head, arg) {
            ("LSendA", None) => Ev::LSendA,
            ("LSendB", None) => Ev::LSendB,
            ("PAttachB", None) => Ev::PAttachB,
            ("LAcceptB", None) => Ev::LAcceptB,
            ("PFlowA", Some(w)) => Ev::PFlowA(w),
            ("PFlowB", Some(w)) => Ev::PFlowB(w),
            ("PFlowS", Some(w)) => Ev::PFlowS(w),
            ("PCreditB", Some(c)) => Ev::PCreditB(c),
            ("PDrainB", Some(c)) => Ev::PDrainB(c),
            _ => return None,
        })
    }
}

#[derive(Debug, Clone, Copy, PartialEq, Eq, Hash)]
pub enum Part {
    /// C07: the session window
    U,
    /// C08: link credit of a link accepted after its flows arrived
    L,
}

#[derive(Debug, Clone, Copy, PartialEq, Eq, Hash)]
pub struct Cfg {
    pub part: Part,
    /// the client's initial incoming-window
    pub w: u32,
    /// the listener's initial next-outgoing-id
    pub x: u32,
    /// the client attaches b in the setup (the application has not accepted it when the history starts)
    pub b_pre: bool,
    /// the listener's initial delivery-count on the links it accepts
    pub idc: u32,
}

impl Cfg {
    fn json(&self) -> serde_json::Value {
        json!({"part": format!("{:?}", self.part), "w": self.w, "x": self.x, "b_pre": self.b_pre, "idc": self.idc})
    }
    fn from_json(v: &serde_json::Value) -> Cfg {
        Cfg {
            part: if v["part"] == "L" { Part::L } else { Part::U },
            w: v["w"].as_u64().unwrap_or(1) as u32,
            x: v["x"].as_u64().unwrap_or(0) as u32,
            b_pre: v["b_pre"].as_bool().unwrap_or(false),
            idc: v["idc"].as_u64().unwrap_or(0) as u32,
        }
    }
    fn describe(&self) -> String {
        match self.part {
            Part::U => format!(
                "client's initial incoming-window {}, listener's initial next-outgoing-id {}, link b {}",
                self.w,
                self.x,
                if self.b_pre { "attached by the client before the history starts (not accepted)" } else { "not attached at the start" }
            ),
            Part::L => format!("listener's initial delivery-count {}, link b attached by the client before the history starts (not accepted), session window wide open", self.idc),
        }
    }
}

/// enabledness of the events depends only on what has happened to link b
#[derive(Debug, Clone, Copy, PartialEq, Eq, Hash)]
enum BState {
    None,
    Attached,
    Accepted,
}

fn enabled(b: BState, e: Ev) -> bool {
    match e {
        Ev::LSendA | Ev::PFlowA(_) | Ev::PFlowS(_) => true,
        Ev::PAttachB => b == BState::None,
        Ev::LAcceptB => b == BState::Attached,
        Ev::LSendB => b == BState::Accepted,
        Ev::PFlowB(_) | Ev::PCreditB(_) | Ev::PDrainB(_) => b != BState::None,
    }
}

fn apply(b: BState, e: Ev) -> BState {
    match e {
        Ev::PAttachB => BState::Attached,
        Ev::LAcceptB => BState::Accepted,
        _ => b,
    }
}

pub fn first_disabled(cfg: &Cfg, evs: &[Ev]) -> Option<usize> {
    let mut b = if cfg.b_pre { BState::Attached } else { BState::None };
    for (i, e) in evs.iter().enumerate() {
        if !enabled(b, *e) {
            return Some(i);
        }
        b = apply(b, *e);
    }
    None
}

#[derive(Debug, Clone, Default)]
pub struct Obs {
    pub executed: usize,
    /// (signature, detail, index of the step that failed)
    pub fails: Vec<(String, String, usize)>,
    pub state_keys: Vec<u64>,
    pub trace: Vec<String>,
    pub machinery: Option<String>,
    /// transfers were really held back by the session window at some quiescent point (waiting, no room)
    pub held_back: bool,
    /// a flow carrying the handle of the not-yet-accepted link arrived while transfers were held back
    pub unaccepted_flow_while_held: bool,
    /// link flows parked for b when the application accepted it
    pub parked_at_accept: usize,
    /// the sender of b transmitted at least one delivery
    pub b_transmitted: bool,
    /// a send on b that was waiting (for credit) completed later
    pub blocked_then_woken: usize,
}

fn sdiff(a: u32, b: u32) -> i64 {
    (a.wrapping_sub(b) as i32) as i64
}

enum AppCmd {
    Accept,
}

/// everything the scripted client needs to talk to the listener
struct Stack {
    peer: Peer,
    _pipe: Pipe,
    _other_end: vlib::vpipe::End,
    cmd: mpsc::UnboundedSender<AppCmd>,
    eps: mpsc::UnboundedReceiver<Result<LinkEndpoint, String>>,
    notes: Arc<Mutex<Vec<String>>>,
    /// the listener's channel of the session
    lc: u16,
}

struct SenderTask {
    tx: mpsc::UnboundedSender<SendCmd>,
    log: Arc<Mutex<SendLog>>,
    /// the listener's handle of the link
    lib_handle: u32,
    /// initial-delivery-count of the listener's attach
    idc: u32,
    queued: usize,
}

fn attach_perf(name: &str, h: u32) -> Attach {
    Attach {
        name: name.to_string(),
        handle: Handle(h),
        role: Role::Receiver,
        // pre-settled deliveries: send() returns as soon as the delivery is handed to the session
        snd_settle_mode: SenderSettleMode::Settled,
        rcv_settle_mode: ReceiverSettleMode::First,
        source: Some(Box::new(Source::builder().address(format!("q-{name}")).build())),
        target: Some(Box::new(Target::builder().address(format!("client-{name}")).build().into())),
        unsettled: None,
        incomplete_unsettled: false,
        initial_delivery_count: None,
        max_message_size: None,
        offered_capabilities: None,
        desired_capabilities: None,
        properties: None,
    }
}

impl Stack {
    /// the real listener in a spawned task; the scripted client opens and begins a session with incoming-window `w`
    async fn start(cfg: &Cfg) -> Result<Stack, String> {
        let (pipe, a, b) = Pipe::new();
        let mut auto = Auto::none();
        auto.max_frame_size = MFS;
        let mut peer = Peer::new(pipe.clone(), 1, auto);
        let notes = Arc::new(Mutex::new(vec![]));
        let (cmd_tx, mut cmd_rx) = mpsc::unbounded_channel::<AppCmd>();
        let (ep_tx, ep_rx) = mpsc::unbounded_channel::<Result<LinkEndpoint, String>>();
        {
            let notes = notes.clone();
            let (x, idc) = (cfg.x, cfg.idc);
            tokio::spawn(async move {
                let acceptor = ConnectionAcceptor::builder().container_id("lib-listener").max_frame_size(MFS).build();
                let mut conn = match acceptor.accept(a).await {
                    Ok(c) => c,
                    Err(e) => {
                        notes.lock().unwrap().push(format!("accept connection: {e:?}"));
                        return;
                    }
                };
                let sacc = SessionAcceptor::builder().next_outgoing_id(x).build();
                let mut sess = match sacc.accept(&mut conn).await {
                    Ok(s) => s,
                    Err(e) => {
                        notes.lock().unwrap().push(format!("accept session: {e:?}"));
                        return;
                    }
                };
                let lacc = LinkAcceptor::builder().initial_delivery_count(idc).build();
                // the application accepts a link only when it is told to
                while let Some(AppCmd::Accept) = cmd_rx.recv().await {
                    let r = lacc.accept(&mut sess).await;
                    let _ = ep_tx.send(r.map_err(|e| format!("{e:?}")));
                }
                // (the scenario is over: the handles lived until here)
                drop(sess);
                drop(conn);
            });
        }
        peer.send_proto_header(AMQP_HEADER);
        peer.send(
            0,
            Performative::Open(Open {
                container_id: "scripted-client".into(),
                hostname: None,
                max_frame_size: MFS.into(),
                channel_max: 100.into(),
                idle_time_out: None,
                outgoing_locales: None,
                incoming_locales: None,
                offered_capabilities: None,
                desired_capabilities: None,
                properties: None,
            }),
        );
        settle(&mut peer, 3).await;
        if !peer.trace.iter().any(|w| w.dir == Dirn::FromLib && matches!(w.perf(), Some(Performative::Open(_)))) {
            return Err(format!("listener did not open: {:?} {:?}", vlib::peer::trace_to_strings(&peer.trace), notes.lock().unwrap()));
        }
        let mark = peer.trace.len();
        peer.send(
            P_CH,
            Performative::Begin(Begin {
                remote_channel: None,
                next_outgoing_id: P_NOI,
                incoming_window: cfg.w,
                outgoing_window: 1000,
                handle_max: Handle(u32::MAX),
                offered_capabilities: None,
                desired_capabilities: None,
                properties: None,
            }),
        );
        settle(&mut peer, 3).await;
        let begin = peer.trace[mark..].iter().find_map(|w| match (w.dir, w.perf()) {
            (Dirn::FromLib, Some(Performative::Begin(b))) => Some((w.channel, b.remote_channel, b.next_outgoing_id)),
            _ => None,
        });
        let lc = match begin {
            Some((lc, Some(rc), noi)) if rc == P_CH => {
                if noi != cfg.x {
                    return Err(format!("the listener's begin announces next-outgoing-id {noi}, configured {}", cfg.x));
                }
                lc
            }
            other => return Err(format!("the listener did not answer the begin: {other:?}; notes {:?}", notes.lock().unwrap())),
        };
        // the scripted peer keeps its session record under the library's channel
        let s = peer.sessions.entry(lc).or_default();
        s.lib_channel = lc;
        s.our_channel = P_CH;
        s.incoming_window = cfg.w;
        s.outgoing_window = 1000;
        s.next_outgoing_id = P_NOI;
        Ok(Stack { peer, _pipe: pipe, _other_end: b, cmd: cmd_tx, eps: ep_rx, notes, lc })
    }

    fn client_attach(&mut self, name: &str, h: u32) {
        self.peer.links.push(PeerLink {
            lib_channel: self.lc,
            name: name.to_string(),
            lib_handle: u32::MAX,
            our_handle: h,
            lib_role: Role::Sender,
            delivery_count: 0,
            credit: 0,
            attached_by_peer: true,
            detached: false,
            detach_sent: false,
        });
        self.peer.send(P_CH, Performative::Attach(attach_perf(name, h)));
    }

    /// the application accepts the next attach; returns the sender task that owns the new Sender
    async fn app_accept(&mut self, name: &str) -> Result<SenderTask, String> {
        let mark = self.peer.trace.len();
        let _ = self.cmd.send(AppCmd::Accept);
        settle(&mut self.peer, 3).await;
        let sender = match self.eps.try_recv() {
            Ok(Ok(LinkEndpoint::Sender(s))) => s,
            Ok(Ok(LinkEndpoint::Receiver(_))) => return Err(format!("accepting link {name} produced a Receiver")),
            Ok(Err(e)) => return Err(format!("accepting link {name} failed: {e}")),
            Err(_) => return Err(format!("accepting link {name}: LinkAcceptor::accept is still pending at quiescence; notes {:?}", self.notes.lock().unwrap())),
        };
        let answer = self.peer.trace[mark..].iter().find_map(|w| match (w.dir, w.perf()) {
            (Dirn::FromLib, Some(Performative::Attach(a))) if a.name == name => Some((a.handle.0, a.initial_delivery_count.unwrap_or(0))),
            _ => None,
        });
        let Some((lib_handle, idc)) = answer else {
            return Err(format!("accepting link {name}: the listener wrote no attach"));
        };
        let (tx, log, _task) = scen::spawn_sender_task(sender);
        Ok(SenderTask { tx, log, lib_handle, idc, queued: 0 })
    }

    /// all transfer frames the listener has written on the session, in wire order
    fn xfer_frames(&self) -> Vec<&WFrame> {
        self.peer.trace.iter().filter(|w| w.dir == Dirn::FromLib && w.channel == self.lc && matches!(w.perf(), Some(Performative::Transfer(_)))).collect()
    }

    /// payloads of the complete deliveries the listener has written on its handle `h`
    fn bodies(&self, h: u32) -> Vec<Vec<u8>> {
        let mut out = vec![];
        let mut cur: Option<Vec<u8>> = None;
        for w in self.xfer_frames() {
            if let Some(Performative::Transfer(t)) = w.perf() {
                if t.handle.0 != h {
                    continue;
                }
                let mut b = cur.take().unwrap_or_default();
                b.extend_from_slice(&w.payload);
                if t.more {
                    cur = Some(b);
                } else {
                    out.push(b);
                }
            }
        }
        out
    }

    /// the receiver's delivery-count of the link with the client's handle `h`
    fn rcv_dc(&self, h: u32) -> u32 {
        self.peer.links.iter().find(|l| l.our_handle == h && !l.detached).map(|l| l.delivery_count).unwrap_or(0)
    }
}

/// the sender's delivery-count as visible on the wire: initial value, +1 per delivery started, and whatever
/// the sender itself reports in a flow (a drain advances it).  Returns (count before each delivery, final count).
fn sender_counts(trace: &[WFrame], lc: u16, lib_handle: u32, idc: u32) -> (Vec<u32>, u32) {
    let mut dc = idc;
    let mut before = vec![];
    let mut in_progress = false;
    for w in trace {
        if w.dir != Dirn::FromLib || w.channel != lc {
            continue;
        }
        match &w.body {
            Body::Perf(Performative::Transfer(t)) if t.handle.0 == lib_handle => {
                if !in_progress {
                    before.push(dc);
                    dc = dc.wrapping_add(1);
                }
                in_progress = t.more;
            }
            Body::Perf(Performative::Flow(f)) if f.handle.as_ref().map(|h| h.0) == Some(lib_handle) => {
                if let Some(x) = f.delivery_count {
                    dc = x;
                }
            }
            _ => {}
        }
    }
    (before, dc)
}

/// "nothing dropped, duplicated or reordered": the deliveries on the wire of one link are the messages its
/// application task sent, in order
fn stream_check(st: &Stack, t: &SenderTask, link: &str) -> Option<(String, String)> {
    for (k, b) in st.bodies(t.lib_handle).iter().enumerate() {
        let want = scen::body(k, 20);
        let ok = k < t.queued && b.windows(want.len()).any(|w| w == &want[..]);
        if !ok {
            return Some((
                "listener: delivery-stream-corrupted".into(),
                format!("delivery #{k} on the wire of link {link} ({} payload bytes) is not message #{k} the application sent on it ({} queued): dropped, duplicated or reordered", b.len(), t.queued),
            ));
        }
    }
    None
}

pub async fn scenario(cfg: Cfg, events: Vec<Ev>) -> Obs {
    let mut obs = Obs::default();
    let mut st = match Stack::start(&cfg).await {
        Ok(s) => s,
        Err(e) => {
            obs.machinery = Some(e);
            return obs;
        }
    };
    let x = cfg.x;
    // ---------------- setup: link a, accepted, with plenty of credit (the flow restates the window of the begin)
    st.client_attach("a", H_A);
    settle(&mut st.peer, 2).await;
    let mut a = match st.app_accept("a").await {
        Ok(t) => t,
        Err(e) => {
            obs.machinery = Some(e);
            return obs;
        }
    };
    st.peer.send(
        P_CH,
        Performative::Flow(Flow {
            next_incoming_id: Some(x),
            incoming_window: cfg.w,
            next_outgoing_id: P_NOI,
            outgoing_window: 1000,
            handle: Some(Handle(H_A)),
            delivery_count: Some(a.idc),
            link_credit: Some(PLENTY),
            available: None,
            drain: false,
            echo: false,
            properties: None,
        }),
    );
    let mut bstate = BState::None;
    if cfg.b_pre {
        st.client_attach("b", H_B);
        bstate = BState::Attached;
    }
    settle(&mut st.peer, 2).await;
    let mut shown = 0usize;
    let flush = |obs: &mut Obs, peer: &Peer, shown: &mut usize| {
        for w in &peer.trace[*shown..] {
            obs.trace.push(format!("    {}", w.short()));
        }
        *shown = peer.trace.len();
    };
    obs.trace.push(format!("== setup: scripted client vs real listener; {}", cfg.describe()));
    flush(&mut obs, &st.peer, &mut shown);

    // ---------------- client-side truth
    // end of the window of the last flow / begin the client sent (the begin counts from the listener's initial next-outgoing-id)
    let mut limit: u32 = x.wrapping_add(cfg.w);
    let mut b: Option<SenderTask> = None;
    // the client has granted link credit on b (part U: 1000 with every PFlowB)
    let mut b_credit_u = false;
    // part L: link flows the client has sent for b: (delivery-count, link-credit, drain); the last one holds
    let mut b_flows: Vec<(Option<u32>, u32, bool)> = vec![];
    let mut parked = 0usize; // of them, sent before the application accepted b
    let mut parked_drain = false;
    let mut was_blocked = false;
    obs.state_keys.push(h64(&(0u8, cfg.w, cfg.b_pre)));
    let n_ev = events.len();
    let steps = if cfg.part == Part::U { n_ev + 1 } else { n_ev };
    for i in 0..steps {
        // part U: the step after the last event reopens the window wide so that everything held back must come out
        let ev = events.get(i).copied();
        if let Some(e) = ev {
            if !enabled(bstate, e) {
                break;
            }
        }
        let frames_before = st.xfer_frames().len() as u32;
        let peer_nii = x.wrapping_add(frames_before); // transfer frames the client has received so far
        let wire_a_before = st.bodies(a.lib_handle).len();
        let wire_b_before = b.as_ref().map(|t| st.bodies(t.lib_handle).len()).unwrap_or(0);
        // messages the application has handed over whose link has credit: only the session window can hold them
        let eligible_b = |b: &Option<SenderTask>, credit: bool| if credit { b.as_ref().map(|t| t.queued).unwrap_or(0) } else { 0 };
        let waiting_before = (a.queued + eligible_b(&b, b_credit_u)).saturating_sub(wire_a_before + if b_credit_u { wire_b_before } else { 0 });
        let started_b_before = wire_b_before;
        let accepted_before = bstate == BState::Accepted;
        let mark = st.peer.trace.len();
        let mut flow_room: Option<(u32, &'static str)> = None;
        let mut machinery: Option<String> = None;
        let session_flow = |nii: u32, iw: u32| Flow {
            next_incoming_id: Some(nii),
            incoming_window: iw,
            next_outgoing_id: P_NOI,
            outgoing_window: 1000,
            handle: None,
            delivery_count: None,
            link_credit: None,
            available: None,
            drain: false,
            echo: false,
            properties: None,
        };
        match ev {
            Some(Ev::LSendA) => {
                let _ = a.tx.send(SendCmd::Send { body_len: 20 });
                a.queued += 1;
            }
            Some(Ev::LSendB) => {
                if let Some(t) = b.as_mut() {
                    let _ = t.tx.send(SendCmd::Send { body_len: 20 });
                    t.queued += 1;
                }
            }
            Some(Ev::PAttachB) => {
                st.client_attach("b", H_B);
                bstate = apply(bstate, Ev::PAttachB);
            }
            Some(Ev::LAcceptB) => match st.app_accept("b").await {
                Ok(t) => {
                    b = Some(t);
                    bstate = apply(bstate, Ev::LAcceptB);
                    obs.parked_at_accept = parked;
                }
                Err(e) => machinery = Some(e),
            },
            Some(Ev::PFlowA(w)) | Some(Ev::PFlowB(w)) | Some(Ev::PFlowS(w)) => {
                let mut f = session_flow(peer_nii, w);
                match ev {
                    Some(Ev::PFlowA(_)) => {
                        f.handle = Some(Handle(H_A));
                        f.delivery_count = Some(st.rcv_dc(H_A));
                        f.link_credit = Some(PLENTY);
                        flow_room = Some((w, "flow on an accepted link"));
                    }
                    Some(Ev::PFlowB(_)) => {
                        f.handle = Some(Handle(H_B));
                        // a receiver leaves delivery-count unset while it has not seen the sender's attach
                        f.delivery_count = if accepted_before { Some(st.rcv_dc(H_B)) } else { None };
                        f.link_credit = Some(1000);
                        b_credit_u = true;
                        if accepted_before {
                            flow_room = Some((w, "flow on an accepted link"));
                        } else {
                            flow_room = Some((w, "flow carrying the handle of a link the application has not accepted yet"));
                            parked += 1;
                            if waiting_before > 0 {
                                obs.unaccepted_flow_while_held = true;
                            }
                        }
                    }
                    _ => flow_room = Some((w, "session flow")),
                }
                st.peer.send(P_CH, Performative::Flow(f));
                limit = peer_nii.wrapping_add(w);
            }
            Some(Ev::PCreditB(c)) | Some(Ev::PDrainB(c)) => {
                let drain = matches!(ev, Some(Ev::PDrainB(_)));
                let mut f = session_flow(peer_nii, WIDE);
                f.handle = Some(Handle(H_B));
                f.delivery_count = if accepted_before { Some(st.rcv_dc(H_B)) } else { None };
                f.link_credit = Some(c);
                f.drain = drain;
                b_flows.push((f.delivery_count, c, drain));
                if !accepted_before {
                    parked += 1;
                    parked_drain |= drain;
                }
                st.peer.send(P_CH, Performative::Flow(f));
                limit = peer_nii.wrapping_add(WIDE);
            }
            None => {
                st.peer.send(P_CH, Performative::Flow(session_flow(peer_nii, WIDE)));
                limit = peer_nii.wrapping_add(WIDE);
            }
        }
        settle(&mut st.peer, 3).await;
        obs.trace.push(match ev {
            Some(e) => format!("== event {i}: {}", e.name()),
            None => "== end of the history: the client reopens its window to 10000".to_string(),
        });
        flush(&mut obs, &st.peer, &mut shown);
        if let Some(m) = machinery {
            obs.machinery = Some(format!("{m}; listener notes {:?}", st.notes.lock().unwrap()));
            break;
        }
        if ev.is_some() {
            obs.executed = i + 1;
        }
        let mut fails: Vec<(String, String)> = vec![];
        let frames = st.xfer_frames();
        let frames_after = frames.len() as u32;

        // ---------------- C07 (1): every transfer frame written in this step lies inside the window of the last
        // flow / begin the client sent (judged in both parts; in part L the window is wide)
        for k in frames_before..frames_after {
            let id = x.wrapping_add(k);
            if sdiff(limit, id) <= 0 {
                fails.push((
                    "listener: window-overrun".into(),
                    format!(
                        "transfer frame #{k} of the session (transfer-id {id}) was sent although the client's window ends at {limit} (next-incoming-id + incoming-window of its last {})",
                        if flow_room.is_some() { "flow" } else { "flow/begin" }
                    ),
                ));
            }
        }
        // ---------------- C07 (2): nothing dropped, duplicated or reordered, per link
        if let Some(f) = stream_check(&st, &a, "a") {
            fails.push(f);
        }
        if let Some(t) = &b {
            if let Some(f) = stream_check(&st, t, "b") {
                fails.push(f);
            }
        }
        let wire_a = st.bodies(a.lib_handle).len();
        let wire_b = b.as_ref().map(|t| st.bodies(t.lib_handle).len()).unwrap_or(0);
        if wire_b > 0 {
            obs.b_transmitted = true;
        }
        let room_after = sdiff(limit, x.wrapping_add(frames_after)).max(0) as u64;
        let mut waiting_after = 0usize;
        if cfg.part == Part::U {
            waiting_after = (a.queued + eligible_b(&b, b_credit_u)).saturating_sub(wire_a + if b_credit_u { wire_b } else { 0 });
            if waiting_after > 0 && room_after == 0 {
                obs.held_back = true;
            }
            // ---------------- C07 liveness, per step: "every one of them is sent once the peer reopens the window".
            // Judged only at the quiescent point after a flow of the client: the flow left room for k more frames
            // (next-incoming-id = everything received, so k = its incoming-window), m transfers were waiting before
            // it: min(k, m) of them have to be on the wire now.  (Messages of link b count as waiting only once
            // the client has granted credit on b: otherwise it is the link credit that holds them, C08's business.)
            if let Some((k, kind)) = flow_room {
                let must = (k as usize).min(waiting_before);
                let written = (frames_after - frames_before) as usize;
                if written < must {
                    fails.push((
                        format!("listener: held-back-transfer-not-sent-when-window-reopened ({kind})"),
                        format!(
                            "{waiting_before} transfer(s) were waiting for the session window; the client's flow (next-incoming-id {peer_nii} = everything it has received, incoming-window {k}) leaves room for {k} more; at quiescence only {written} of the {must} had been written"
                        ),
                    ));
                }
            }
            if ev.is_none() && waiting_after > 0 {
                fails.push((
                    "listener: held-back-transfer-never-sent".into(),
                    format!("the client reopened its window to {WIDE} but {waiting_after} queued message(s) were not transmitted"),
                ));
            }
        }
        // ---------------- C07 (3): the state the listener reports: next-outgoing-id = initial + frames sent,
        // next-incoming-id = the client's next-outgoing-id (it never sends a transfer)
        let mut sent_so_far = 0u32;
        for w in &st.peer.trace {
            if w.dir != Dirn::FromLib || w.channel != st.lc {
                continue;
            }
            match &w.body {
                Body::Perf(Performative::Transfer(_)) => sent_so_far += 1,
                Body::Perf(Performative::Flow(f)) if w.seq >= mark => {
                    let want = x.wrapping_add(sent_so_far);
                    if f.next_outgoing_id != want {
                        fails.push((
                            "listener: reported-next-outgoing-id".into(),
                            format!("a flow reports next-outgoing-id {} after {sent_so_far} transfer frames from initial {x} (expected {want})", f.next_outgoing_id),
                        ));
                    }
                    if let Some(n) = f.next_incoming_id {
                        if n != P_NOI {
                            fails.push(("listener: reported-next-incoming-id".into(), format!("a flow reports next-incoming-id {n}; the client started at {P_NOI} and has sent no transfer frame")));
                        }
                    }
                }
                _ => {}
            }
        }
        // ---------------- C08, link b (part L)
        let mut l_key = (0usize, None::<i64>, 0usize, 0usize);
        if cfg.part == Part::L {
            if let Some(t) = &b {
                // the latest flow the client sent for b is the one that holds - also when it was sent before the
                // application accepted the link; delivery-count unset means the sender's initial delivery-count
                let latest = b_flows.last().copied();
                let lim = latest.map(|(dc, c, _)| dc.unwrap_or(t.idc).wrapping_add(c));
                let (counts_before, snd_dc) = sender_counts(&st.peer.trace, st.lc, t.lib_handle, t.idc);
                let what_latest = latest.map(|(dc, c, d)| format!("flow(delivery-count {:?}, link-credit {c}{})", dc, if d { ", drain" } else { "" })).unwrap_or_default();
                let where_latest = if parked == b_flows.len() && parked > 0 { format!(" (the last of {parked} flow(s) the client sent before the application accepted the link)") } else { String::new() };
                // (1) deliveries started in this step are within the limit of the latest flow
                for k in started_b_before..wire_b {
                    let count_before = counts_before.get(k).copied().unwrap_or(t.idc.wrapping_add(k as u32));
                    match lim {
                        None => fails.push(("listener: delivery-without-credit".into(), format!("delivery #{k} of link b was transmitted although the client never granted any credit"))),
                        Some(l) => {
                            if sdiff(l, count_before) <= 0 {
                                fails.push((
                                    format!("listener: credit-exceeded{}", if parked == b_flows.len() { " (flows sent before the link was accepted)" } else { "" }),
                                    format!(
                                        "delivery #{k} of link b (delivery-count_snd {count_before}) was transmitted beyond the receiver's limit delivery-count+link-credit = {l} of its latest {what_latest}{where_latest}; the listener's initial delivery-count is {}",
                                        t.idc
                                    ),
                                ));
                            }
                        }
                    }
                }
                // (2) drain: all credit used up or given back, and the receiver is told so with a zero-credit flow.
                // A drain flow that was parked is judged when the link is accepted, and only if it is the latest flow
                // (permissive: a drain that the client itself replaced before the listener could act on it asks nothing)
                let drain_step = match ev {
                    Some(Ev::PDrainB(_)) => accepted_before,
                    Some(Ev::LAcceptB) => matches!(latest, Some((_, _, true))),
                    _ => false,
                };
                if drain_step {
                    let l = lim.unwrap_or(t.idc);
                    let reply = st.peer.trace[mark..].iter().rev().find_map(|w| match (&w.body, w.dir) {
                        (Body::Perf(Performative::Flow(f)), Dirn::FromLib) if f.handle.as_ref().map(|h| h.0) == Some(t.lib_handle) => Some(f.clone()),
                        _ => None,
                    });
                    let sfx = if accepted_before { "" } else { " (drain sent before the link was accepted)" };
                    match reply {
                        None => fails.push((format!("listener: drain-unanswered{sfx}"), format!("the drain request {what_latest}{where_latest} was not answered with a flow"))),
                        Some(f) => {
                            if f.link_credit != Some(0) {
                                fails.push((format!("listener: drain-credit-not-zero{sfx}"), format!("the flow answering the drain {what_latest}{where_latest} shows link-credit {:?}", f.link_credit)));
                            }
                            if f.delivery_count != Some(l) {
                                fails.push((
                                    format!("listener: drain-delivery-count{sfx}"),
                                    format!("the flow answering the drain {what_latest}{where_latest} shows delivery-count {:?}; all credit used or given back means {l}", f.delivery_count),
                                ));
                            }
                        }
                    }
                }
                // (2b) each delivery consumes exactly one credit: without a drain request the delivery-count the
                // sender reports is its initial value plus the deliveries it has started (plus earlier drains)
                let drain_involved = drain_step || (ev == Some(Ev::LAcceptB) && parked_drain);
                if !drain_involved {
                    let (_, dc_at_mark) = sender_counts(&st.peer.trace[..mark], st.lc, t.lib_handle, t.idc);
                    let mut running = dc_at_mark;
                    for w in &st.peer.trace[mark..] {
                        if w.dir != Dirn::FromLib || w.channel != st.lc {
                            continue;
                        }
                        match &w.body {
                            Body::Perf(Performative::Transfer(tr)) if tr.handle.0 == t.lib_handle => running = running.wrapping_add(1),
                            Body::Perf(Performative::Flow(f)) if f.handle.as_ref().map(|h| h.0) == Some(t.lib_handle) => {
                                if let Some(v) = f.delivery_count {
                                    if v != running {
                                        fails.push((
                                            "listener: credit-given-back-without-drain".into(),
                                            format!("after {:?} (no drain requested) the sender of b reports delivery-count {v} although it has only reached {running} by sending", ev),
                                        ));
                                        running = v;
                                    }
                                }
                            }
                            _ => {}
                        }
                    }
                }
                // (3) a send waiting for credit completes once the latest flow grants credit (quiescent point)
                let pending = t.queued.saturating_sub(wire_b);
                let last_is_drain = matches!(latest, Some((_, _, true)));
                if let Some(l) = lim {
                    if pending > 0 && sdiff(l, snd_dc) > 0 && !last_is_drain {
                        fails.push((
                            format!("listener: blocked-send-not-woken{}", if parked == b_flows.len() { " (flows sent before the link was accepted)" } else { "" }),
                            format!(
                                "{pending} message(s) are waiting on link b although the receiver's latest {what_latest}{where_latest} leaves {} credit (limit {l}, delivery-count_snd {snd_dc})",
                                sdiff(l, snd_dc)
                            ),
                        ));
                    }
                }
                if pending > 0 {
                    was_blocked = true;
                } else if was_blocked {
                    obs.blocked_then_woken += 1;
                    was_blocked = false;
                }
                l_key = (wire_b, lim.map(|l| sdiff(l, t.idc)), pending, t.log.lock().unwrap().done.len());
            }
        }
        for (s, d) in fails {
            if !obs.fails.iter().any(|f| f.0 == s) {
                obs.fails.push((s, d, i));
            }
        }
        if ev.is_some() {
            obs.state_keys.push(h64(&(wire_a, wire_b, room_after.min(5), waiting_after, bstate, parked.min(3), b_credit_u, l_key)));
        }
    }
    let _ = a.tx.send(SendCmd::Stop);
    if let Some(t) = &b {
        let _ = t.tx.send(SendCmd::Stop);
    }
    obs
}

pub struct HistRun {
    pub out: HistOut,
    pub fails: Vec<(String, String, usize)>,
    pub obs: Option<Obs>,
    pub real: bool,
}

pub fn run_history(cfg: Cfg, evs: Vec<Ev>) -> HistRun {
    let mut hr = HistRun { out: HistOut::default(), fails: vec![], obs: None, real: false };
    if let Some(k) = first_disabled(&cfg, &evs) {
        hr.out.executed = k;
        return hr;
    }
    hr.real = true;
    let scen: Scenario<Obs> = {
        let evs = evs.clone();
        Arc::new(move || Box::pin(scenario(cfg, evs.clone())))
    };
    let ex = run_exec(vec![], &RunCfg::none(), &scen);
    let names: Vec<String> = evs.iter().map(|e| e.name()).collect();
    match ex.out {
        Some(o) => {
            hr.out.executed = o.executed;
            hr.out.state_keys = o.state_keys.clone();
            hr.out.trace = o.trace.clone();
            hr.out.machinery = o.machinery.clone().map(|m| format!("listener side {:?} {names:?}: {m}", cfg.part));
            hr.fails = o.fails.clone();
            hr.obs = Some(o);
        }
        None => {
            hr.out.executed = evs.len();
            hr.out.machinery = Some(format!("listener side {:?} {names:?}: scenario died: panics {:?} watchdog {}", cfg.part, ex.panics, ex.watchdog));
        }
    }
    if ex.spun && hr.out.machinery.is_none() {
        hr.out.machinery = Some(format!("listener side {:?} {names:?}: busy loop (spin) detected", cfg.part));
    }
    if let Some(p) = ex.panics.iter().find(|p| !p.contains("vcheck/src")) {
        if hr.out.machinery.is_none() {
            hr.out.machinery = Some(format!("listener side {:?} {names:?}: a library task panicked: {p}", cfg.part));
        }
    }
    hr
}

#[derive(Default)]
struct Totals {
    executions: u64,
    states: std::collections::HashSet<u64>,
    transitions: std::collections::HashSet<(u64, usize, u64)>,
    held_back: u64,
    unaccepted_flow_while_held: u64,
    parked_ge2: u64,
    b_transmitted_after_parked: u64,
    woken: u64,
    reported: std::collections::HashSet<(String, Vec<usize>)>,
    /// (signature, detail, replay, history length)
    violations: Vec<(String, String, serde_json::Value, usize)>,
    samples: Vec<serde_json::Value>,
    machinery: Vec<String>,
    truncated: bool,
}

fn search_cfg(cfg: Cfg, alphabet: &[Ev], depth: usize, ctx: &Ctx, deadline: Instant, t: &Mutex<Totals>) {
    let st = search(alphabet.len(), depth, ctx.threads, deadline, |h| {
        let evs: Vec<Ev> = h.iter().map(|i| alphabet[*i]).collect();
        let hr = run_history(cfg, evs.clone());
        if hr.real {
            let mut t = t.lock().unwrap();
            t.executions += 1;
            for k in &hr.out.state_keys {
                t.states.insert(*k);
            }
            for (j, w) in hr.out.state_keys.windows(2).enumerate() {
                t.transitions.insert((w[0], h[j], w[1]));
            }
            if let Some(o) = &hr.obs {
                t.held_back += o.held_back as u64;
                t.unaccepted_flow_while_held += o.unaccepted_flow_while_held as u64;
                t.parked_ge2 += (o.parked_at_accept >= 2) as u64;
                t.b_transmitted_after_parked += (o.parked_at_accept >= 1 && o.b_transmitted) as u64;
                t.woken += o.blocked_then_woken as u64;
            }
            for (sig, detail, at) in &hr.fails {
                // the failing prefix is the case: later events of the enumerated history do not matter
                let upto = (*at + 1).min(h.len());
                let hist: Vec<usize> = h[..upto].to_vec();
                if t.reported.insert((format!("{sig}|{:?}", cfg), hist.clone())) {
                    let names: Vec<String> = hist.iter().map(|i| alphabet[*i].name()).collect();
                    let at_what = if *at < h.len() { format!("after event #{} ({})", at + 1, alphabet[h[*at]].name()) } else { "at the end of the history (window reopened wide)".to_string() };
                    // keep a bounded number per signature, the shortest histories (traces are big)
                    let kept: Vec<usize> = t.violations.iter().enumerate().filter(|(_, v)| &v.0 == sig).map(|(i, _)| i).collect();
                    let worst = kept.iter().copied().max_by_key(|i| t.violations[*i].3);
                    let entry = || {
                        (
                            sig.clone(),
                            format!("scripted client vs real listener ({}); history {:?}, {at_what}: {detail}", cfg.describe(), names),
                            json!({"kind": "listener-side", "cfg": cfg.json(), "event_names": names, "trace": hr.out.trace}),
                            hist.len(),
                        )
                    };
                    if kept.len() < KEEP_PER_SIGNATURE {
                        let e = entry();
                        t.violations.push(e);
                    } else if let Some(wi) = worst {
                        if hist.len() < t.violations[wi].3 {
                            let e = entry();
                            t.violations[wi] = e;
                        }
                    }
                }
            }
            if t.samples.len() < 1 && hr.out.executed == h.len() && hr.obs.as_ref().map(|o| o.held_back || o.parked_at_accept >= 2).unwrap_or(false) {
                let names: Vec<String> = evs.iter().map(|e| e.name()).collect();
                t.samples.push(json!({"part": format!("listener side {:?}", cfg.part), "history": names, "trace": hr.out.trace}));
            }
        }
        // the violations are kept here (with the failing prefix): the search itself only counts
        let mut o = hr.out;
        o.fails = vec![];
        o
    });
    let mut t = t.lock().unwrap();
    t.truncated |= st.truncated;
    for m in st.machinery {
        if t.machinery.len() < 6 {
            t.machinery.push(m);
        }
    }
}

fn finish_part(t: Totals, out: &mut Outcome) -> (u64, u64) {
    let mut v = t.violations;
    // shortest histories first; a handful per signature is enough
    v.sort_by_key(|x| x.3);
    let mut per_sig: std::collections::BTreeMap<String, usize> = Default::default();
    for (sig, detail, rep, _) in v {
        let n = per_sig.entry(sig.clone()).or_insert(0);
        *n += 1;
        if *n <= 6 {
            out.violation(sig, detail, rep);
        }
    }
    for m in t.machinery {
        out.machinery_errors.push(m);
    }
    (t.executions, t.states.len() as u64)
}

/// failing prefixes kept per signature (the shortest ones)
const KEEP_PER_SIGNATURE: usize = 12;

static LAST_TRANSITIONS: AtomicU64 = AtomicU64::new(0);

/// distinct transitions of the last part that ran (for the caller's `transitions` evidence key)
pub fn last_transitions() -> u64 {
    LAST_TRANSITIONS.load(Ordering::Relaxed)
}

fn alphabet_u(quick: bool) -> Vec<Ev> {
    let mut v = vec![Ev::LSendA, Ev::PFlowB(1), Ev::PFlowB(2), Ev::PAttachB, Ev::LAcceptB, Ev::LSendB, Ev::PFlowB(0), Ev::PFlowB(3)];
    let ws: &[u32] = if quick { &[0, 1, 2] } else { &[0, 1, 2, 3] };
    for w in ws {
        v.push(Ev::PFlowA(*w));
    }
    for w in ws {
        v.push(Ev::PFlowS(*w));
    }
    v
}

const ALPHABET_L: [Ev; 6] = [Ev::PCreditB(5), Ev::PCreditB(0), Ev::LAcceptB, Ev::LSendB, Ev::PCreditB(1), Ev::PDrainB(2)];

/// C07 part U: the session window on the listener.  Returns (executions, distinct states).
pub fn part_u(ctx: &Ctx, deadline: Instant, out: &mut Outcome) -> (u64, u64) {
    let t0 = Instant::now();
    let al = alphabet_u(ctx.quick());
    let depth = if ctx.quick() { 4 } else { 5 };
    let mk = |w: u32, x: u32, b_pre: bool| Cfg { part: Part::U, w, x, b_pre, idc: 0 };
    // (with b attached in the setup the interesting histories are one event shorter: quick goes one level deeper there)
    let mut plan: Vec<(Cfg, usize)> = vec![(mk(1, 0, true), 5), (mk(1, u32::MAX - 1, false), depth), (mk(2, 0, true), depth)];
    if !ctx.quick() {
        plan.push((mk(2, u32::MAX - 1, false), depth));
        plan.push((mk(1, u32::MAX - 1, true), depth));
    }
    let totals = Mutex::new(Totals::default());
    let mut done = vec![];
    for (cfg, d) in &plan {
        if Instant::now() > deadline {
            totals.lock().unwrap().truncated = true;
            break;
        }
        search_cfg(*cfg, &al, *d, ctx, deadline, &totals);
        done.push(format!("(W={}, x={}, b {} ; depth {d})", cfg.w, cfg.x, if cfg.b_pre { "pre-attached" } else { "not attached" }));
    }
    let t = totals.into_inner().unwrap();
    out.set("listener_side_executions", t.executions);
    out.set("listener_side_states", t.states.len() as u64);
    out.set("listener_side_transitions", t.transitions.len() as u64);
    out.set("listener_executions_with_transfers_held_back_by_the_window", t.held_back);
    out.set("listener_executions_with_flow_for_unaccepted_handle_while_held_back", t.unaccepted_flow_while_held);
    out.set("listener_executions_with_2_or_more_parked_link_flows_at_accept", t.parked_ge2);
    out.set("listener_side_wall_s", (t0.elapsed().as_secs_f64() * 10.0).round() / 10.0);
    out.set("listener_side_complete", !t.truncated);
    out.set(
        "listener_side_bound",
        format!(
            "scripted client vs real listener (ConnectionAcceptor/SessionAcceptor/LinkAcceptor): ALL histories over {} events {:?} for the configurations {}{}; every history ends with the window reopened to {WIDE}",
            al.len(),
            al.iter().map(|e| e.name()).collect::<Vec<_>>(),
            done.join(", "),
            if t.truncated { " (CUT by the budget)" } else { "" }
        ),
    );
    if !t.samples.is_empty() {
        out.set("listener_side_sample", t.samples[0].clone());
    }
    LAST_TRANSITIONS.store(t.transitions.len() as u64, Ordering::Relaxed);
    finish_part(t, out)
}

/// C08 part L: link credit of a link whose flows arrived before the application accepted it.
/// Returns (executions, distinct states).
pub fn part_l(ctx: &Ctx, deadline: Instant, out: &mut Outcome) -> (u64, u64) {
    let t0 = Instant::now();
    let depth = if ctx.quick() { 6 } else { 7 };
    let idcs: Vec<u32> = if ctx.quick() { vec![0, u32::MAX - 1] } else { vec![0, u32::MAX - 2, u32::MAX - 1, u32::MAX] };
    let totals = Mutex::new(Totals::default());
    for idc in &idcs {
        if Instant::now() > deadline {
            totals.lock().unwrap().truncated = true;
            break;
        }
        let cfg = Cfg { part: Part::L, w: WIDE, x: 0, b_pre: true, idc: *idc };
        search_cfg(cfg, &ALPHABET_L, depth, ctx, deadline, &totals);
    }
    let t = totals.into_inner().unwrap();
    out.set("listener_side_executions", t.executions);
    out.set("listener_side_states", t.states.len() as u64);
    out.set("listener_side_transitions", t.transitions.len() as u64);
    out.set("listener_executions_with_2_or_more_parked_link_flows_at_accept", t.parked_ge2);
    out.set("listener_executions_sender_transmitted_on_credit_parked_before_accept", t.b_transmitted_after_parked);
    out.set("listener_blocked_sends_later_woken", t.woken);
    out.set("listener_side_wall_s", (t0.elapsed().as_secs_f64() * 10.0).round() / 10.0);
    out.set("listener_side_complete", !t.truncated);
    out.set(
        "listener_side_bound",
        format!(
            "scripted client vs real listener: link b attached by the client, ALL histories of depth {depth} over {} events {:?} x listener's initial delivery-count {:?}{}",
            ALPHABET_L.len(),
            ALPHABET_L.iter().map(|e| e.name()).collect::<Vec<_>>(),
            idcs,
            if t.truncated { " (CUT by the budget)" } else { "" }
        ),
    );
    if !t.samples.is_empty() {
        out.set("listener_side_sample", t.samples[0].clone());
    }
    LAST_TRANSITIONS.store(t.transitions.len() as u64, Ordering::Relaxed);
    finish_part(t, out)
}

/// Re-executes one listener-side case.  Returns false if the replay JSON does not belong to this module.
pub fn replay(r: &serde_json::Value, out: &mut Outcome) -> bool {
    if r["kind"] != "listener-side" {
        return false;
    }
    let cfg = Cfg::from_json(&r["cfg"]);
    let evs: Vec<Ev> = r["event_names"].as_array().map(|a| a.iter().filter_map(|v| v.as_str()).filter_map(Ev::parse).collect()).unwrap_or_default();
    println!("replaying listener side {:?} ({}) history {:?}", cfg.part, cfg.describe(), evs);
    let n = evs.len();
    let hr = run_history(cfg, evs);
    for l in &hr.out.trace {
        println!("  {l}");
    }
    if let Some(m) = hr.out.machinery {
        out.machinery_errors.push(m);
    }
    for (s, d, at) in hr.fails {
        println!("  FAIL at step {at} [{s}]: {d}");
        out.violation(s, d, r.clone());
    }
    out.set("states", hr.out.state_keys.len().max(1));
    out.set("transitions", n.max(1));
    out.set("traces_validated_against_impl", 1);
    out.set("samples", json!([r["event_names"]]));
    out.set("exhaustive", true);
    out.set("bound", "replay of one history");
    out.set("rule", "replay");
    true
}
