//! Scenario building blocks shared by the engine-level checks: a real client (connection, session, links)
//! against the scripted peer, and a task that owns a `Sender` and executes queued send commands.
use fe2o3_amqp::connection::ConnectionHandle;
use fe2o3_amqp::session::SessionHandle;
use fe2o3_amqp::{Connection, Sender, Session};
use std::sync::{Arc, Mutex};
use std::time::Duration;
use tokio::sync::mpsc;
use vlib::peer::{drive, Auto, Peer};
use vlib::vpipe::Pipe;

pub const H: Duration = Duration::from_secs(5);

pub struct Client {
    pub peer: Peer,
    pub conn: ConnectionHandle<()>,
    pub pipe: Pipe,
    /// the unused async end of the scripted side (dropping it would read as EOF)
    pub _other_end: vlib::vpipe::End,
}

/// open a real client connection against a scripted peer with the given default answers
pub async fn open_client(auto: Auto, max_frame_size: u32) -> Result<Client, String> {
    let (pipe, a, b) = Pipe::new();
    let mut peer = Peer::new(pipe.clone(), 1, auto);
    let conn = drive(
        &mut peer,
        Connection::builder().container_id("lib").max_frame_size(max_frame_size).open_with_stream(a),
        H,
    )
    .await
    .ok_or("open hung")?
    .map_err(|e| format!("open failed: {e}"))?;
    Ok(Client { peer, conn, pipe, _other_end: b })
}

pub async fn begin(c: &mut Client, b: fe2o3_amqp::session::Builder) -> Result<SessionHandle<()>, String> {
    drive(&mut c.peer, b.begin(&mut c.conn), H)
        .await
        .ok_or("begin hung")?
        .map_err(|e| format!("begin failed: {e}"))
}

#[derive(Debug, Clone)]
pub enum SendCmd {
    /// send a message whose body is a binary of this many bytes, tagged with a sequence number
    Send { body_len: usize },
    Stop,
}

#[derive(Debug, Clone, Default)]
pub struct SendLog {
    /// one entry per completed send: (sequence number, Ok(outcome debug) | Err(error))
    pub done: Vec<(usize, Result<String, String>)>,
    pub started: usize,
    pub stopped: bool,
}

/// message body for sequence number `seq`: first 4 bytes = seq, rest filler
pub fn body(seq: usize, len: usize) -> Vec<u8> {
    let mut v = (seq as u32).to_be_bytes().to_vec();
    v.resize(len.max(4), (seq % 251) as u8);
    v
}

/// Spawn a task that owns `sender` and performs the queued sends one after the other.
pub fn spawn_sender_task(mut sender: Sender) -> (mpsc::UnboundedSender<SendCmd>, Arc<Mutex<SendLog>>, tokio::task::JoinHandle<Sender>) {
    let (tx, mut rx) = mpsc::unbounded_channel::<SendCmd>();
    let log = Arc::new(Mutex::new(SendLog::default()));
    let log2 = log.clone();
    let h = tokio::spawn(async move {
        let mut seq = 0usize;
        while let Some(cmd) = rx.recv().await {
            match cmd {
                SendCmd::Stop => break,
                SendCmd::Send { body_len } => {
                    log2.lock().unwrap().started += 1;
                    let b = serde_bytes::ByteBuf::from(body(seq, body_len));
                    let r = sender.send(fe2o3_amqp_types::messaging::Message::builder().data(b).build()).await;
                    log2.lock().unwrap().done.push((seq, r.map(|o| format!("{:?}", o)).map_err(|e| e.to_string())));
                    seq += 1;
                }
            }
        }
        log2.lock().unwrap().stopped = true;
        sender
    });
    (tx, log, h)
}

#[allow(dead_code)]
pub fn unused(_: Session) {}
