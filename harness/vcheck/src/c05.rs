//! C05 - encodings are valid AMQP 1.0 (judged by the independent reference decoder) and every
//! spec-valid encoding variant of a value is accepted and decodes to that value.
use crate::c03::{hex_full, trunc};
use crate::typed::{self, dbg, Exp, Expect, Visitor};
use fe2o3_amqp_types::messaging::message::__private::{Deserializable, Serializable};
use fe2o3_amqp_types::messaging::{Body, Message};
use refamqp::RVal;
use serde::de::DeserializeOwned;
use serde::Serialize;
use serde_amqp::Value;
use serde_json::json;
use std::collections::HashSet;
use std::fmt::Debug;
use std::sync::atomic::{AtomicU64, Ordering};
use std::sync::Mutex;
use vlib::corpus::{self, rval_eq_modulo_empty_array, value_to_rval};
use vlib::report::{Ctx, Outcome};
use vlib::util::{catch, h64, hex, par_map};

pub fn array_of_compound(v: &Value) -> Option<&'static str> {
    fn find(v: &Value) -> Option<&'static str> {
        match v {
            Value::Array(a) => match a.0.first() {
                Some(Value::List(_)) => Some("array-of-list"),
                Some(Value::Map(_)) => Some("array-of-map"),
                Some(Value::Array(_)) => Some("array-of-array"),
                Some(Value::Described(_)) => Some("array-of-described"),
                _ => None,
            },
            Value::List(l) => l.iter().find_map(find),
            Value::Map(m) => m.iter().find_map(|(k, v)| find(k).or_else(|| find(v))),
            Value::Described(d) => find(&d.value),
            _ => None,
        }
    }
    find(v)
}

/// arrays whose elements can be encoded with zero width (null, all-true / all-false booleans, all-zero
/// uint/ulong, all-empty lists)
pub fn zero_width_array(v: &Value) -> bool {
    fn find(v: &Value) -> bool {
        match v {
            Value::Array(a) => {
                !a.0.is_empty()
                    && (a.0.iter().all(|e| matches!(e, Value::Null))
                        || a.0.iter().all(|e| matches!(e, Value::Bool(true)))
                        || a.0.iter().all(|e| matches!(e, Value::Bool(false)))
                        || a.0.iter().all(|e| matches!(e, Value::Uint(0)))
                        || a.0.iter().all(|e| matches!(e, Value::Ulong(0))))
            }
            Value::List(l) => l.iter().any(find),
            Value::Map(m) => m.iter().any(|(k, v)| find(k) || find(v)),
            Value::Described(d) => find(&d.value),
            _ => false,
        }
    }
    find(v)
}

/// signature of a failure: known structural root causes first, else kind + shape (+ variant names)
fn classify(v: &Value, kind: &str, names: &str) -> String {
    if let Some(k) = array_of_compound(v) {
        return k.to_string();
    }
    if zero_width_array(v) && (kind == "variant-rejected" || kind == "invalid-encoding") {
        return format!("{kind} array-zero-width-elements");
    }
    if names.is_empty() {
        format!("{kind} {}", corpus::shape(v))
    } else {
        format!("{kind} {} [{names}]", corpus::shape(v))
    }
}

/// forward direction for one untyped value
pub fn forward_value(v: &Value) -> Option<(String, String)> {
    let enc = match catch(|| serde_amqp::to_vec(v)) {
        Ok(Ok(b)) => b,
        _ => return None, // encode failures are C03's business
    };
    let want = value_to_rval(v);
    match refamqp::decode_all_lenient_empty_array(&enc) {
        Err(e) => Some((
            classify(v, "invalid-encoding", ""),
            format!(
                "the bytes produced for {} are not a well-formed AMQP encoding: {} (reference decoder: {} at offset {})",
                trunc(&format!("{:?}", v)),
                hex(&enc),
                e.msg,
                e.offset
            ),
        )),
        Ok(got) => {
            if rval_eq_modulo_empty_array(&got, &want) {
                None
            } else {
                Some((
                    classify(v, "wrong-encoding", ""),
                    format!(
                        "bytes {} produced for {} are a valid encoding of a different value: {}",
                        hex(&enc),
                        trunc(&format!("{:?}", v)),
                        trunc(&format!("{:?}", got))
                    ),
                ))
            }
        }
    }
}

/// all variant scripts to try for a value: full product if small, else single-node deviations + extremes
fn scripts(counts: &[usize], cap: usize) -> Vec<Vec<usize>> {
    let prod: usize = counts.iter().fold(1usize, |a, c| a.saturating_mul(*c));
    let mut out = vec![];
    if prod <= cap {
        let mut cur = vec![0usize; counts.len()];
        loop {
            out.push(cur.clone());
            let mut i = 0;
            loop {
                if i == counts.len() {
                    return out;
                }
                cur[i] += 1;
                if cur[i] < counts[i] {
                    break;
                }
                cur[i] = 0;
                i += 1;
            }
        }
    }
    out.push(vec![0; counts.len()]);
    out.push(counts.iter().map(|c| c - 1).collect());
    for (i, c) in counts.iter().enumerate() {
        for alt in 1..*c {
            let mut s = vec![0; counts.len()];
            s[i] = alt;
            out.push(s);
            let mut s: Vec<usize> = counts.iter().map(|c| c - 1).collect();
            s[i] = alt - 1;
            out.push(s);
        }
    }
    out
}

/// backward direction for one untyped value: returns (number of encodings tried, failures)
pub fn backward_value(v: &Value, cap: usize) -> (u64, Vec<(String, String, Vec<u8>)>) {
    let rv = value_to_rval(v);
    if rv.well_formed().is_err() {
        return (0, vec![]);
    }
    let counts = refamqp::variant_counts(&rv);
    let mut fails = vec![];
    let mut n = 0;
    let mut seen = HashSet::new();
    for s in scripts(&counts, cap) {
        let enc = refamqp::encode_script(&rv, &s);
        if !seen.insert(h64(&enc)) {
            continue;
        }
        n += 1;
        // the reference's own strict decoder must agree that this is an encoding of rv (self-check)
        debug_assert!(refamqp::decode_all(&enc).map(|g| g == rv).unwrap_or(false));
        let names = variant_names(&rv, &s);
        let r = catch(|| serde_amqp::from_slice::<Value>(&enc));
        match r {
            Err(p) => fails.push((
                classify(v, "variant-panic", &names),
                format!("from_slice panicked on a valid encoding {} of {}: {p}", hex(&enc), trunc(&format!("{:?}", v))),
                enc.clone(),
            )),
            Ok(Err(e)) => fails.push((
                classify(v, "variant-rejected", &names),
                format!("valid encoding {} ({names}) of {} is rejected: {e}", hex(&enc), trunc(&format!("{:?}", v))),
                enc.clone(),
            )),
            Ok(Ok(got)) => {
                if &got != v {
                    fails.push((
                        classify(v, "variant-misread", &names),
                        format!(
                            "valid encoding {} ({names}) of {} decodes to {}",
                            hex(&enc),
                            trunc(&format!("{:?}", v)),
                            trunc(&format!("{:?}", got))
                        ),
                        enc.clone(),
                    ));
                }
            }
        }
    }
    (n, fails)
}

/// names of the non-default variants chosen by a script (for signatures)
fn variant_names(rv: &RVal, script: &[usize]) -> String {
    let mut i = 0;
    let mut names: Vec<&'static str> = vec![];
    refamqp::encode_with(rv, &mut |_, vars| {
        let c = script.get(i).copied().unwrap_or(0);
        i += 1;
        if vars.len() > 1 {
            names.push(vars[c.min(vars.len() - 1)].name);
        }
        c
    });
    names.sort();
    names.dedup();
    names.join("+")
}

// ------------------------------------------------------------------------------------ typed
struct TypedC05 {
    variants: AtomicU64,
}

use crate::typed::field_ok;

/// alternative spec-valid encodings of a composite described by `exp`
pub fn composite_variants(exp: &Expect) -> Vec<(String, Vec<u8>)> {
    let comp = refamqp::composite_by_name(exp.composite).expect("composite table");
    let nfields = comp.fields.len();
    let mut out = vec![];
    // field value choices: (label, values)
    let base = |explicit_defaults: bool, multi_single: bool| -> Vec<RVal> {
        exp.fields
            .iter()
            .map(|e| match e {
                Exp::Is(r) => r.clone(),
                Exp::NullOr(r) => {
                    if explicit_defaults {
                        r.clone()
                    } else {
                        RVal::Null
                    }
                }
                Exp::Multi(v) => {
                    if multi_single && v.len() == 1 {
                        v[0].clone()
                    } else {
                        RVal::Array(v[0].rtype(), v.clone())
                    }
                }
            })
            .collect()
    };
    for (l1, explicit) in [("defaults-null", false), ("defaults-explicit", true)] {
        for (l2, single) in [("multi-array", false), ("multi-single", true)] {
            let mut f = base(explicit, single);
            for (l3, pad) in [("trailing-elided", false), ("trailing-nulls", true)] {
                if pad {
                    while f.len() < nfields {
                        f.push(RVal::Null);
                    }
                } else {
                    while f.last() == Some(&RVal::Null) {
                        f.pop();
                    }
                }
                for (l4, d) in [
                    ("code", RVal::Ulong(comp.code)),
                    ("symbol", RVal::Sym(comp.symbol.as_bytes().to_vec())),
                ] {
                    let v = RVal::Described(Box::new(d), Box::new(RVal::List(f.clone())));
                    out.push((format!("{l1},{l2},{l3},descriptor-{l4},narrowest"), refamqp::encode_narrowest(&v)));
                    out.push((format!("{l1},{l2},{l3},descriptor-{l4},widest"), refamqp::encode_widest(&v)));
                }
            }
        }
    }
    // single explicit default at a time
    for (i, e) in exp.fields.iter().enumerate() {
        if let Exp::NullOr(r) = e {
            let mut f = base(false, false);
            f[i] = r.clone();
            while f.last() == Some(&RVal::Null) {
                f.pop();
            }
            let v = RVal::Described(Box::new(RVal::Ulong(comp.code)), Box::new(RVal::List(f)));
            out.push((format!("explicit-default-field-{i}"), refamqp::encode_narrowest(&v)));
        }
    }
    let mut seen = HashSet::new();
    out.retain(|(_, b)| seen.insert(h64(b)));
    out
}

impl Visitor for TypedC05 {
    fn visit<T: Serialize + DeserializeOwned + Debug>(&self, ty: &'static str, _mask: u64, _alt: bool, item: &T, exp: &Expect) -> Vec<(String, String)> {
        let mut f = vec![];
        // forward
        if let Ok(Ok(enc)) = catch(|| serde_amqp::to_vec(item)) {
            match refamqp::decode_all_lenient_empty_array(&enc) {
                Err(e) => f.push((
                    format!("typed invalid-encoding {ty}"),
                    format!("bytes {} for {} are not well-formed AMQP: {} at {}", hex(&enc), dbg(item), e.msg, e.offset),
                )),
                Ok(rv) => match refamqp::validate_composite(&rv) {
                    Err(e) => f.push((
                        format!("typed invalid-composite {ty}"),
                        format!("bytes {} for {} violate the {ty} definition: {} (field {})", hex(&enc), dbg(item), e.msg, e.offset),
                    )),
                    Ok((comp, fields)) => {
                        if comp.name != exp.composite {
                            f.push((
                                format!("typed wrong-descriptor {ty}"),
                                format!("encoded as {} instead of {}: {}", comp.name, exp.composite, hex(&enc)),
                            ));
                        } else {
                            for (i, e) in exp.fields.iter().enumerate() {
                                let got = fields.get(i).cloned().unwrap_or(RVal::Null);
                                if !field_ok(e, &got) {
                                    f.push((
                                        format!("typed wrong-field {ty}.{}", comp.fields[i].name),
                                        format!(
                                            "field {} of {} on the wire is {:?}, expected {:?}; bytes {}",
                                            comp.fields[i].name,
                                            dbg(item),
                                            got,
                                            e,
                                            hex(&enc)
                                        ),
                                    ));
                                }
                            }
                        }
                    }
                },
            }
        }
        // backward
        for (label, enc) in composite_variants(exp) {
            self.variants.fetch_add(1, Ordering::Relaxed);
            match catch(|| serde_amqp::from_slice::<T>(&enc)) {
                Err(p) => f.push((format!("typed variant-panic {ty} [{label}]"), format!("{p}: {}", hex(&enc)))),
                Ok(Err(e)) => f.push((
                    format!("typed variant-rejected {ty} [{label}]"),
                    format!("spec-valid encoding {} of {} rejected: {e}", hex(&enc), dbg(item)),
                )),
                Ok(Ok(got)) => {
                    if dbg(&got) != dbg(item) {
                        f.push((
                            format!("typed variant-misread {ty} [{label}]"),
                            format!("spec-valid encoding {} of {} decodes to {}", hex(&enc), dbg(item), dbg(&got)),
                        ));
                    }
                }
            }
            // and through the enums that pick their variant by peeking the descriptor
            for (wrapper, want, got) in typed::wrapper_decodes(ty, &enc, &dbg(item), false) {
                self.variants.fetch_add(1, Ordering::Relaxed);
                match got {
                    Ok(g) if g == want => {}
                    Ok(g) => f.push((
                        format!("typed variant-misread {ty} as {wrapper} [{label}]"),
                        format!("spec-valid encoding {} decodes as {wrapper} to {g}, expected {want}", hex(&enc)),
                    )),
                    Err(e) => f.push((
                        format!("typed variant-rejected {ty} as {wrapper} [{label}]"),
                        format!("spec-valid encoding {} of {} is {e} when decoded as {wrapper}", hex(&enc), dbg(item)),
                    )),
                }
            }
        }
        f
    }

    fn visit_message(&self, _mask: u64, _alt: bool, m: &Message<Body<Value>>, secs: &[RVal]) -> Vec<(String, String)> {
        let mut f = vec![];
        let kind = typed::body_kind(m);
        if let Ok(Ok(enc)) = catch(|| serde_amqp::to_vec(&Serializable(m))) {
            match refamqp::parse_message(&enc) {
                Err(e) => f.push((
                    format!("typed invalid-encoding message body={kind}"),
                    format!("bytes {} for {} are not a well-formed bare message: {} at {}", hex(&enc), dbg(m), e.msg, e.offset),
                )),
                Ok(got) => {
                    let mut want = secs.to_vec();
                    if matches!(m.body, Body::Empty) {
                        // library convention: an absent body is written as amqp-value(null); an absent body
                        // section is accepted as well
                        if got.len() == want.len() + 1 {
                            let pos = got
                                .iter()
                                .position(|s| refamqp::section_code(s) == Some(0x77))
                                .unwrap_or(got.len());
                            want.insert(pos.min(want.len()), RVal::Described(Box::new(RVal::Ulong(0x77)), Box::new(RVal::Null)));
                        }
                    }
                    let same = got.len() == want.len()
                        && got.iter().zip(&want).all(|(g, w)| sections_equal(g, w));
                    if !same {
                        f.push((
                            format!("typed wrong-encoding message body={kind}"),
                            format!("sections on the wire {:?} differ from {:?}; bytes {}", got, want, hex(&enc)),
                        ));
                    }
                }
            }
        }
        // backward: narrowest / widest / descriptors by symbol
        if !matches!(m.body, Body::Empty) {
            let sym_secs: Vec<RVal> = secs
                .iter()
                .map(|s| match s {
                    RVal::Described(d, v) => {
                        let code = if let RVal::Ulong(c) = **d { c } else { 0 };
                        let name = match code {
                            0x70 => "amqp:header:list",
                            0x71 => "amqp:delivery-annotations:map",
                            0x72 => "amqp:message-annotations:map",
                            0x73 => "amqp:properties:list",
                            0x74 => "amqp:application-properties:map",
                            0x75 => "amqp:data:binary",
                            0x76 => "amqp:amqp-sequence:list",
                            0x77 => "amqp:amqp-value:*",
                            _ => "amqp:footer:map",
                        };
                        RVal::Described(Box::new(RVal::Sym(name.as_bytes().to_vec())), v.clone())
                    }
                    o => o.clone(),
                })
                .collect();
            let encs: Vec<(&str, Vec<u8>)> = vec![
                ("narrowest", secs.iter().flat_map(refamqp::encode_narrowest).collect()),
                ("widest", secs.iter().flat_map(refamqp::encode_widest).collect()),
                ("symbol-descriptors", sym_secs.iter().flat_map(refamqp::encode_narrowest).collect()),
                ("symbol-descriptors-widest", sym_secs.iter().flat_map(refamqp::encode_widest).collect()),
            ];
            for (label, enc) in encs {
                self.variants.fetch_add(1, Ordering::Relaxed);
                match catch(|| serde_amqp::from_slice::<Deserializable<Message<Body<Value>>>>(&enc)) {
                    Err(p) => f.push((format!("typed variant-panic message [{label}]"), format!("{p}: {}", hex(&enc)))),
                    Ok(Err(e)) => f.push((
                        format!("typed variant-rejected message body={kind} [{label}]"),
                        format!("spec-valid message encoding {} rejected: {e}", hex(&enc)),
                    )),
                    Ok(Ok(got)) => {
                        if &got.0 != m {
                            f.push((
                                format!("typed variant-misread message body={kind} [{label}]"),
                                format!("spec-valid encoding {} of {} decodes to {}", hex(&enc), dbg(m), dbg(&got.0)),
                            ));
                        }
                    }
                }
            }
        }
        f
    }
}

/// section equality where composite sections (header/properties) may carry explicit defaults / trailing nulls
fn sections_equal(got: &RVal, want: &RVal) -> bool {
    match (got, want) {
        (RVal::Described(dg, vg), RVal::Described(dw, vw)) => {
            let cg = refamqp::section_code(got).or(match **dg {
                RVal::Ulong(c) => Some(c),
                _ => None,
            });
            let cw = match **dw {
                RVal::Ulong(c) => Some(c),
                _ => None,
            };
            if cg != cw {
                return false;
            }
            match (&**vg, &**vw) {
                (RVal::List(a), RVal::List(b)) if matches!(cw, Some(0x70) | Some(0x73)) => {
                    // compare field-wise ignoring trailing nulls and explicit defaults of header
                    let n = a.len().max(b.len());
                    (0..n).all(|i| {
                        let x = a.get(i).cloned().unwrap_or(RVal::Null);
                        let y = b.get(i).cloned().unwrap_or(RVal::Null);
                        x == y || (cw == Some(0x70) && y == RVal::Null && header_default(i) == Some(x))
                    })
                }
                (a, b) => rval_eq_modulo_empty_array(a, b),
            }
        }
        _ => false,
    }
}
fn header_default(i: usize) -> Option<RVal> {
    match i {
        0 => Some(RVal::Bool(false)),
        1 => Some(RVal::Ubyte(4)),
        3 => Some(RVal::Bool(false)),
        4 => Some(RVal::Uint(0)),
        _ => None,
    }
}

// ------------------------------------------------------------------------------------ mixed descriptor forms
/// A message body of several data (or amqp-sequence) sections in which every section names its descriptor in a
/// form of its own: smallulong, ulong, symbol in sym8, symbol in sym32.  All are the same descriptor; the body
/// has to come back with every section, in order.
fn mixed_descriptor_cases() -> (u64, Vec<(String, String, serde_json::Value)>) {
    use fe2o3_amqp_types::messaging::message::__private::Deserializable;
    use fe2o3_amqp_types::messaging::{Body, Message};
    use serde_amqp::Value;
    fn descriptor(code: u8, name: &str, form: usize) -> Vec<u8> {
        let mut v = vec![0x00];
        match form {
            0 => v.extend([0x53, code]),
            1 => v.extend([0x80, 0, 0, 0, 0, 0, 0, 0, code]),
            2 => {
                v.extend([0xa3, name.len() as u8]);
                v.extend(name.as_bytes());
            }
            _ => {
                v.push(0xb3);
                v.extend((name.len() as u32).to_be_bytes());
                v.extend(name.as_bytes());
            }
        }
        v
    }
    let forms = ["smallulong", "ulong", "sym8", "sym32"];
    let mut fails = vec![];
    let mut n = 0u64;
    for seq in [false, true] {
        for k in 2..=3usize {
            for combo in 0..4usize.pow(k as u32) {
                let fs: Vec<usize> = (0..k).map(|i| (combo / 4usize.pow(i as u32)) % 4).collect();
                let mut bytes = vec![];
                for (i, f) in fs.iter().enumerate() {
                    if seq {
                        bytes.extend(descriptor(0x76, "amqp:amqp-sequence:list", *f));
                        bytes.extend([0xc0, 0x03, 0x01, 0x50, i as u8]); // list8 [ubyte i]
                    } else {
                        bytes.extend(descriptor(0x75, "amqp:data:binary", *f));
                        bytes.extend([0xa0, 0x02, 0xd0, i as u8]); // vbin8 d0 <i>
                    }
                }
                n += 1;
                let what = format!("{} {} sections with descriptors as {:?}: {}", k, if seq { "amqp-sequence" } else { "data" }, fs.iter().map(|f| forms[*f]).collect::<Vec<_>>(), hex(&bytes));
                let rep = json!({"kind": "mixed-descriptors", "hex": hex_full(&bytes)});
                match catch(|| serde_amqp::from_slice::<Deserializable<Message<Body<Value>>>>(&bytes)) {
                    Err(p) => fails.push(("panic mixed-descriptor body".to_string(), format!("{what}: {p}"), rep)),
                    Ok(Err(e)) => fails.push(("variant-rejected mixed-descriptor body".to_string(), format!("{what}: refused with {e}"), rep)),
                    Ok(Ok(m)) => {
                        let got: Option<Vec<u8>> = match &m.0.body {
                            Body::Data(b) if !seq => Some(b.iter().map(|d| d.0.last().copied().unwrap_or(255)).collect()),
                            Body::Sequence(b) if seq => Some(b.iter().map(|sq| match sq.0.first() { Some(Value::Ubyte(x)) => *x, _ => 255 }).collect()),
                            _ => None,
                        };
                        let want: Vec<u8> = (0..k as u8).collect();
                        if got.as_ref() != Some(&want) {
                            fails.push((
                                "body-sections-lost mixed-descriptor body".to_string(),
                                format!("{what}: decoded body {} (sections expected {:?}, got {:?})", trunc(&format!("{:?}", m.0.body)), want, got),
                                rep,
                            ));
                        }
                    }
                }
            }
        }
    }
    (n, fails)
}

pub fn run(ctx: &Ctx) -> Outcome {
    let mut out = Outcome::new("exploration");
    if let Some(p) = &ctx.replay {
        return replay(p, out);
    }
    let depth = if ctx.quick() { 3 } else { 4 };
    let cap = if ctx.quick() { 4096 } else { 65536 };
    let vals = corpus::values(depth);
    let distinct = Mutex::new(HashSet::<u64>::new());
    let res = par_map(&vals, ctx.threads, |_, v| {
        let fw = forward_value(v);
        let (n, bw) = backward_value(v, cap);
        if let Ok(Ok(b)) = catch(|| serde_amqp::to_vec(v)) {
            distinct.lock().unwrap().insert(h64(&b));
        }
        (fw, n, bw)
    });
    let mut evals = 0u64;
    let mut variants = 0u64;
    for (v, (fw, n, bw)) in vals.iter().zip(res) {
        evals += 1;
        variants += n;
        let rb = hex_full(&refamqp::encode_widest(&value_to_rval(v)));
        if let Some((sig, detail)) = fw {
            out.violation(sig, detail, json!({"kind": "value-forward", "ref_encoding_hex": rb}));
        }
        for (sig, detail, enc) in bw {
            out.violation(sig, detail, json!({"kind": "value-backward", "ref_encoding_hex": rb, "variant_hex": hex_full(&enc)}));
        }
    }
    let tv = TypedC05 {
        variants: AtomicU64::new(0),
    };
    let t = typed::enumerate(&tv, ctx);
    for f in t.fails {
        out.violation(f.0, f.1, f.2);
    }
    let (n_mixed, mixed) = mixed_descriptor_cases();
    for (sig, d, r) in mixed {
        out.violation(sig, d, r);
    }
    out.set("mixed_descriptor_bodies", n_mixed);
    let tvars = tv.variants.load(Ordering::Relaxed);
    out.set("evaluations", evals + variants + t.evaluations + tvars);
    out.set("values", evals);
    out.set("value_variant_encodings", variants);
    out.set("typed_items", t.evaluations);
    out.set("typed_variant_encodings", tvars);
    out.set("distinct_nontrivial", distinct.into_inner().unwrap().len() as u64 + t.distinct);
    out.set("rule", "forward: the library's encoding of every corpus value / typed item is decoded by the independent strict reference decoder (refamqp) and must equal the value (typed: validate against the spec's field table, compare every field with the expectation built next to the item). backward: for every value every combination of per-node encoding variants (full product when <= cap, else every single-node deviation from all-narrowest and from all-widest) is reference-encoded and must decode to the value; typed: defaults null/explicit x multiple-field single/array x trailing nulls elided/present x descriptor code/symbol x narrowest/widest. distinct = distinct library encodings");
    out.set("exhaustive", true);
    out.set("bound", format!("grammar depth {depth}; full variant product up to {cap} combinations per value"));
    let samples: Vec<String> = vals
        .iter()
        .skip(200)
        .step_by(vals.len() / 4 + 1)
        .take(4)
        .map(|v| {
            let rv = value_to_rval(v);
            format!(
                "{} : lib={} narrowest={} widest={} variant-nodes={:?}",
                trunc(&format!("{:?}", v)),
                hex(&serde_amqp::to_vec(v).unwrap_or_default()),
                hex(&refamqp::encode_narrowest(&rv)),
                hex(&refamqp::encode_widest(&rv)),
                refamqp::variant_counts(&rv)
            )
        })
        .collect();
    out.set("samples", json!(samples));
    out.assume("validity is judged by refamqp, an independent implementation written from the AMQP 1.0 specification (self-tested: golden vectors, strictness tests)");
    out.assume("composites are only tried in their list form (the specification defines no map form for these types)");
    out
}

fn replay(p: &std::path::Path, mut out: Outcome) -> Outcome {
    let Ok(s) = std::fs::read_to_string(p) else {
        out.machinery_errors.push(format!("cannot read {}", p.display()));
        return out;
    };
    let j: serde_json::Value = serde_json::from_str(&s).unwrap_or_default();
    let r = &j["replay"];
    let kind = r["kind"].as_str().unwrap_or("");
    if kind.starts_with("value") {
        let b = vlib::util::unhex(r["ref_encoding_hex"].as_str().unwrap_or("")).unwrap_or_default();
        let v = refamqp::decode_all(&b).ok().and_then(|rv| corpus::rval_to_value(&rv));
        let Some(v) = v else {
            out.machinery_errors.push("replay: cannot rebuild value".into());
            return out;
        };
        println!("replaying {}", trunc(&format!("{:?}", v)));
        if let Some((s, d)) = forward_value(&v) {
            println!("  FAIL {s}: {d}");
            out.violation(s, d, r.clone());
        }
        for (s, d, _) in backward_value(&v, 4096).1 {
            println!("  FAIL {s}: {d}");
            out.violation(s, d, r.clone());
        }
    } else if kind == "typed-sweep" {
        let tv = TypedC05 {
            variants: AtomicU64::new(0),
        };
        for (s, d, _) in typed::replay_sweep(&tv, r) {
            println!("  FAIL {s}: {d}");
            out.violation(s, d, r.clone());
        }
    } else if kind == "typed" {
        let tv = TypedC05 {
            variants: AtomicU64::new(0),
        };
        for (s, d) in typed::visit_one(&tv, r["type"].as_str().unwrap_or(""), r["mask"].as_u64().unwrap_or(0), r["alt"].as_bool().unwrap_or(false)) {
            println!("  FAIL {s}: {d}");
            out.violation(s, d, r.clone());
        }
    } else {
        out.machinery_errors.push("replay: unknown kind".into());
    }
    out.set("evaluations", 1);
    out.set("distinct_nontrivial", 0);
    out.set("rule", "replay");
    out.set("samples", json!([r]));
    out
}
