//! C19 helpers: an INDEPENDENT SCRAM (RFC 5802 / RFC 7677) computation - HMAC, PBKDF2 (Hi), base64 written
//! here on top of the bare hash functions of the sha1/sha2 crates, none of the subject's code - and an
//! independent, structure-only reader for the SASL frames found in the byte log of the transport.
use sha1::Sha1;
use sha2::{Digest, Sha256, Sha512};
use std::collections::HashMap;
use std::sync::Mutex;

#[derive(Clone, Copy, Debug, PartialEq, Eq, Hash)]
pub enum Ver {
    S1,
    S256,
    S512,
}

pub const VERSIONS: [Ver; 3] = [Ver::S1, Ver::S256, Ver::S512];

impl Ver {
    pub fn mech(&self) -> &'static str {
        match self {
            Ver::S1 => "SCRAM-SHA-1",
            Ver::S256 => "SCRAM-SHA-256",
            Ver::S512 => "SCRAM-SHA-512",
        }
    }
    pub fn from_mech(s: &str) -> Option<Ver> {
        VERSIONS.iter().copied().find(|v| v.mech() == s)
    }
    fn block(&self) -> usize {
        match self {
            Ver::S1 | Ver::S256 => 64,
            Ver::S512 => 128,
        }
    }
    pub fn h(&self, d: &[u8]) -> Vec<u8> {
        match self {
            Ver::S1 => Sha1::digest(d).to_vec(),
            Ver::S256 => Sha256::digest(d).to_vec(),
            Ver::S512 => Sha512::digest(d).to_vec(),
        }
    }
    /// RFC 2104
    pub fn hmac(&self, key: &[u8], msg: &[u8]) -> Vec<u8> {
        let b = self.block();
        let mut k = if key.len() > b { self.h(key) } else { key.to_vec() };
        k.resize(b, 0);
        let mut inner: Vec<u8> = k.iter().map(|x| x ^ 0x36).collect();
        inner.extend_from_slice(msg);
        let ih = self.h(&inner);
        let mut outer: Vec<u8> = k.iter().map(|x| x ^ 0x5c).collect();
        outer.extend_from_slice(&ih);
        self.h(&outer)
    }
    /// Hi(str, salt, i) of RFC 5802 = PBKDF2 with dkLen = hash length (one block)
    fn hi_uncached(&self, pw: &[u8], salt: &[u8], iters: u32) -> Vec<u8> {
        let mut s = salt.to_vec();
        s.extend_from_slice(&[0, 0, 0, 1]);
        let mut u = self.hmac(pw, &s);
        let mut out = u.clone();
        for _ in 1..iters {
            u = self.hmac(pw, &u);
            for (o, x) in out.iter_mut().zip(u.iter()) {
                *o ^= x;
            }
        }
        out
    }
    pub fn hi(&self, pw: &[u8], salt: &[u8], iters: u32) -> Vec<u8> {
        static CACHE: Mutex<Option<HashMap<(Ver, Vec<u8>, Vec<u8>, u32), Vec<u8>>>> = Mutex::new(None);
        let key = (*self, pw.to_vec(), salt.to_vec(), iters);
        if let Some(v) = CACHE.lock().unwrap().get_or_insert_with(HashMap::new).get(&key) {
            return v.clone();
        }
        let v = self.hi_uncached(pw, salt, iters);
        CACHE.lock().unwrap().get_or_insert_with(HashMap::new).insert(key, v.clone());
        v
    }
}

const B64: &[u8; 64] = b"ABCDEFGHIJKLMNOPQRSTUVWXYZabcdefghijklmnopqrstuvwxyz0123456789+/";

pub fn b64e(d: &[u8]) -> String {
    let mut o = String::new();
    for c in d.chunks(3) {
        let n = (c[0] as u32) << 16 | (*c.get(1).unwrap_or(&0) as u32) << 8 | *c.get(2).unwrap_or(&0) as u32;
        o.push(B64[(n >> 18) as usize & 63] as char);
        o.push(B64[(n >> 12) as usize & 63] as char);
        o.push(if c.len() > 1 { B64[(n >> 6) as usize & 63] as char } else { '=' });
        o.push(if c.len() > 2 { B64[n as usize & 63] as char } else { '=' });
    }
    o
}

pub fn b64d(s: &str) -> Option<Vec<u8>> {
    let b = s.as_bytes();
    if b.len() % 4 != 0 {
        return None;
    }
    let mut o = vec![];
    for (ci, c) in b.chunks(4).enumerate() {
        let last = ci + 1 == b.len() / 4;
        let mut n = 0u32;
        let mut pad = 0;
        for (i, x) in c.iter().enumerate() {
            let v = if *x == b'=' {
                if !last || i < 2 {
                    return None;
                }
                pad += 1;
                0
            } else {
                if pad > 0 {
                    return None;
                }
                B64.iter().position(|y| y == x)? as u32
            };
            n = n << 6 | v;
        }
        o.push((n >> 16) as u8);
        if pad < 2 {
            o.push((n >> 8) as u8);
        }
        if pad < 1 {
            o.push(n as u8);
        }
    }
    Some(o)
}

pub fn xor(a: &[u8], b: &[u8]) -> Vec<u8> {
    a.iter().zip(b.iter()).map(|(x, y)| x ^ y).collect()
}

/// the fields of a server-first-message `r=..,s=..,i=..`
#[derive(Debug, Clone)]
pub struct ServerFirst {
    pub nonce: String,
    pub salt: Vec<u8>,
    pub iters: u32,
}

pub fn parse_server_first(s: &str) -> Option<ServerFirst> {
    let mut it = s.split(',');
    let nonce = it.next()?.strip_prefix("r=")?.to_string();
    let salt = b64d(it.next()?.strip_prefix("s=")?)?;
    let iters = it.next()?.strip_prefix("i=")?.parse().ok()?;
    Some(ServerFirst { nonce, salt, iters })
}

/// (ClientKey, ServerKey) for a salted password
pub fn keys(v: Ver, salted: &[u8]) -> (Vec<u8>, Vec<u8>) {
    (v.hmac(salted, b"Client Key"), v.hmac(salted, b"Server Key"))
}

pub fn auth_message(cfb: &str, server_first: &str, final_without_proof: &str) -> Vec<u8> {
    format!("{cfb},{server_first},{final_without_proof}").into_bytes()
}

/// ClientProof := ClientKey XOR HMAC(H(ClientKey), AuthMessage)
pub fn client_proof(v: Ver, salted: &[u8], auth: &[u8]) -> Vec<u8> {
    let (ck, _) = keys(v, salted);
    let sk = v.h(&ck);
    xor(&ck, &v.hmac(&sk, auth))
}

/// ServerSignature := HMAC(ServerKey, AuthMessage)
pub fn server_signature(v: Ver, salted: &[u8], auth: &[u8]) -> Vec<u8> {
    let (_, sk) = keys(v, salted);
    v.hmac(&sk, auth)
}

/// server-side verification of a client-final-message (independent of the subject): returns
/// (proof valid, client-final-without-proof)
pub fn verify_client_final(v: Ver, salted: &[u8], cfb: &str, server_first: &str, client_final: &str) -> (bool, String) {
    let Some(pos) = client_final.rfind(",p=") else {
        return (false, client_final.to_string());
    };
    let without = &client_final[..pos];
    let Some(proof) = b64d(&client_final[pos + 3..]) else {
        return (false, without.to_string());
    };
    let auth = auth_message(cfb, server_first, without);
    let (ck, _) = keys(v, salted);
    let stored = v.h(&ck);
    let sig = v.hmac(&stored, &auth);
    if proof.len() != sig.len() {
        return (false, without.to_string());
    }
    let ck2 = xor(&proof, &sig);
    (v.h(&ck2) == stored, without.to_string())
}

/// RFC 5802 §5 and RFC 7677 §3 example exchanges; Err(text) if this module disagrees with them
pub fn self_test() -> Result<(), String> {
    if b64e(b"n,,") != "biws" || b64d("biws").as_deref() != Some(b"n,,".as_slice()) {
        return Err("base64 self-test".into());
    }
    for s in ["", "a", "ab", "abc", "abcd", "\u{0}\u{ff}x"] {
        if b64d(&b64e(s.as_bytes())).as_deref() != Some(s.as_bytes()) {
            return Err(format!("base64 round trip of {s:?}"));
        }
    }
    let cases = [
        (
            Ver::S1,
            "n=user,r=fyko+d2lbbFgONRv9qkxdawL",
            "r=fyko+d2lbbFgONRv9qkxdawL3rfcNHYJY1ZVvWVs7j,s=QSXCR+Q6sek8bf92,i=4096",
            "c=biws,r=fyko+d2lbbFgONRv9qkxdawL3rfcNHYJY1ZVvWVs7j",
            "v0X8v3Bz2T0CJGbJQyF0X+HI4Ts=",
            "rmF9pqV8S7suAoZWja4dJRkFsKQ=",
        ),
        (
            Ver::S256,
            "n=user,r=rOprNGfwEbeRWgbNEkqO",
            "r=rOprNGfwEbeRWgbNEkqO%hvYDpWUa2RaTCAfuxFIlj)hNlF$k0,s=W22ZaJ0SNY7soEsUEjb6gQ==,i=4096",
            "c=biws,r=rOprNGfwEbeRWgbNEkqO%hvYDpWUa2RaTCAfuxFIlj)hNlF$k0",
            "dHzbZapWIk4jUhN+Ute9ytag9zjfMHgsqmmiz7AndVQ=",
            "6rriTRBi23WpRR/wtup+mMhUZUn/dB5nLTJRsjl95G4=",
        ),
    ];
    for (v, cfb, sf, without, proof, sig) in cases {
        let p = parse_server_first(sf).ok_or("parse server-first")?;
        let salted = v.hi(b"pencil", &p.salt, p.iters);
        let auth = auth_message(cfb, sf, without);
        if b64e(&client_proof(v, &salted, &auth)) != proof {
            return Err(format!("{}: client proof differs from the RFC example", v.mech()));
        }
        if b64e(&server_signature(v, &salted, &auth)) != sig {
            return Err(format!("{}: server signature differs from the RFC example", v.mech()));
        }
        if !verify_client_final(v, &salted, cfb, sf, &format!("{without},p={proof}")).0 {
            return Err(format!("{}: verification of the RFC example proof fails", v.mech()));
        }
    }
    // SHA-512: no RFC vector; check HMAC against RFC 4231 test case 2
    let m = Ver::S512.hmac(b"Jefe", b"what do ya want for nothing?");
    let hex: String = m.iter().map(|b| format!("{b:02x}")).collect();
    if hex != "164b7a7bfcf819e2e395fbe73b56e0a387bd64222e831fd610270cd7ea2505549758bf75c05a994a6d034f65f8f0e6fdcaeab1a34d4a6b4b636e070a38bce737" {
        return Err("HMAC-SHA-512 differs from RFC 4231 case 2".into());
    }
    Ok(())
}

// ------------------------------------------------------------------------------------------------
// independent wire reader

#[derive(Debug, Clone, PartialEq, Eq)]
pub enum Field {
    Null,
    UByte(u8),
    Binary(Vec<u8>),
    Symbol(String),
    Symbols(Vec<String>),
    Other(u8),
}

#[derive(Debug, Clone, PartialEq, Eq)]
pub enum Item {
    Header([u8; 8]),
    /// SASL frame (type 1): descriptor code and list fields
    Sasl { code: u64, fields: Vec<Field> },
    /// AMQP frame (type 0): descriptor code of the performative (None for an empty frame)
    Amqp { code: Option<u64>, channel: u16 },
    Junk(String),
}

impl Item {
    pub fn short(&self) -> String {
        match self {
            Item::Header(h) => format!("header({})", h[4]),
            Item::Sasl { code, fields } => match code {
                0x40 => format!("mechanisms({:?})", fields.first()),
                0x41 => "init".into(),
                0x42 => "challenge".into(),
                0x43 => "response".into(),
                0x44 => format!("outcome({:?},{})", fields.first(), if matches!(fields.get(1), Some(Field::Binary(_))) { "data" } else { "-" }),
                c => format!("sasl?{c:#x}"),
            },
            Item::Amqp { code, .. } => match code {
                Some(0x10) => "open".into(),
                Some(0x18) => "close".into(),
                Some(c) => format!("amqp({c:#x})"),
                None => "empty".into(),
            },
            Item::Junk(s) => format!("junk({s})"),
        }
    }
}

fn rd_len(b: &[u8], pos: &mut usize, wide: bool) -> Option<usize> {
    if wide {
        let v = u32::from_be_bytes(b.get(*pos..*pos + 4)?.try_into().ok()?) as usize;
        *pos += 4;
        Some(v)
    } else {
        let v = *b.get(*pos)? as usize;
        *pos += 1;
        Some(v)
    }
}

fn rd_field(b: &[u8], pos: &mut usize) -> Option<Field> {
    let c = *b.get(*pos)?;
    *pos += 1;
    Some(match c {
        0x40 => Field::Null,
        0x50 => {
            let v = *b.get(*pos)?;
            *pos += 1;
            Field::UByte(v)
        }
        0xa0 | 0xb0 | 0xa3 | 0xb3 | 0xa1 | 0xb1 => {
            let n = rd_len(b, pos, c & 0xf0 == 0xb0)?;
            let d = b.get(*pos..*pos + n)?.to_vec();
            *pos += n;
            match c & 0x0f {
                0 => Field::Binary(d),
                3 => Field::Symbol(String::from_utf8_lossy(&d).into_owned()),
                _ => Field::Other(c),
            }
        }
        0xe0 | 0xf0 => {
            let wide = c == 0xf0;
            let size = rd_len(b, pos, wide)?;
            let end = *pos + size;
            let count = rd_len(b, pos, wide)?;
            let ctor = *b.get(*pos)?;
            *pos += 1;
            let mut v = vec![];
            if ctor == 0xa3 || ctor == 0xb3 {
                for _ in 0..count {
                    let n = rd_len(b, pos, ctor == 0xb3)?;
                    v.push(String::from_utf8_lossy(b.get(*pos..*pos + n)?).into_owned());
                    *pos += n;
                }
            }
            *pos = end;
            Field::Symbols(v)
        }
        other => {
            // fixed width by category; enough to step over what SASL frames contain
            let w = match other >> 4 {
                0x4 => 0,
                0x5 => 1,
                0x6 => 2,
                0x7 => 4,
                0x8 => 8,
                0x9 => 16,
                _ => return None,
            };
            *pos += w;
            Field::Other(other)
        }
    })
}

fn rd_descriptor(body: &[u8]) -> Option<(u64, usize)> {
    if *body.first()? != 0 {
        return None;
    }
    match *body.get(1)? {
        0x53 => Some((*body.get(2)? as u64, 3)),
        0x80 => Some((u64::from_be_bytes(body.get(2..10)?.try_into().ok()?), 10)),
        0x44 => Some((0, 2)),
        _ => None,
    }
}

fn rd_described_list(body: &[u8]) -> Option<(u64, Vec<Field>)> {
    let (code, mut pos) = rd_descriptor(body)?;
    let lc = *body.get(pos)?;
    pos += 1;
    let mut fields = vec![];
    match lc {
        0x45 => {}
        0xc0 | 0xd0 => {
            let wide = lc == 0xd0;
            let _size = rd_len(body, &mut pos, wide)?;
            let count = rd_len(body, &mut pos, wide)?;
            for _ in 0..count {
                fields.push(rd_field(body, &mut pos)?);
            }
        }
        _ => return None,
    }
    Some((code, fields))
}

/// split a byte stream written by one side into protocol headers and frames
pub fn read_stream(bytes: &[u8]) -> Vec<Item> {
    let mut out = vec![];
    let mut p = 0;
    while p < bytes.len() {
        let rest = &bytes[p..];
        if rest.len() >= 8 && &rest[..4] == b"AMQP" {
            out.push(Item::Header(rest[..8].try_into().unwrap()));
            p += 8;
            continue;
        }
        if rest.len() < 8 {
            out.push(Item::Junk(format!("{} trailing bytes", rest.len())));
            break;
        }
        let size = u32::from_be_bytes(rest[..4].try_into().unwrap()) as usize;
        let doff = rest[4] as usize * 4;
        if size < 8 || size > rest.len() || doff < 8 || doff > size {
            out.push(Item::Junk(format!("bad frame header size={size} doff={doff}")));
            break;
        }
        let ftype = rest[5];
        let channel = u16::from_be_bytes([rest[6], rest[7]]);
        let body = &rest[doff..size];
        p += size;
        if body.is_empty() {
            out.push(Item::Amqp { code: None, channel });
            continue;
        }
        match ftype {
            1 => match rd_described_list(body) {
                Some((code, fields)) => out.push(Item::Sasl { code, fields }),
                None => out.push(Item::Junk("undecodable sasl frame".into())),
            },
            0 => match rd_descriptor(body) {
                Some((code, _)) => out.push(Item::Amqp { code: Some(code), channel }),
                None => out.push(Item::Junk("undecodable amqp frame".into())),
            },
            t => out.push(Item::Junk(format!("frame type {t}"))),
        }
    }
    out
}
