mod c03;
mod c05;
mod c20;
mod smoke;
mod typed;

fn main() {
    let args: Vec<String> = std::env::args().skip(1).collect();
    let Some(id) = args.first().cloned() else {
        eprintln!("usage: vcheck <property-id|smoke> [--tier quick|thorough] [--replay file]");
        std::process::exit(2);
    };
    let ctx = vlib::report::parse_args(&id, &args[1..]);
    vlib::runner::install_panic_hook();
    let out = match id.as_str() {
        "smoke" => std::process::exit(smoke::run(&ctx)),
        "C03" => c03::run(&ctx),
        "C05" => c05::run(&ctx),
        "C20" => c20::run(&ctx),
        _ => {
            eprintln!("MACHINERY: unknown check {id}");
            std::process::exit(2);
        }
    };
    std::process::exit(vlib::report::finish(&ctx, out));
}
