mod smoke;

fn main() {
    let args: Vec<String> = std::env::args().skip(1).collect();
    let Some(id) = args.first().cloned() else {
        eprintln!("usage: vcheck <property-id|smoke> [--tier quick|thorough] [--replay file]");
        std::process::exit(2);
    };
    let ctx = vlib::report::parse_args(&id, &args[1..]);
    let code = match id.as_str() {
        "smoke" => smoke::run(&ctx),
        _ => {
            eprintln!("MACHINERY: unknown check {id}");
            2
        }
    };
    std::process::exit(code);
}
