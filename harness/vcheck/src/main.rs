mod alloc_track;
mod c01;
mod c02;
mod c07;
mod c07_lsn;
mod c08;
mod c09;
mod c10;
mod c11;
mod c13;
mod c14;
mod c15;
mod c16;
mod c17;
mod c18;
mod c19;
mod c03;
mod c04;
mod c05;
mod c06;
mod c12;
mod c20;
mod scen;
mod smoke;
mod typed;

#[global_allocator]
static GLOBAL: alloc_track::Tracking = alloc_track::Tracking;

fn main() {
    let args: Vec<String> = std::env::args().skip(1).collect();
    let Some(id) = args.first().cloned() else {
        eprintln!("usage: vcheck <property-id|smoke> [--tier quick|thorough] [--replay file]");
        std::process::exit(2);
    };
    if id == "C04-worker" {
        std::process::exit(c04::worker_main(&args[1..]));
    }
    if id == "C06-one" {
        std::process::exit(c06::one_main(&args[1..]));
    }
    if id == "C04-one" {
        std::process::exit(c04::one_main(&args[1..]));
    }
    let ctx = vlib::report::parse_args(&id, &args[1..]);
    vlib::runner::install_panic_hook();
    let out = match id.as_str() {
        "smoke" => std::process::exit(smoke::run(&ctx)),
        "C01" => c01::run(&ctx),
        "C02" => c02::run(&ctx),
        "C07" => c07::run(&ctx),
        "C08" => c08::run(&ctx),
        "C09" => c09::run(&ctx),
        "C10" => c10::run(&ctx),
        "C11" => c11::run(&ctx),
        "C13" => c13::run(&ctx),
        "C14" => c14::run(&ctx),
        "C15" => c15::run(&ctx),
        "C16" => c16::run(&ctx),
        "C17" => c17::run(&ctx),
        "C18" => c18::run(&ctx),
        "C19" => c19::run(&ctx),
        "C03" => c03::run(&ctx),
        "C04" => c04::run(&ctx),
        "C05" => c05::run(&ctx),
        "C06" => c06::run(&ctx),
        "C12" => c12::run(&ctx),
        "C20" => c20::run(&ctx),
        _ => {
            eprintln!("MACHINERY: unknown check {id}");
            std::process::exit(2);
        }
    };
    std::process::exit(vlib::report::finish(&ctx, out));
}
