//! C15, the open stage: what the peer sends right behind the protocol header.
//!
//! The state grid of `c15_scen` starts at an open connection.  Here the bad input is the peer's `open` itself
//! (every boundary value of idle-time-out, max-frame-size and channel-max), and - on a connection whose peer
//! announced a LARGER max-frame-size than the library's own - frame headers that claim sizes beyond the
//! library's limit.  Both roles.  Oracle: the call that opens / accepts the connection returns (Ok or Err)
//! within 2 s of virtual time, no library task panics or spins, nothing is allocated out of proportion to the
//! handful of bytes received, and after a successful open the connection still closes.
use fe2o3_amqp::acceptor::ConnectionAcceptor;
use fe2o3_amqp::Connection;
use fe2o3_amqp_types::performatives::{Close, Open, Performative};
use serde_json::json;
use std::sync::Arc;
use std::time::Duration;
use vlib::peer::{drive, frame_bytes, settle, Auto, Dirn, Peer, AMQP_HEADER};
use vlib::report::Outcome;
use vlib::runner::{run_exec, RunCfg, Scenario};
use vlib::vpipe::Pipe;

pub const LIB_MFS: u32 = 4096;
const H: Duration = Duration::from_secs(2);

#[derive(Debug, Clone, Copy, PartialEq, Eq, Hash)]
pub struct OpenCase {
    pub listener: bool,
    pub idle: Option<u32>,
    pub mfs: u32,
    pub channel_max: u16,
    /// after the open: a frame header claiming this many bytes, followed by 16 bytes only
    pub claim: Option<u32>,
}

#[derive(Debug, Clone, Default)]
pub struct OpenObs {
    pub opened: String,
    pub closed: String,
    pub max_alloc: usize,
    pub trace: Vec<String>,
    pub lib_close_or_eof: bool,
}

pub fn cases() -> Vec<OpenCase> {
    let mut v = vec![];
    for listener in [false, true] {
        for idle in [None, Some(0u32), Some(1), Some(2), Some(1000), Some(u32::MAX)] {
            for mfs in [0u32, 1, 8, 511, 512, 4096, u32::MAX] {
                for channel_max in [0u16, 1, 65535] {
                    v.push(OpenCase { listener, idle, mfs, channel_max, claim: None });
                }
            }
        }
        // the peer announces more than the library: its frames are still bound by the LIBRARY's size
        for mfs in [LIB_MFS + 1, 1 << 24, u32::MAX] {
            for claim in [LIB_MFS + 1, 65537, 1 << 24, 1 << 31, u32::MAX] {
                v.push(OpenCase { listener, idle: None, mfs, channel_max: 65535, claim: Some(claim) });
            }
        }
    }
    v
}

fn peer_open(c: &OpenCase) -> Open {
    Open {
        container_id: "scripted-peer".into(),
        hostname: None,
        max_frame_size: c.mfs.into(),
        channel_max: c.channel_max.into(),
        idle_time_out: c.idle,
        outgoing_locales: None,
        incoming_locales: None,
        offered_capabilities: None,
        desired_capabilities: None,
        properties: None,
    }
}

pub async fn scenario(c: OpenCase) -> OpenObs {
    let mut obs = OpenObs::default();
    let (pipe, a, _b) = Pipe::new();
    let mut auto = Auto::none();
    auto.close = true;
    auto.end = true;
    auto.begin = true;
    auto.max_frame_size = c.mfs;
    let mut peer = Peer::new(pipe.clone(), 1, auto);
    crate::alloc_track::start();
    if c.listener {
        // the scripted peer is the client: header and open first
        peer.send_proto_header(AMQP_HEADER);
        peer.send(0, Performative::Open(peer_open(&c)));
        let acceptor = ConnectionAcceptor::builder().container_id("lib").max_frame_size(LIB_MFS).build();
        let r = drive(&mut peer, acceptor.accept(a), H).await;
        match r {
            None => obs.opened = "HANG".into(),
            Some(Err(e)) => obs.opened = format!("err:{e}"),
            Some(Ok(mut conn)) => {
                obs.opened = "ok".into();
                after_open(&mut peer, &c, &mut obs).await;
                obs.closed = match drive(&mut peer, conn.close(), H).await {
                    None => "HANG".into(),
                    Some(Ok(())) => "ok".into(),
                    Some(Err(e)) => format!("err:{e}"),
                };
            }
        }
    } else {
        // the library is the client: the peer answers its header, then sends the open variant
        peer.auto.header = true;
        let fut = Connection::builder().container_id("lib").max_frame_size(LIB_MFS).open_with_stream(a);
        tokio::pin!(fut);
        let start = tokio::time::Instant::now();
        let mut sent = false;
        let r = loop {
            tokio::select! { biased;
                r = &mut fut => break Some(r),
                _ = tokio::time::sleep(Duration::from_millis(1)) => {
                    peer.pump();
                    if !sent && peer.trace.iter().any(|w| w.dir == Dirn::FromLib && matches!(w.perf(), Some(Performative::Open(_)))) {
                        peer.send(0, Performative::Open(peer_open(&c)));
                        sent = true;
                    }
                    if start.elapsed() > H { break None; }
                }
            }
        };
        match r {
            None => obs.opened = "HANG".into(),
            Some(Err(e)) => obs.opened = format!("err:{e}"),
            Some(Ok(mut conn)) => {
                obs.opened = "ok".into();
                after_open(&mut peer, &c, &mut obs).await;
                obs.closed = match drive(&mut peer, conn.close(), H).await {
                    None => "HANG".into(),
                    Some(Ok(())) => "ok".into(),
                    Some(Err(e)) => format!("err:{e}"),
                };
            }
        }
    }
    settle(&mut peer, 2).await;
    obs.max_alloc = crate::alloc_track::stop().0;
    obs.lib_close_or_eof = pipe.peer_closed(1) || peer.trace.iter().any(|w| w.dir == Dirn::FromLib && matches!(w.perf(), Some(Performative::Close(_))));
    obs.trace = vlib::peer::trace_to_strings(&peer.trace);
    obs
}

async fn after_open(peer: &mut Peer, c: &OpenCase, obs: &mut OpenObs) {
    settle(peer, 1).await;
    if let Some(n) = c.claim {
        // a frame header that claims n bytes, then 16 bytes of body and nothing more
        let mut b = frame_bytes(0, 0, &[0u8; 16]);
        b[..4].copy_from_slice(&n.to_be_bytes());
        peer.send_raw(&b);
        obs.trace.push(format!("peer-> RAW frame header claiming {n} bytes + 16 bytes"));
        settle(peer, 3).await;
        // a conforming peer answers the close it may get
        let _ = Close { error: None };
    }
}

fn judge(c: &OpenCase, o: &OpenObs, panics: &[String], spun: bool) -> Vec<(String, String)> {
    let mut f = vec![];
    let role = if c.listener { "listener" } else { "client" };
    let what = format!(
        "{role}: peer's open has idle-time-out {:?}, max-frame-size {}, channel-max {}{}",
        c.idle,
        c.mfs,
        c.channel_max,
        c.claim.map(|n| format!("; then a frame header claiming {n} bytes")).unwrap_or_default()
    );
    let family = if c.claim.is_some() { "oversized-claim-after-large-peer-mfs" } else { "open-variant" };
    for p in panics.iter().filter(|p| !p.contains("vcheck/src")) {
        let class: String = p.split(|ch: char| ch == ':' || ch == '(').next().unwrap_or("").chars().take(60).collect();
        f.push((format!("panic:{class} [{family}] {role}"), format!("{what}: a library task panicked: {p}")));
    }
    if spun {
        f.push((format!("busy-spin [{family}] {role}"), format!("{what}: more than 20000 task polls at one virtual instant")));
    }
    if o.opened == "HANG" {
        f.push((format!("hang [{family}] {role}: open"), format!("{what}: opening / accepting the connection did not return within {:?} of virtual time although the peer had sent its header and open; trace {:?}", H, o.trace)));
    }
    if o.closed == "HANG" {
        f.push((format!("hang [{family}] {role}: close"), format!("{what}: close() did not return within {:?} although the peer answers a close; trace {:?}", H, o.trace)));
    }
    // a few dozen bytes were received: nothing justifies a large allocation
    if o.max_alloc > (1 << 20) {
        f.push((
            format!("disproportionate-allocation [{family}] {role}"),
            format!("{what}: a single allocation of {} bytes was requested while a few dozen bytes had been received", o.max_alloc),
        ));
    }
    if let Some(n) = c.claim {
        // a frame larger than the library's own max-frame-size is not accepted: the connection goes down
        if n > LIB_MFS && !o.lib_close_or_eof && o.opened == "ok" && !o.closed.starts_with("err") {
            f.push((
                format!("oversized-frame-accepted [{family}] {role}"),
                format!("{what}: the library announced max-frame-size {LIB_MFS} but neither closed the connection nor reported an error; close() -> {}; trace {:?}", o.closed, o.trace),
            ));
        }
    }
    f
}

pub fn run(out: &mut Outcome) -> (u64, u64) {
    let cs = cases();
    let mut distinct = std::collections::HashSet::new();
    for c in &cs {
        let c = *c;
        let scen: Scenario<OpenObs> = Arc::new(move || Box::pin(scenario(c)));
        let ex = run_exec(vec![], &RunCfg::none(), &scen);
        let rep = json!({"case": {"kind": "open-stage", "listener": c.listener, "idle": c.idle, "mfs": c.mfs, "channel_max": c.channel_max, "claim": c.claim}});
        match &ex.out {
            Some(o) => {
                distinct.insert((c.listener, o.opened.split(':').next().unwrap_or("").to_string(), o.closed.split(':').next().unwrap_or("").to_string()));
                for (s, d) in judge(&c, o, &ex.panics, ex.spun) {
                    out.violation(s, d, rep.clone());
                }
            }
            None => {
                // the scenario's own future runs the library's open/accept call: a panic inside it ends the scenario
                let lib: Vec<&String> = ex.panics.iter().filter(|p| !p.contains("vcheck/src")).collect();
                if !lib.is_empty() {
                    for (s, d) in judge(&c, &OpenObs::default(), &ex.panics, ex.spun) {
                        out.violation(s, d, rep.clone());
                    }
                } else if ex.watchdog {
                    out.violation(format!("disproportionate-work [open-variant] {}", if c.listener { "listener" } else { "client" }), format!("{:?}: did not finish in real time", c), rep.clone());
                } else {
                    out.machinery_errors.push(format!("open-stage scenario died: {:?} {:?}", c, ex.panics));
                }
            }
        }
    }
    (cs.len() as u64, distinct.len() as u64)
}
