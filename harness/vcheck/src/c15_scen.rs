//! C15 scenario: one execution = (role, endpoint state, bad input).
//!
//! A real endpoint (client: Connection/Session/Sender/Receiver; listener: ConnectionAcceptor/SessionAcceptor/
//! LinkAcceptor, all driven by hand from the scenario's main future) is brought to a state by a
//! protocol-conforming history prefix against the scripted peer; then the peer misbehaves once (the bad
//! input); from then on the peer behaves CONFORMINGLY again (it answers every close / end / detach the
//! library sends, grants credit, settles transfers, completes a delivery it had started), and the
//! application probes every handle it owns.  A second, independent, well-behaved connection (real client
//! against a real listener) lives in the same runtime.
//!
//! Numbering is fixed so that bad frames are state- and role-independent byte strings:
//!   peer session channel PCH = 1 (library channel 0),
//!   peer handle 0 = the link on which the LIBRARY is the sender ("snd"),
//!   peer handle 1 = the link on which the LIBRARY is the receiver ("rcv").
use fe2o3_amqp::acceptor::{ConnectionAcceptor, LinkAcceptor, LinkEndpoint, ListenerConnectionHandle, ListenerSessionHandle, SessionAcceptor};
use fe2o3_amqp::connection::ConnectionHandle;
use fe2o3_amqp::link::receiver::CreditMode;
use fe2o3_amqp::session::SessionHandle;
use fe2o3_amqp::{Connection, Receiver, Sender, Session};
use fe2o3_amqp_types::definitions::{Handle, ReceiverSettleMode, Role as LinkRole, SenderSettleMode};
use fe2o3_amqp_types::messaging::{Accepted, DeliveryState, Source, Target};
use fe2o3_amqp_types::performatives::*;
use serde_amqp::Value;
use std::collections::BTreeMap;
use std::future::Future;
use std::sync::{Arc, Mutex};
use std::time::Duration;
use tokio::task::JoinHandle;
use vlib::peer::{frame_bytes, Auto, Body, Dirn, Peer, PeerLink, Sasl, WFrame, AMQP_HEADER, SASL_HEADER};
use vlib::vpipe::Pipe;

#[path = "c15_resume.rs"]
pub mod resume;

pub const PCH: u16 = 1;
pub const H_SND: u32 = 0;
pub const H_RCV: u32 = 1;
/// the library's own max-frame-size (what it accepts)
pub const LIB_MFS: u32 = 65536;
/// the peer's max-frame-size (what the library may send)
pub const PEER_MFS: u32 = 512;
pub const LIB_WINDOW: u32 = 4;
pub const LIB_HANDLE_MAX: u32 = 7;
pub const LIB_CHANNEL_MAX: u16 = 7;
pub const CREDIT: u32 = 2;
/// max-message-size the peer announces on the library's sending link in state MidOut
pub const MIDOUT_MMS: u64 = 400;
/// virtual-time horizon after which a pending API call counts as hung
pub const HORIZON: Duration = Duration::from_secs(2);
const SETUP_H: Duration = Duration::from_secs(5);

#[derive(Debug, Clone, Copy, PartialEq, Eq, Hash, PartialOrd, Ord)]
pub enum Role {
    Client,
    Listener,
}
impl Role {
    pub fn tag(self) -> &'static str {
        match self {
            Role::Client => "client",
            Role::Listener => "listener",
        }
    }
    pub fn from_tag(s: &str) -> Option<Role> {
        [Role::Client, Role::Listener].into_iter().find(|r| r.tag() == s)
    }
}

#[derive(Debug, Clone, Copy, PartialEq, Eq, Hash, PartialOrd, Ord)]
pub enum St {
    /// connection open, no session ("before begin")
    Opened,
    /// client: begin sent, the peer withholds its begin; listener: the peer's begin not yet accepted
    BeginPending,
    /// session mapped, no links
    Begun,
    /// client: attach sent, the peer withholds its attach; listener: the peer's attach not yet accepted
    AttachPending,
    /// both links attached, no credit in either direction
    Attached,
    /// credit CREDIT in both directions
    Credit,
    /// Credit + one delivery of the library's sender awaiting its disposition (send() pending) + one
    /// delivery received by the application and not yet settled
    Unsettled,
    /// Credit + the peer has sent the first frame (more=true) of a delivery; recv() pending
    MidIn,
    /// Credit + the library is in the middle of a 3-frame delivery (the peer's session window closed
    /// after the first frame); send() pending
    MidOut,
    /// Credit + Sender::close() called, the peer withholds its detach
    Detaching,
    /// Credit + the peer has detached the sender link, the application has not reacted yet
    PeerDetached,
    /// Credit + session.end() called, the peer withholds its end
    Ending,
    /// Credit + connection.close() called, the peer withholds its close
    Closing,
}
pub const ALL_STATES: [St; 13] = [
    St::Opened,
    St::BeginPending,
    St::Begun,
    St::AttachPending,
    St::Attached,
    St::Credit,
    St::Unsettled,
    St::MidIn,
    St::MidOut,
    St::Detaching,
    St::PeerDetached,
    St::Ending,
    St::Closing,
];
impl St {
    pub fn tag(self) -> &'static str {
        match self {
            St::Opened => "opened",
            St::BeginPending => "begin-pending",
            St::Begun => "begun",
            St::AttachPending => "attach-pending",
            St::Attached => "attached",
            St::Credit => "credit",
            St::Unsettled => "unsettled",
            St::MidIn => "mid-delivery-in",
            St::MidOut => "mid-delivery-out",
            St::Detaching => "detaching",
            St::PeerDetached => "peer-detached",
            St::Ending => "ending",
            St::Closing => "closing",
        }
    }
    pub fn from_tag(s: &str) -> Option<St> {
        ALL_STATES.into_iter().find(|x| x.tag() == s)
    }
    fn has_session(self) -> bool {
        !matches!(self, St::Opened | St::BeginPending)
    }
    fn has_links(self) -> bool {
        self.has_session() && !matches!(self, St::Begun | St::AttachPending)
    }
    fn has_credit(self) -> bool {
        self.has_links() && self != St::Attached
    }
}

#[derive(Debug, Clone)]
pub enum Bad {
    /// index into `catalogue()`
    Item(usize),
    /// bytes pushed verbatim
    Raw { family: String, label: String, bytes: Arc<Vec<u8>> },
    /// the family "resumption with a lying unsettled map" (c15_resume.rs; a scenario of its own)
    Resume(resume::RSpec),
}

#[derive(Debug, Clone)]
pub struct Case {
    pub role: Role,
    pub state: St,
    pub bad: Bad,
}
impl Case {
    pub fn family(&self) -> String {
        match &self.bad {
            Bad::Item(i) => catalogue()[*i].name.to_string(),
            Bad::Raw { family, .. } => family.clone(),
            Bad::Resume(sp) => sp.family(),
        }
    }
    pub fn describe(&self) -> String {
        match &self.bad {
            Bad::Item(i) => format!("role={} state={} item={} ({})", self.role.tag(), self.state.tag(), catalogue()[*i].name, catalogue()[*i].what),
            Bad::Raw { family, label, bytes } => format!("role={} state={} frame[{}] {} ({} bytes)", self.role.tag(), self.state.tag(), family, label, bytes.len()),
            Bad::Resume(sp) => format!("role={} {}: {}", self.role.tag(), sp.family(), sp.label()),
        }
    }
}

// ------------------------------------------------------------------------------------------ catalogue

pub struct Item {
    pub name: &'static str,
    pub what: &'static str,
}

#[derive(Debug, Clone)]
pub enum Step {
    F(u16, Performative, Vec<u8>),
    Raw(String, Vec<u8>),
}

#[derive(Debug, Clone, Default)]
pub struct Env {
    /// the peer's next unused delivery-id
    pub next_did: u32,
    /// delivery-id of the library's outstanding delivery (0 if none)
    pub lib_did: u32,
    /// session flow fields as the conforming peer would send them now
    pub flow: Option<Flow>,
    /// the library's next-outgoing-id as the peer knows it
    pub lib_noi: u32,
}

pub fn msg(body: &str) -> Vec<u8> {
    let mut v = vec![0x00, 0x53, 0x77];
    let b = body.as_bytes();
    if b.len() < 256 {
        v.push(0xa1);
        v.push(b.len() as u8);
    } else {
        v.push(0xb1);
        v.extend_from_slice(&(b.len() as u32).to_be_bytes());
    }
    v.extend_from_slice(b);
    v
}

pub fn xfer(handle: u32, did: Option<u32>, tag: Option<String>, more: bool) -> Transfer {
    Transfer {
        handle: Handle(handle),
        delivery_id: did,
        delivery_tag: tag.map(|t| serde_bytes::ByteBuf::from(t.into_bytes())),
        message_format: Some(0),
        settled: Some(false),
        more,
        rcv_settle_mode: None,
        state: None,
        resume: false,
        aborted: false,
        batchable: false,
    }
}

fn base_flow(env: &Env) -> Flow {
    env.flow.clone().unwrap_or(Flow {
        next_incoming_id: Some(0),
        incoming_window: 1000,
        next_outgoing_id: 0,
        outgoing_window: 1000,
        handle: None,
        delivery_count: None,
        link_credit: None,
        available: None,
        drain: false,
        echo: false,
        properties: None,
    })
}

fn disp(role: LinkRole, first: u32, last: Option<u32>, settled: bool) -> Performative {
    Performative::Disposition(Disposition {
        role,
        first,
        last,
        settled,
        state: Some(DeliveryState::Accepted(Accepted {})),
        batchable: false,
    })
}

fn peer_begin(remote: Option<u16>) -> Begin {
    Begin {
        remote_channel: remote,
        next_outgoing_id: 0,
        incoming_window: 1000,
        outgoing_window: 1000,
        handle_max: Handle(100),
        offered_capabilities: None,
        desired_capabilities: None,
        properties: None,
    }
}

fn peer_open() -> Open {
    Open {
        container_id: "scripted-peer".into(),
        hostname: None,
        max_frame_size: PEER_MFS.into(),
        channel_max: 100.into(),
        idle_time_out: None,
        outgoing_locales: None,
        incoming_locales: None,
        offered_capabilities: None,
        desired_capabilities: None,
        properties: None,
    }
}

/// attach as the PEER would send it for link `name`; `lib_is_sender`: the library's end is the sender
fn peer_attach(name: &str, handle: u32, lib_is_sender: bool) -> Attach {
    Attach {
        name: name.to_string(),
        handle: Handle(handle),
        role: if lib_is_sender { LinkRole::Receiver } else { LinkRole::Sender },
        snd_settle_mode: SenderSettleMode::Mixed,
        rcv_settle_mode: ReceiverSettleMode::First,
        source: Some(Box::new(Source::builder().address("q").build())),
        target: Some(Box::new(Target::builder().address("q").build().into())),
        unsettled: None,
        incomplete_unsettled: false,
        initial_delivery_count: if lib_is_sender { None } else { Some(0) },
        max_message_size: None,
        offered_capabilities: None,
        desired_capabilities: None,
        properties: None,
    }
}

pub fn catalogue() -> &'static Vec<Item> {
    static C: std::sync::OnceLock<Vec<Item>> = std::sync::OnceLock::new();
    C.get_or_init(|| {
        let mut v = vec![];
        let mut add = |name: &'static str, what: &'static str| v.push(Item { name, what });
        // controls (well-formed input: the harness itself is judged with these)
        add("ctl-empty-frame", "CONTROL: a heartbeat (empty frame on channel 0) - must be ignored and everything keeps working");
        // transfers
        add("xfer-beyond-credit", "four single-frame deliveries on the receiving link, more than its link credit");
        add("xfer-beyond-window", "one delivery split into 8 transfer frames, more than the session incoming-window of 4");
        add("xfer-unattached-handle", "transfer for handle 77 which is not attached");
        add("xfer-to-sender-link", "transfer on the link whose receiving end is the peer itself");
        add("xfer-more-then-other-delivery", "transfer with more=true never completed, followed by another delivery on the same link");
        add("xfer-abort-out-of-blue", "transfer with aborted=true and no delivery in progress");
        add("xfer-no-delivery-id", "first transfer of a delivery without delivery-id and delivery-tag");
        add("xfer-delivery-id-regress", "deliveries with delivery-id 4294967295 and then 0 again");
        add("xfer-unmapped-channel", "transfer on channel 9 which has no session");
        add("xfer-huge-handle", "transfer for handle 4294967295");
        add("xfer-continuation-other-id", "continuation frame that names a different delivery-id than the delivery in progress");
        // dispositions
        add("disp-full-range-settled", "disposition role=receiver first=0 last=4294967295 settled=true");
        add("disp-full-range-unsettled", "disposition role=receiver first=0 last=4294967295 settled=false");
        add("disp-full-range-sender", "disposition role=sender first=0 last=4294967295 settled=true");
        add("disp-half-range", "disposition role=receiver first=2147483648 last=4294967295 settled=true");
        add("disp-range-65536", "disposition role=receiver first=0 last=65535 settled=true (a range a frame could legitimately name)");
        add("disp-unknown-ids", "disposition role=receiver for delivery-ids 1000..1003 that were never sent");
        add("disp-first-gt-last", "disposition with first=10 last=2");
        add("disp-wrapping-range", "dispositions (both roles, settled and unsettled) first=4294967295 last=0 and first=4294967294 last=1: short ranges that wrap the delivery-id space");
        add("disp-unmapped-channel", "disposition on channel 9 which has no session");
        // flows
        add("flow-unattached-handle", "flow with link credit for handle 77 which is not attached");
        add("flow-nii-ahead", "flow whose next-incoming-id is 1000 ahead of anything the endpoint sent");
        add("flow-huge-windows", "flow with incoming-window = outgoing-window = 4294967295 and next-outgoing-id 4294967294");
        add("flow-huge-credit", "flow for the sending link with delivery-count 4294967295 and link-credit 4294967295");
        add("flow-dc-jump", "flow for the receiving link with delivery-count 4294967294 and drain=true");
        add("flow-link-fields-no-handle", "flow carrying delivery-count and link-credit but no handle");
        add("flow-handle-no-credit", "flow naming the sending link's handle without link-credit / delivery-count, echo=true");
        add("flow-drain-pipelined", "flow for the sending link with drain=true, delivery-count 0, link-credit 1000 and sane session fields (protocol-legal; in state attach-pending it is pipelined behind the peer's attach)");
        add("flow-unmapped-channel", "flow on channel 9 which has no session");
        // attach
        add("attach-dup-name", "attach with the name of an attached link on another handle");
        add("attach-dup-handle", "attach of a new link name on a handle that is in use");
        add("attach-handle-gt-max", "attach with handle 8, above the endpoint's handle-max of 7");
        add("attach-unknown-name", "attach of a link the endpoint never asked for (client) / nobody accepts (listener)");
        add("attach-unmapped-channel", "attach on channel 9 which has no session");
        add("attach-wrong-role", "attach for an attached link's name with the same role as the endpoint's own end");
        // detach
        add("detach-unattached-handle", "detach for handle 77 which is not attached");
        add("detach-twice", "closing detach for the sending link, sent twice");
        add("detach-unmapped-channel", "detach on channel 9 which has no session");
        // begin / end / open / close
        add("begin-channel-in-use", "begin (no remote-channel) on the channel of the mapped session");
        add("begin-unsolicited-remote-channel", "begin on channel 6 answering channel 5 on which the endpoint never sent a begin");
        add("begin-second-answer", "begin on channel 6 naming remote-channel 0, the endpoint's channel of the session that is already mapped");
        add("begin-channel-gt-max", "begin on channel 300, above the endpoint's channel-max of 7");
        add("end-unmapped-channel", "end on channel 9 which has no session");
        add("end-twice", "end on the session's channel, sent twice");
        add("end-then-frames", "end on the session's channel followed by a flow and a transfer on it");
        add("open-second", "a second open on channel 0");
        add("open-nonzero-channel", "open on channel 3");
        add("close-nonzero-channel", "close on channel 5");
        add("close-then-frames", "close followed by a flow and a second close");
        add("empty-nonzero-channel", "empty frames on the session's channel and on unmapped channel 9");
        // sasl / headers in the AMQP phase
        add("sasl-init-frame", "SASL frame (type 1, sasl-init) in the AMQP phase");
        add("sasl-outcome-frame", "SASL frame (type 1, sasl-outcome) in the AMQP phase");
        add("sasl-header-midstream", "the SASL protocol header in the middle of the frame stream");
        add("amqp-header-midstream", "the AMQP protocol header again in the middle of the frame stream");
        v
    })
}

pub fn item_index(name: &str) -> Option<usize> {
    catalogue().iter().position(|i| i.name == name)
}

fn sasl_frame(body: Vec<u8>) -> Vec<u8> {
    frame_bytes(1, 0, &body)
}

pub fn item_steps(idx: usize, env: &Env) -> Vec<Step> {
    let name = catalogue()[idx].name;
    let d = env.next_did;
    let f = |ch: u16, p: Performative| Step::F(ch, p, vec![]);
    let t = |ch: u16, tr: Transfer, payload: Vec<u8>| Step::F(ch, Performative::Transfer(tr), payload);
    match name {
        "ctl-empty-frame" => vec![Step::Raw("empty frame ch0".into(), frame_bytes(0, 0, &[]))],
        "xfer-beyond-credit" => (0..4).map(|k| t(PCH, xfer(H_RCV, Some(d + k), Some(format!("bc{k}")), false), msg(&format!("beyond-credit-{k}")))).collect(),
        "xfer-beyond-window" => {
            let body = msg(&"w".repeat(160));
            let mut v = vec![];
            for k in 0..8usize {
                let chunk = body[k * 20..if k == 7 { body.len() } else { (k + 1) * 20 }].to_vec();
                let tr = if k == 0 { xfer(H_RCV, Some(d), Some("bw".into()), true) } else { xfer(H_RCV, None, None, k != 7) };
                v.push(t(PCH, tr, chunk));
            }
            v
        }
        "xfer-unattached-handle" => vec![t(PCH, xfer(77, Some(d), Some("u".into()), false), msg("x"))],
        "xfer-to-sender-link" => vec![t(PCH, xfer(H_SND, Some(d), Some("s".into()), false), msg("x"))],
        "xfer-more-then-other-delivery" => {
            let m = msg("first-half-second-half");
            vec![t(PCH, xfer(H_RCV, Some(d), Some("m0".into()), true), m[..8].to_vec()), t(PCH, xfer(H_RCV, Some(d + 1), Some("m1".into()), false), msg("other"))]
        }
        "xfer-abort-out-of-blue" => {
            let mut tr = xfer(H_RCV, None, None, false);
            tr.aborted = true;
            vec![t(PCH, tr, vec![])]
        }
        "xfer-no-delivery-id" => vec![t(PCH, xfer(H_RCV, None, None, false), msg("anon"))],
        "xfer-delivery-id-regress" => vec![
            t(PCH, xfer(H_RCV, Some(u32::MAX), Some("r0".into()), false), msg("r0")),
            t(PCH, xfer(H_RCV, Some(0), Some("r1".into()), false), msg("r1")),
        ],
        "xfer-unmapped-channel" => vec![t(9, xfer(H_RCV, Some(d), Some("c9".into()), false), msg("x"))],
        "xfer-huge-handle" => vec![t(PCH, xfer(u32::MAX, Some(d), Some("hh".into()), false), msg("x"))],
        "xfer-continuation-other-id" => {
            let m = msg("abcdefghijklmnopqrstuvwxyz");
            vec![t(PCH, xfer(H_RCV, Some(d), Some("co".into()), true), m[..10].to_vec()), t(PCH, xfer(H_RCV, Some(d + 7), None, false), m[10..].to_vec())]
        }
        "disp-full-range-settled" => vec![f(PCH, disp(LinkRole::Receiver, 0, Some(u32::MAX), true))],
        "disp-full-range-unsettled" => vec![f(PCH, disp(LinkRole::Receiver, 0, Some(u32::MAX), false))],
        "disp-full-range-sender" => vec![f(PCH, disp(LinkRole::Sender, 0, Some(u32::MAX), true))],
        "disp-half-range" => vec![f(PCH, disp(LinkRole::Receiver, 0x8000_0000, Some(u32::MAX), true))],
        "disp-range-65536" => vec![f(PCH, disp(LinkRole::Receiver, 0, Some(65535), true))],
        "disp-unknown-ids" => vec![f(PCH, disp(LinkRole::Receiver, 1000, Some(1003), true)), f(PCH, disp(LinkRole::Sender, 1000, Some(1003), false))],
        "disp-first-gt-last" => vec![f(PCH, disp(LinkRole::Receiver, 10, Some(2), true)), f(PCH, disp(LinkRole::Receiver, 10, Some(2), false))],
        "disp-wrapping-range" => vec![
            f(PCH, disp(LinkRole::Sender, u32::MAX, Some(0), false)),
            f(PCH, disp(LinkRole::Receiver, u32::MAX, Some(0), false)),
            f(PCH, disp(LinkRole::Sender, u32::MAX - 1, Some(1), true)),
            f(PCH, disp(LinkRole::Receiver, u32::MAX, Some(0), true)),
        ],
        "disp-unmapped-channel" => vec![f(9, disp(LinkRole::Receiver, 0, None, true))],
        "flow-unattached-handle" => {
            let mut fl = base_flow(env);
            fl.handle = Some(Handle(77));
            fl.delivery_count = Some(0);
            fl.link_credit = Some(10);
            vec![f(PCH, Performative::Flow(fl))]
        }
        "flow-nii-ahead" => {
            let mut fl = base_flow(env);
            fl.next_incoming_id = Some(env.lib_noi.wrapping_add(1000));
            vec![f(PCH, Performative::Flow(fl))]
        }
        "flow-huge-windows" => {
            let mut fl = base_flow(env);
            fl.incoming_window = u32::MAX;
            fl.outgoing_window = u32::MAX;
            fl.next_outgoing_id = u32::MAX - 1;
            vec![f(PCH, Performative::Flow(fl))]
        }
        "flow-huge-credit" => {
            let mut fl = base_flow(env);
            fl.handle = Some(Handle(H_SND));
            fl.delivery_count = Some(u32::MAX);
            fl.link_credit = Some(u32::MAX);
            vec![f(PCH, Performative::Flow(fl))]
        }
        "flow-dc-jump" => {
            let mut fl = base_flow(env);
            fl.handle = Some(Handle(H_RCV));
            fl.delivery_count = Some(u32::MAX - 1);
            fl.link_credit = Some(0);
            fl.available = Some(u32::MAX);
            fl.drain = true;
            vec![f(PCH, Performative::Flow(fl))]
        }
        "flow-link-fields-no-handle" => {
            let mut fl = base_flow(env);
            fl.delivery_count = Some(3);
            fl.link_credit = Some(10);
            vec![f(PCH, Performative::Flow(fl))]
        }
        "flow-handle-no-credit" => {
            let mut fl = base_flow(env);
            fl.handle = Some(Handle(H_SND));
            fl.echo = true;
            vec![f(PCH, Performative::Flow(fl))]
        }
        "flow-drain-pipelined" => {
            let mut fl = base_flow(env);
            fl.handle = Some(Handle(H_SND));
            fl.delivery_count = Some(0);
            fl.link_credit = Some(1000);
            fl.drain = true;
            vec![f(PCH, Performative::Flow(fl))]
        }
        "flow-unmapped-channel" => vec![f(9, Performative::Flow(base_flow(env)))],
        "attach-dup-name" => vec![f(PCH, Performative::Attach(peer_attach("snd", 5, true)))],
        "attach-dup-handle" => vec![f(PCH, Performative::Attach(peer_attach("other", H_SND, false)))],
        "attach-handle-gt-max" => vec![f(PCH, Performative::Attach(peer_attach("big", LIB_HANDLE_MAX + 1, false)))],
        "attach-unknown-name" => vec![f(PCH, Performative::Attach(peer_attach("never-asked", 5, false)))],
        "attach-unmapped-channel" => vec![f(9, Performative::Attach(peer_attach("c9", 0, false)))],
        "attach-wrong-role" => vec![f(PCH, Performative::Attach(peer_attach("snd", H_SND, false)))],
        "detach-unattached-handle" => vec![f(PCH, Performative::Detach(Detach { handle: Handle(77), closed: true, error: None }))],
        "detach-twice" => vec![
            f(PCH, Performative::Detach(Detach { handle: Handle(H_SND), closed: true, error: None })),
            f(PCH, Performative::Detach(Detach { handle: Handle(H_SND), closed: true, error: None })),
        ],
        "detach-unmapped-channel" => vec![f(9, Performative::Detach(Detach { handle: Handle(0), closed: true, error: None }))],
        "begin-channel-in-use" => vec![f(PCH, Performative::Begin(peer_begin(None)))],
        "begin-unsolicited-remote-channel" => vec![f(6, Performative::Begin(peer_begin(Some(5))))],
        "begin-second-answer" => vec![f(6, Performative::Begin(peer_begin(Some(0))))],
        "begin-channel-gt-max" => vec![f(300, Performative::Begin(peer_begin(None)))],
        "end-unmapped-channel" => vec![f(9, Performative::End(End { error: None }))],
        "end-twice" => vec![f(PCH, Performative::End(End { error: None })), f(PCH, Performative::End(End { error: None }))],
        "end-then-frames" => vec![
            f(PCH, Performative::End(End { error: None })),
            f(PCH, Performative::Flow(base_flow(env))),
            t(PCH, xfer(H_RCV, Some(d), Some("ae".into()), false), msg("after-end")),
        ],
        "open-second" => vec![f(0, Performative::Open(peer_open()))],
        "open-nonzero-channel" => vec![f(3, Performative::Open(peer_open()))],
        "close-nonzero-channel" => vec![f(5, Performative::Close(Close { error: None }))],
        "close-then-frames" => vec![
            f(0, Performative::Close(Close { error: None })),
            f(PCH, Performative::Flow(base_flow(env))),
            f(0, Performative::Close(Close { error: None })),
        ],
        "empty-nonzero-channel" => vec![Step::Raw("empty frame ch1".into(), frame_bytes(0, PCH, &[])), Step::Raw("empty frame ch9".into(), frame_bytes(0, 9, &[]))],
        "sasl-init-frame" => {
            let init = fe2o3_amqp_types::sasl::SaslInit {
                mechanism: "PLAIN".into(),
                initial_response: Some(serde_bytes::ByteBuf::from(b"\0u\0p".to_vec())),
                hostname: None,
            };
            let body = serde_amqp::to_vec(&fe2o3_amqp::frames::sasl::Frame::Init(init)).expect("encode sasl-init");
            vec![Step::Raw("sasl-init (frame type 1)".into(), sasl_frame(body))]
        }
        "sasl-outcome-frame" => {
            let o = fe2o3_amqp_types::sasl::SaslOutcome { code: fe2o3_amqp_types::sasl::SaslCode::Ok, additional_data: None };
            let body = serde_amqp::to_vec(&fe2o3_amqp::frames::sasl::Frame::Outcome(o)).expect("encode sasl-outcome");
            vec![Step::Raw("sasl-outcome (frame type 1)".into(), sasl_frame(body))]
        }
        "sasl-header-midstream" => vec![Step::Raw("SASL protocol header".into(), SASL_HEADER.to_vec())],
        "amqp-header-midstream" => vec![Step::Raw("AMQP protocol header".into(), AMQP_HEADER.to_vec())],
        other => panic!("c15: unknown catalogue item {other}"),
    }
}

// ------------------------------------------------------------------------------------------ peer's view

#[derive(Debug, Default, Clone)]
struct LinkInc {
    name: String,
    lib_handle: Option<u32>,
    peer_handle: Option<u32>,
    lib_detached: Option<bool>,
    peer_detached: bool,
    /// last (delivery-count, link-credit) the library announced on this link (library = receiver)
    lib_flow: Option<(u32, u32)>,
}

#[derive(Debug, Default, Clone)]
struct SessInc {
    lib_ch: Option<u16>,
    lib_begun: bool,
    peer_begun: bool,
    lib_ended: bool,
    peer_ended: bool,
    links: Vec<LinkInc>,
}

/// The conforming peer's view of the conversation, computed from the wire trace, and the answers it owes:
/// after its one misbehaviour the peer answers every close / end / detach of the library.
#[derive(Debug, Default)]
pub struct View {
    cursor: usize,
    /// by PEER channel
    sess: BTreeMap<u16, SessInc>,
    lib_to_peer: BTreeMap<u16, u16>,
    pub lib_close: bool,
    pub peer_close: bool,
    owed_close: bool,
    owed_end: Vec<u16>,
    /// (peer channel, peer handle, closed)
    owed_detach: Vec<(u16, u32, bool)>,
    /// answer what is owed
    pub answering: bool,
}

impl View {
    fn feed(&mut self, w: &WFrame) {
        let Some(p) = w.perf() else { return };
        match (w.dir, p) {
            (Dirn::FromLib, Performative::Begin(b)) => {
                let pch = match b.remote_channel {
                    Some(p) => p,
                    None => w.channel.wrapping_add(1),
                };
                self.lib_to_peer.insert(w.channel, pch);
                let s = self.sess.entry(pch).or_default();
                if s.lib_ended || s.lib_begun {
                    *s = SessInc::default();
                }
                s.lib_ch = Some(w.channel);
                s.lib_begun = true;
            }
            (Dirn::FromPeer, Performative::Begin(_)) => {
                let s = self.sess.entry(w.channel).or_default();
                if s.peer_ended && s.lib_ended {
                    *s = SessInc::default();
                }
                s.peer_begun = true;
            }
            (Dirn::FromLib, Performative::Attach(a)) => {
                if let Some(pch) = self.lib_to_peer.get(&w.channel).copied() {
                    let s = self.sess.entry(pch).or_default();
                    match s.links.iter_mut().find(|l| l.name == a.name && l.lib_handle.is_none() && l.lib_detached.is_none()) {
                        Some(l) => l.lib_handle = Some(a.handle.0),
                        None => s.links.push(LinkInc { name: a.name.clone(), lib_handle: Some(a.handle.0), ..Default::default() }),
                    }
                }
            }
            (Dirn::FromPeer, Performative::Attach(a)) => {
                let s = self.sess.entry(w.channel).or_default();
                match s.links.iter_mut().find(|l| l.name == a.name && l.peer_handle.is_none() && !l.peer_detached) {
                    Some(l) => l.peer_handle = Some(a.handle.0),
                    None => s.links.push(LinkInc { name: a.name.clone(), peer_handle: Some(a.handle.0), ..Default::default() }),
                }
            }
            (Dirn::FromLib, Performative::Flow(f)) => {
                if let (Some(pch), Some(h), Some(c)) = (self.lib_to_peer.get(&w.channel).copied(), &f.handle, f.link_credit) {
                    if let Some(s) = self.sess.get_mut(&pch) {
                        if let Some(l) = s.links.iter_mut().rev().find(|l| l.lib_handle == Some(h.0) && l.lib_detached.is_none()) {
                            l.lib_flow = Some((f.delivery_count.unwrap_or(0), c));
                        }
                    }
                }
            }
            (Dirn::FromLib, Performative::Detach(d)) => {
                if let Some(pch) = self.lib_to_peer.get(&w.channel).copied() {
                    if let Some(s) = self.sess.get_mut(&pch) {
                        if let Some(l) = s.links.iter_mut().rev().find(|l| l.lib_handle == Some(d.handle.0) && l.lib_detached.is_none()) {
                            l.lib_detached = Some(d.closed);
                            if let Some(ph) = l.peer_handle {
                                if !l.peer_detached {
                                    self.owed_detach.push((pch, ph, d.closed));
                                }
                            }
                        }
                    }
                }
            }
            (Dirn::FromPeer, Performative::Detach(d)) => {
                if let Some(s) = self.sess.get_mut(&w.channel) {
                    if let Some(l) = s.links.iter_mut().rev().find(|l| l.peer_handle == Some(d.handle.0) && !l.peer_detached) {
                        l.peer_detached = true;
                    }
                }
                let (c, h) = (w.channel, d.handle.0);
                self.owed_detach.retain(|o| !(o.0 == c && o.1 == h));
            }
            (Dirn::FromLib, Performative::End(_)) => {
                if let Some(pch) = self.lib_to_peer.get(&w.channel).copied() {
                    let s = self.sess.entry(pch).or_default();
                    s.lib_ended = true;
                    if !s.peer_ended {
                        self.owed_end.push(pch);
                    }
                    self.owed_detach.retain(|o| o.0 != pch);
                }
            }
            (Dirn::FromPeer, Performative::End(_)) => {
                if let Some(s) = self.sess.get_mut(&w.channel) {
                    s.peer_ended = true;
                }
                let c = w.channel;
                self.owed_end.retain(|o| *o != c);
            }
            (Dirn::FromLib, Performative::Close(_)) => {
                self.lib_close = true;
                // a superfluous close is harmless (the library has shut its transport down by then)
                self.owed_close = true;
                self.owed_end.clear();
                self.owed_detach.clear();
            }
            (Dirn::FromPeer, Performative::Close(_)) => {
                self.peer_close = true;
                if w.channel == 0 {
                    self.owed_close = false;
                }
            }
            _ => {}
        }
    }

    pub fn update(&mut self, peer: &mut Peer) {
        while self.cursor < peer.trace.len() {
            let w = peer.trace[self.cursor].clone();
            self.cursor += 1;
            self.feed(&w);
        }
        if !self.answering {
            return;
        }
        let mut sent = false;
        for (pch, h, closed) in std::mem::take(&mut self.owed_detach) {
            peer.send(pch, Performative::Detach(Detach { handle: Handle(h), closed, error: None }));
            sent = true;
        }
        for pch in std::mem::take(&mut self.owed_end) {
            peer.send(pch, Performative::End(End { error: None }));
            sent = true;
        }
        if self.owed_close {
            self.owed_close = false;
            peer.send(0, Performative::Close(Close { error: None }));
            sent = true;
        }
        if sent {
            while self.cursor < peer.trace.len() {
                let w = peer.trace[self.cursor].clone();
                self.cursor += 1;
                self.feed(&w);
            }
        }
    }

    pub fn conn_alive(&self) -> bool {
        !self.lib_close && !self.peer_close
    }
    pub fn sess_alive(&self, pch: u16) -> bool {
        self.conn_alive() && self.sess.get(&pch).is_some_and(|s| s.lib_begun && s.peer_begun && !s.lib_ended && !s.peer_ended)
    }
    /// the link of that name both ends have attached (a bogus second attach of the name must not hide it)
    fn link(&self, pch: u16, name: &str) -> Option<&LinkInc> {
        let s = self.sess.get(&pch)?;
        s.links.iter().rev().find(|l| l.name == name && l.lib_handle.is_some() && l.peer_handle.is_some()).or_else(|| s.links.iter().rev().find(|l| l.name == name))
    }
    pub fn link_alive(&self, pch: u16, name: &str) -> bool {
        self.sess_alive(pch) && self.link(pch, name).is_some_and(|l| l.lib_handle.is_some() && l.peer_handle.is_some() && l.lib_detached.is_none() && !l.peer_detached)
    }
    pub fn lib_flow(&self, pch: u16, name: &str) -> Option<(u32, u32)> {
        self.link(pch, name).and_then(|l| l.lib_flow)
    }
}

// ------------------------------------------------------------------------------------------ observation

#[derive(Debug, Clone, Default)]
pub struct Obs {
    pub machinery: Option<String>,
    pub trace: Vec<String>,
    /// (probe, outcome) with outcome in ok / err:<text> / hang / skipped:<why>
    pub api: Vec<(String, String)>,
    /// what the library put on the wire in reaction to the bad input
    pub reaction: String,
    /// real milliseconds from injecting the bad input to quiescence
    pub bad_ms: f64,
    /// largest single allocation request while the bad input was processed
    pub max_alloc: usize,
    pub bad_bytes: usize,
    pub bystander: Option<String>,
    /// the bad input reached the endpoint while it was in the state (prefix verified)
    pub reached: bool,
    /// the scenario ran to its end
    pub completed: bool,
}

impl Obs {
    fn note(&mut self, s: impl Into<String>) {
        self.trace.push(s.into());
    }
    fn probe<T, E: std::fmt::Debug>(&mut self, name: &str, r: &Option<Result<T, E>>) {
        let o = match r {
            None => "hang".to_string(),
            Some(Ok(_)) => "ok".to_string(),
            Some(Err(e)) => format!("err:{}", short(&format!("{e:?}"))),
        };
        self.trace.push(format!("  probe {name} -> {o}"));
        self.api.push((name.to_string(), o));
    }
    fn probe_str(&mut self, name: &str, o: String) {
        self.trace.push(format!("  probe {name} -> {o}"));
        self.api.push((name.to_string(), o));
    }
}

fn short(s: &str) -> String {
    let s: String = s.chars().take(90).collect();
    s.replace('\n', " ")
}

// ------------------------------------------------------------------------------------------ endpoint

enum Conn {
    C(ConnectionHandle<()>),
    L(ListenerConnectionHandle),
}
enum Sess {
    C(SessionHandle<()>),
    L(ListenerSessionHandle),
}

struct Ctx {
    peer: Peer,
    view: View,
    shown: usize,
    /// answer the library's attach of link "snd" by hand, announcing this max-message-size
    manual_snd_attach: Option<u64>,
    /// the conforming peer settles every complete unsettled delivery it has received
    settle_all: bool,
    /// a call has already hung in this execution: later probes wait a shorter time (the verdict is in; this
    /// only keeps the real time of a failing execution small)
    hung: bool,
}

impl Ctx {
    fn pump(&mut self) {
        self.peer.pump();
        if let Some(mms) = self.manual_snd_attach {
            let asked = self.peer.trace.iter().any(|w| w.dir == Dirn::FromLib && matches!(w.perf(), Some(Performative::Attach(a)) if a.name == "snd"));
            if asked {
                self.manual_snd_attach = None;
                let mut a = peer_attach("snd", H_SND, true);
                a.max_message_size = Some(mms);
                self.peer.send(PCH, Performative::Attach(a));
            }
        }
        if self.settle_all {
            self.settle_outstanding();
        }
        self.view.update(&mut self.peer);
    }
    /// accept every complete, unsettled delivery the library has sent and no disposition of the peer covers
    fn settle_outstanding(&mut self) {
        let mut open: BTreeMap<(u16, u32), u32> = BTreeMap::new(); // (lib channel, handle) -> delivery id in progress
        let mut complete: Vec<(u16, u32)> = vec![];
        let mut covered: Vec<(u16, u32, u32)> = vec![]; // (peer channel, first, last)
        for w in &self.peer.trace {
            match (w.dir, w.perf()) {
                (Dirn::FromLib, Some(Performative::Transfer(t))) => {
                    let key = (w.channel, t.handle.0);
                    let id = match t.delivery_id {
                        Some(d) => {
                            open.insert(key, d);
                            d
                        }
                        None => match open.get(&key) {
                            Some(d) => *d,
                            None => continue,
                        },
                    };
                    if !t.more {
                        open.remove(&key);
                        if !t.aborted && t.settled != Some(true) {
                            complete.push((w.channel, id));
                        }
                    }
                }
                (Dirn::FromPeer, Some(Performative::Disposition(d))) if d.role == LinkRole::Receiver && d.settled => {
                    covered.push((w.channel, d.first, d.last.unwrap_or(d.first)));
                }
                _ => {}
            }
        }
        for (lc, id) in complete {
            let Some(pch) = self.view.lib_to_peer.get(&lc).copied() else { continue };
            if covered.iter().any(|(c, f, l)| *c == pch && *f <= id && id <= *l) {
                continue;
            }
            if !self.view.sess_alive(pch) {
                continue;
            }
            self.peer.send(pch, disp(LinkRole::Receiver, id, None, true));
            covered.push((pch, id, id));
        }
    }
    async fn settle(&mut self, rounds: usize) {
        for _ in 0..rounds {
            tokio::time::sleep(Duration::from_millis(1)).await;
            self.pump();
        }
        tokio::time::sleep(Duration::from_millis(1)).await;
    }
    async fn drive<F: Future>(&mut self, fut: F, horizon: Duration) -> Option<F::Output> {
        tokio::pin!(fut);
        let start = tokio::time::Instant::now();
        let horizon = if self.hung { horizon.min(Duration::from_millis(250)) } else { horizon };
        loop {
            tokio::select! {
                biased;
                r = &mut fut => {
                    // let the engines put on the wire what the call queued, so that the peer's view is current
                    self.pump();
                    tokio::time::sleep(Duration::from_millis(1)).await;
                    self.pump();
                    return Some(r);
                }
                _ = tokio::time::sleep(Duration::from_millis(1)) => {
                    self.pump();
                    if start.elapsed() > horizon {
                        if horizon >= HORIZON {
                            self.hung = true;
                        }
                        return None;
                    }
                }
            }
        }
    }
    fn flush(&mut self, obs: &mut Obs) {
        for w in &self.peer.trace[self.shown..] {
            obs.trace.push(format!("    {}", w.short()));
        }
        self.shown = self.peer.trace.len();
    }
    fn raw(&mut self, label: &str, bytes: &[u8]) {
        let seq = self.peer.trace.len();
        self.peer.trace.push(WFrame {
            seq,
            t: Duration::ZERO,
            dir: Dirn::FromPeer,
            size: bytes.len() as u32,
            doff: bytes.get(4).copied().unwrap_or(0),
            ftype: bytes.get(5).copied().unwrap_or(0),
            channel: 0,
            body: Body::Undecodable(format!("RAW {label}: {}", vlib::util::hex(&bytes[..bytes.len().min(48)]))),
            payload: vec![],
        });
        self.peer.send_raw(bytes);
    }
}

fn jh<T>(r: Option<Result<T, tokio::task::JoinError>>) -> Option<Result<T, String>> {
    r.map(|x| x.map_err(|e| format!("task failed: {e}")))
}

// ------------------------------------------------------------------------------------------ bystander

struct Bystander {
    sender: Sender,
    _conn: ConnectionHandle<()>,
    _sess: SessionHandle<()>,
    log: Arc<Mutex<Vec<String>>>,
    n: usize,
}

async fn bystander_setup() -> Result<Bystander, String> {
    let (_pipe, a, b) = Pipe::new();
    let log = Arc::new(Mutex::new(Vec::<String>::new()));
    let log2 = log.clone();
    tokio::spawn(async move {
        let acceptor = ConnectionAcceptor::builder().container_id("bystander-listener").build();
        let Ok(mut conn) = acceptor.accept(b).await else { return };
        let sacc = SessionAcceptor::new();
        let Ok(mut sess) = sacc.accept(&mut conn).await else { return };
        let lacc = LinkAcceptor::new();
        let Ok(LinkEndpoint::Receiver(mut r)) = lacc.accept(&mut sess).await else { return };
        loop {
            match r.recv::<String>().await {
                Ok(d) => {
                    log2.lock().unwrap().push(d.body().clone());
                    if r.accept(&d).await.is_err() {
                        break;
                    }
                }
                Err(_) => break,
            }
        }
    });
    let t = |e: String| e;
    let mut conn = tokio::time::timeout(SETUP_H, Connection::builder().container_id("bystander-client").open_with_stream(a))
        .await
        .map_err(|_| t("bystander open hung".into()))?
        .map_err(|e| format!("bystander open: {e:?}"))?;
    let mut sess = tokio::time::timeout(SETUP_H, Session::begin(&mut conn)).await.map_err(|_| t("bystander begin hung".into()))?.map_err(|e| format!("bystander begin: {e:?}"))?;
    let sender = tokio::time::timeout(SETUP_H, Sender::attach(&mut sess, "bystander", "q"))
        .await
        .map_err(|_| t("bystander attach hung".into()))?
        .map_err(|e| format!("bystander attach: {e:?}"))?;
    let mut b = Bystander { sender, _conn: conn, _sess: sess, log, n: 0 };
    bystander_ping(&mut b).await?;
    Ok(b)
}

async fn bystander_ping(b: &mut Bystander) -> Result<(), String> {
    b.n += 1;
    let body = format!("ping-{}", b.n);
    match tokio::time::timeout(HORIZON, b.sender.send(body.clone())).await {
        Err(_) => return Err(format!("send({body}) on the independent connection did not complete within {HORIZON:?} of virtual time")),
        Ok(Err(e)) => return Err(format!("send({body}) on the independent connection failed: {e:?}")),
        Ok(Ok(o)) => {
            if !o.is_accepted() {
                return Err(format!("send({body}) on the independent connection: outcome {o:?}"));
            }
        }
    }
    tokio::time::sleep(Duration::from_millis(2)).await;
    if !b.log.lock().unwrap().contains(&body) {
        return Err(format!("{body} was not received by the independent connection's listener"));
    }
    Ok(())
}

// ------------------------------------------------------------------------------------------ the scenario

struct Ep {
    conn: Option<Conn>,
    sess: Option<Sess>,
    snd: Option<Sender>,
    rcv: Option<Receiver>,
    p_begin: Option<JoinHandle<(ConnectionHandle<()>, Result<SessionHandle<()>, String>)>>,
    p_attach: Option<JoinHandle<(SessionHandle<()>, Result<Sender, String>)>>,
    p_send: Option<JoinHandle<(Sender, Result<String, String>)>>,
    p_recv: Option<JoinHandle<(Receiver, Result<String, String>)>>,
    p_sclose: Option<JoinHandle<Result<(), String>>>,
    p_end: Option<JoinHandle<(Sess, Result<(), String>)>>,
    p_close: Option<JoinHandle<(Conn, Result<(), String>)>>,
}

pub fn set_alloc_hooks(start: fn(), stop: fn() -> (usize, usize)) {
    let _ = ALLOC.set((start, stop));
}
static ALLOC: std::sync::OnceLock<(fn(), fn() -> (usize, usize))> = std::sync::OnceLock::new();

pub async fn scenario(case: Case) -> Obs {
    if let Bad::Resume(sp) = &case.bad {
        let sp = *sp;
        return resume::scenario(case, sp).await;
    }
    let mut obs = Obs::default();
    let role = case.role;
    let st = case.state;

    // ---- the independent, well-behaved connection
    let mut bys = match bystander_setup().await {
        Ok(b) => b,
        Err(e) => {
            obs.machinery = Some(format!("bystander set-up: {e}"));
            return obs;
        }
    };

    // ---- the connection under attack
    let (pipe, a, _b) = Pipe::new();
    let mut auto = Auto::default();
    auto.detach = false;
    auto.end = false;
    auto.close = false;
    auto.max_frame_size = PEER_MFS;
    auto.channel_offset = 1;
    if role == Role::Listener {
        auto.header = false;
        auto.open = false;
    }
    let peer = Peer::new(pipe.clone(), 1, auto);
    let mut cx = Ctx { peer, view: View::default(), shown: 0, manual_snd_attach: None, settle_all: false, hung: false };
    cx.view.answering = true;
    let mut ep = Ep { conn: None, sess: None, snd: None, rcv: None, p_begin: None, p_attach: None, p_send: None, p_recv: None, p_sclose: None, p_end: None, p_close: None };
    let sacc = SessionAcceptor::builder().incoming_window(LIB_WINDOW).handle_max(LIB_HANDLE_MAX).build();
    let lacc = LinkAcceptor::new();
    let mut env = Env::default();

    macro_rules! fail {
        ($($a:tt)*) => {{
            cx.flush(&mut obs);
            obs.machinery = Some(format!("{} [{}] trace: {:?}", format!($($a)*), case.describe(), obs.trace));
            return obs;
        }};
    }

    obs.note(format!("== prefix: reach state '{}' as {}", st.tag(), role.tag()));
    // -- open
    match role {
        Role::Client => {
            let r = cx
                .drive(Connection::builder().container_id("lib").max_frame_size(LIB_MFS).channel_max(LIB_CHANNEL_MAX).open_with_stream(a), SETUP_H)
                .await;
            match r {
                Some(Ok(c)) => ep.conn = Some(Conn::C(c)),
                other => fail!("open: {:?}", other.map(|r| r.map(|_| ()).map_err(|e| e.to_string()))),
            }
        }
        Role::Listener => {
            cx.peer.send_proto_header(AMQP_HEADER);
            cx.peer.send(0, Performative::Open(peer_open()));
            let acceptor = ConnectionAcceptor::builder().container_id("lib").max_frame_size(LIB_MFS).channel_max(LIB_CHANNEL_MAX).build();
            let r = cx.drive(acceptor.accept(a), SETUP_H).await;
            match r {
                Some(Ok(c)) => ep.conn = Some(Conn::L(c)),
                other => fail!("accept: {:?}", other.map(|r| r.map(|_| ()).map_err(|e| e.to_string()))),
            }
        }
    }
    cx.settle(1).await;

    // -- begin
    if st == St::BeginPending {
        match role {
            Role::Client => {
                cx.peer.auto.begin = false;
                let Some(Conn::C(mut c)) = ep.conn.take() else { unreachable!() };
                // begin() borrows the connection handle: it lives in the task until begin returns
                ep.p_begin = Some(tokio::spawn(async move {
                    let r = Session::builder().incoming_window(LIB_WINDOW).handle_max(LIB_HANDLE_MAX).begin(&mut c).await.map_err(|e| format!("{e:?}"));
                    (c, r)
                }));
                cx.settle(2).await;
                if !cx.peer.lib_frames().any(|w| matches!(w.perf(), Some(Performative::Begin(_)))) || ep.p_begin.as_ref().unwrap().is_finished() {
                    fail!("expected a pending Session::begin()");
                }
            }
            Role::Listener => {
                cx.peer.send(PCH, Performative::Begin(peer_begin(None)));
                cx.settle(2).await;
            }
        }
    } else if st.has_session() {
        match role {
            Role::Client => {
                let Some(Conn::C(c)) = ep.conn.as_mut() else { unreachable!() };
                let r = cx.drive(Session::builder().incoming_window(LIB_WINDOW).handle_max(LIB_HANDLE_MAX).begin(c), SETUP_H).await;
                match r {
                    Some(Ok(s)) => ep.sess = Some(Sess::C(s)),
                    other => fail!("begin: {:?}", other.map(|r| r.map(|_| ()).map_err(|e| e.to_string()))),
                }
            }
            Role::Listener => {
                cx.peer.send(PCH, Performative::Begin(peer_begin(None)));
                let Some(Conn::L(c)) = ep.conn.as_mut() else { unreachable!() };
                let r = cx.drive(sacc.accept(c), SETUP_H).await;
                match r {
                    Some(Ok(s)) => ep.sess = Some(Sess::L(s)),
                    other => fail!("accept session: {:?}", other.map(|r| r.map(|_| ()).map_err(|e| e.to_string()))),
                }
                cx.settle(1).await;
                if let Err(e) = register_listener_session(&mut cx) {
                    fail!("{e}");
                }
            }
        }
        cx.settle(1).await;
        if !cx.view.sess_alive(PCH) || cx.peer.sessions.get(&0).map(|s| s.our_channel) != Some(PCH) {
            fail!("session not mapped as library channel 0 <-> peer channel {PCH}");
        }
    }

    // -- attach
    if st == St::AttachPending {
        match role {
            Role::Client => {
                cx.peer.auto.attach = false;
                let Some(Sess::C(mut s)) = ep.sess.take() else { unreachable!() };
                ep.p_attach = Some(tokio::spawn(async move {
                    let r = Sender::attach(&mut s, "snd", "q").await.map_err(|e| format!("{e:?}"));
                    (s, r)
                }));
                cx.settle(2).await;
                if !cx.peer.lib_frames().any(|w| matches!(w.perf(), Some(Performative::Attach(_)))) || ep.p_attach.as_ref().unwrap().is_finished() {
                    fail!("expected a pending Sender::attach()");
                }
            }
            Role::Listener => {
                cx.peer.links.push(PeerLink {
                    lib_channel: 0,
                    name: "snd".into(),
                    lib_handle: u32::MAX,
                    our_handle: H_SND,
                    lib_role: LinkRole::Sender,
                    delivery_count: 0,
                    credit: 0,
                    attached_by_peer: true,
                    detached: false,
                    detach_sent: false,
                });
                cx.peer.send(PCH, Performative::Attach(peer_attach("snd", H_SND, true)));
                cx.settle(2).await;
            }
        }
    } else if st.has_links() {
        match role {
            Role::Client => {
                let Some(Sess::C(s)) = ep.sess.as_mut() else { unreachable!() };
                if st == St::MidOut {
                    // the peer's attach announces a max-message-size: the library splits larger messages
                    // into several transfers at the link level, each counted by the session window
                    cx.peer.auto.attach = false;
                    cx.manual_snd_attach = Some(MIDOUT_MMS);
                }
                let r = cx.drive(Sender::attach(s, "snd", "q"), SETUP_H).await;
                cx.peer.auto.attach = true;
                match r {
                    Some(Ok(x)) => ep.snd = Some(x),
                    other => fail!("attach sender: {:?}", other.map(|r| r.map(|_| ()).map_err(|e| format!("{e:?}")))),
                }
                let Some(Sess::C(s)) = ep.sess.as_mut() else { unreachable!() };
                match cx.drive(Receiver::builder().name("rcv").source("q").credit_mode(CreditMode::Manual).auto_accept(false).attach(s), SETUP_H).await {
                    Some(Ok(x)) => ep.rcv = Some(x),
                    other => fail!("attach receiver: {:?}", other.map(|r| r.map(|_| ()).map_err(|e| format!("{e:?}")))),
                }
            }
            Role::Listener => {
                for (name, h, lib_is_sender) in [("snd", H_SND, true), ("rcv", H_RCV, false)] {
                    cx.peer.links.push(PeerLink {
                        lib_channel: 0,
                        name: name.to_string(),
                        lib_handle: u32::MAX,
                        our_handle: h,
                        lib_role: if lib_is_sender { LinkRole::Sender } else { LinkRole::Receiver },
                        delivery_count: 0,
                        credit: 0,
                        attached_by_peer: true,
                        detached: false,
                        detach_sent: false,
                    });
                    let mut pa = peer_attach(name, h, lib_is_sender);
                    if st == St::MidOut && lib_is_sender {
                        pa.max_message_size = Some(MIDOUT_MMS);
                    }
                    cx.peer.send(PCH, Performative::Attach(pa));
                    let Some(Sess::L(s)) = ep.sess.as_mut() else { unreachable!() };
                    match cx.drive(lacc.accept(s), SETUP_H).await {
                        Some(Ok(LinkEndpoint::Sender(x))) if lib_is_sender => ep.snd = Some(x),
                        Some(Ok(LinkEndpoint::Receiver(mut x))) if !lib_is_sender => {
                            x.set_credit_mode(CreditMode::Manual);
                            x.set_auto_accept(false);
                            ep.rcv = Some(x);
                        }
                        other => fail!("accept link {name}: {:?}", other.map(|r| r.map(|_| ()).map_err(|e| format!("{e:?}")))),
                    }
                }
                // the acceptor's receiver announced its default credit: take it back
                let r = cx.drive(ep.rcv.as_mut().unwrap().set_credit(0), SETUP_H).await;
                if !matches!(r, Some(Ok(()))) {
                    fail!("set_credit(0): {:?}", r);
                }
            }
        }
        cx.settle(2).await;
        let ok = cx.view.link_alive(PCH, "snd")
            && cx.view.link_alive(PCH, "rcv")
            && cx.view.link(PCH, "snd").is_some_and(|l| l.lib_handle == Some(0) && l.peer_handle == Some(H_SND))
            && cx.view.link(PCH, "rcv").is_some_and(|l| l.lib_handle == Some(1) && l.peer_handle == Some(H_RCV));
        if !ok {
            fail!("links not attached with the expected handles: {:?}", cx.view.sess.get(&PCH));
        }
    }

    // -- credit
    if st.has_credit() {
        let r = cx.drive(ep.rcv.as_mut().unwrap().set_credit(CREDIT), SETUP_H).await;
        if !matches!(r, Some(Ok(()))) {
            fail!("set_credit: {:?}", r);
        }
        cx.peer.grant(0, 0, CREDIT);
        cx.settle(2).await;
        if cx.view.lib_flow(PCH, "rcv").map(|f| f.1) != Some(CREDIT) {
            fail!("library receiver did not announce credit {CREDIT}: {:?}", cx.view.lib_flow(PCH, "rcv"));
        }
    }

    // -- state specific part
    match st {
        St::Unsettled => {
            let mut s = ep.snd.take().unwrap();
            ep.p_send = Some(tokio::spawn(async move {
                let r = s.send("outstanding").await;
                (s, r.map(|o| format!("{o:?}")).map_err(|e| format!("{e:?}")))
            }));
            cx.peer.send_perf(PCH, Performative::Transfer(xfer(H_RCV, Some(0), Some("in0".into()), false)), &msg("in-0"));
            env.next_did = 1;
            let r = cx.drive(ep.rcv.as_mut().unwrap().recv::<Value>(), SETUP_H).await;
            if !matches!(r, Some(Ok(_))) {
                fail!("recv of the prefix delivery: {:?}", r.map(|x| x.map(|_| ()).map_err(|e| format!("{e:?}"))));
            }
            cx.settle(2).await;
            let out = cx.peer.lib_frames().filter(|w| matches!(w.perf(), Some(Performative::Transfer(_)))).count();
            env.lib_did = cx.peer.lib_frames().find_map(|w| match w.perf() { Some(Performative::Transfer(t)) => t.delivery_id, _ => None }).unwrap_or(0);
            if out != 1 || ep.p_send.as_ref().unwrap().is_finished() {
                fail!("expected one outstanding outgoing delivery, saw {out} transfers, send finished={}", ep.p_send.as_ref().unwrap().is_finished());
            }
        }
        St::MidIn => {
            let mut r = ep.rcv.take().unwrap();
            ep.p_recv = Some(tokio::spawn(async move {
                let x = r.recv::<Value>().await;
                (r, x.map(|d| format!("{:?}", d.body())).map_err(|e| format!("{e:?}")))
            }));
            let m = msg(&"multi-frame-".repeat(6));
            cx.peer.send_perf(PCH, Performative::Transfer(xfer(H_RCV, Some(0), Some("mf".into()), true)), &m[..30]);
            env.next_did = 1;
            cx.settle(2).await;
            if ep.p_recv.as_ref().unwrap().is_finished() {
                fail!("recv completed on the first frame of a two-frame delivery");
            }
        }
        St::MidOut => {
            // close the peer's session window to one frame, then send a message that needs three frames
            let mut fl = cx.peer.flow_for(0);
            fl.incoming_window = 1;
            cx.peer.send(PCH, Performative::Flow(fl));
            cx.settle(1).await;
            let mut s = ep.snd.take().unwrap();
            ep.p_send = Some(tokio::spawn(async move {
                let r = s.send("o".repeat(1000)).await;
                (s, r.map(|o| format!("{o:?}")).map_err(|e| format!("{e:?}")))
            }));
            cx.settle(2).await;
            let out: Vec<bool> = cx.peer.lib_frames().filter_map(|w| match w.perf() { Some(Performative::Transfer(t)) => Some(t.more), _ => None }).collect();
            if out != vec![true] {
                fail!("expected exactly the first frame (more=true) of the outgoing delivery, saw more-flags {out:?}");
            }
        }
        St::Detaching => {
            cx.view.answering = false;
            let s = ep.snd.take().unwrap();
            ep.p_sclose = Some(tokio::spawn(async move { s.close().await.map_err(|e| format!("{e:?}")) }));
            cx.settle(2).await;
            if !cx.peer.lib_frames().any(|w| matches!(w.perf(), Some(Performative::Detach(_)))) || ep.p_sclose.as_ref().unwrap().is_finished() {
                fail!("expected a pending Sender::close()");
            }
        }
        St::PeerDetached => {
            cx.peer.send(PCH, Performative::Detach(Detach { handle: Handle(H_SND), closed: true, error: None }));
            cx.settle(2).await;
        }
        St::Ending => {
            cx.view.answering = false;
            let mut s = ep.sess.take().unwrap();
            ep.p_end = Some(tokio::spawn(async move {
                let r = match &mut s {
                    Sess::C(x) => x.end().await,
                    Sess::L(x) => x.end().await,
                };
                (s, r.map_err(|e| format!("{e:?}")))
            }));
            cx.settle(2).await;
            if !cx.peer.lib_frames().any(|w| matches!(w.perf(), Some(Performative::End(_)))) || ep.p_end.as_ref().unwrap().is_finished() {
                fail!("expected a pending session.end()");
            }
        }
        St::Closing => {
            cx.view.answering = false;
            let mut c = ep.conn.take().unwrap();
            ep.p_close = Some(tokio::spawn(async move {
                let r = match &mut c {
                    Conn::C(x) => x.close().await,
                    Conn::L(x) => x.close().await,
                };
                (c, r.map_err(|e| format!("{e:?}")))
            }));
            cx.settle(2).await;
            if !cx.peer.lib_frames().any(|w| matches!(w.perf(), Some(Performative::Close(_)))) || ep.p_close.as_ref().unwrap().is_finished() {
                fail!("expected a pending connection.close()");
            }
        }
        _ => {}
    }
    env.flow = if st.has_session() { Some(cx.peer.flow_for(0)) } else { None };
    env.lib_noi = cx.peer.sessions.get(&0).map(|s| s.next_incoming_id).unwrap_or(0);
    obs.reached = true;
    cx.flush(&mut obs);

    // ---- the bad input: the peer answers nothing while the library reacts
    obs.note(format!("== bad input: {}", case.describe()));
    let mark = cx.peer.trace.len();
    let saved_auto = cx.peer.auto.clone();
    cx.peer.auto = Auto { max_frame_size: saved_auto.max_frame_size, channel_offset: saved_auto.channel_offset, ..Auto::none() };
    let was_answering = cx.view.answering;
    cx.view.answering = false;
    if let Some((start, _)) = ALLOC.get() {
        start();
    }
    let t0 = vlib::runner::thread_cpu_ms();
    match &case.bad {
        Bad::Item(i) => {
            for step in item_steps(*i, &env) {
                match step {
                    Step::F(ch, p, payload) => {
                        if let Performative::Transfer(t) = &p {
                            if let Some(d) = t.delivery_id {
                                env.next_did = env.next_did.max(d.wrapping_add(1));
                            }
                        }
                        obs.bad_bytes += payload.len() + 8;
                        cx.peer.send_perf(ch, p, &payload);
                    }
                    Step::Raw(label, bytes) => {
                        obs.bad_bytes += bytes.len();
                        cx.raw(&label, &bytes);
                    }
                }
            }
        }
        Bad::Raw { label, bytes, .. } => {
            obs.bad_bytes += bytes.len();
            cx.raw(label, bytes);
        }
        Bad::Resume(_) => unreachable!("handled by resume::scenario"),
    }
    cx.settle(3).await;
    obs.bad_ms = vlib::runner::thread_cpu_ms() - t0;
    if let Some((_, stop)) = ALLOC.get() {
        obs.max_alloc = stop().0;
    }
    cx.flush(&mut obs);
    // what the library put on the wire in reaction
    let mut reaction: Vec<String> = vec![];
    for w in cx.peer.trace[mark..].iter().filter(|w| w.dir == Dirn::FromLib) {
        let r = match &w.body {
            Body::Perf(Performative::Close(c)) => format!("close({})", cond(c.error.as_ref())),
            Body::Perf(Performative::End(e)) => format!("end({})", cond(e.error.as_ref())),
            Body::Perf(Performative::Detach(d)) => format!("detach({})", cond(d.error.as_ref())),
            Body::Perf(Performative::Flow(_)) => "flow".into(),
            Body::Perf(Performative::Disposition(_)) => "disposition".into(),
            Body::Perf(Performative::Transfer(_)) => "transfer".into(),
            Body::Perf(Performative::Attach(_)) => "attach".into(),
            Body::Perf(Performative::Begin(_)) => "begin".into(),
            Body::Perf(Performative::Open(_)) => "open".into(),
            Body::Empty => "empty".into(),
            Body::ProtoHeader(_) => "header".into(),
            Body::Sasl(_) => "sasl".into(),
            Body::Undecodable(_) => "undecodable".into(),
        };
        if reaction.last() != Some(&r) {
            reaction.push(r);
        }
    }
    if pipe.peer_closed(1) {
        reaction.push("eof".into());
    }
    obs.reaction = if reaction.is_empty() { "ignored".into() } else { reaction.join("+") };

    // ---- from here on the peer is conforming again and maximally helpful
    obs.note("== follow-up: the peer answers every close/end/detach, grants credit, settles; the application probes its handles");
    cx.peer.auto = saved_auto;
    cx.peer.auto.begin = true;
    cx.peer.auto.attach = true;
    cx.peer.auto.grant_credit = Some(100);
    cx.peer.auto.accept_transfers = true;
    let _ = was_answering;
    cx.view.answering = true;
    cx.settle_all = true;
    cx.view.update(&mut cx.peer);
    cx.settle(3).await;

    // -- pending operations
    if let Some(h) = ep.p_begin.take() {
        // client, begin pending: the peer now answers the begin (if the connection is still up)
        if cx.view.conn_alive() {
            cx.peer.send(PCH, Performative::Begin(peer_begin(Some(0))));
        }
        match jh(cx.drive(h, HORIZON).await) {
            Some(Ok((c, res))) => {
                obs.probe("pending Session::begin", &Some(res.as_ref().map(|_| ()).map_err(|e| e.clone())));
                ep.conn = Some(Conn::C(c));
                if let Ok(s) = res {
                    ep.sess = Some(Sess::C(s));
                }
            }
            Some(Err(e)) => obs.probe_str("pending Session::begin", format!("err:{e}")),
            None => obs.probe_str("pending Session::begin", "hang".into()),
        }
    }
    if st == St::BeginPending && role == Role::Listener {
        // the peer's begin has been waiting in the acceptor's queue: the application accepts it now
        if let Some(Conn::L(c)) = ep.conn.as_mut() {
            let r = cx.drive(sacc.accept(c), HORIZON).await;
            let r = r.map(|x| x.map_err(|e| format!("{e:?}")));
            obs.probe("SessionAcceptor::accept(waiting begin)", &r);
            if let Some(Ok(s)) = r {
                ep.sess = Some(Sess::L(s));
                cx.settle(1).await;
                let _ = register_listener_session(&mut cx);
            }
        }
    }
    if let Some(h) = ep.p_attach.take() {
        if cx.view.sess_alive(PCH) {
            cx.peer.send(PCH, Performative::Attach(peer_attach("snd", H_SND, true)));
        }
        match jh(cx.drive(h, HORIZON).await) {
            Some(Ok((s, res))) => {
                obs.probe("pending Sender::attach", &Some(res.as_ref().map(|_| ()).map_err(|e| e.clone())));
                ep.sess = Some(Sess::C(s));
                if let Ok(x) = res {
                    ep.snd = Some(x);
                }
            }
            Some(Err(e)) => obs.probe_str("pending Sender::attach", format!("err:{e}")),
            None => obs.probe_str("pending Sender::attach", "hang".into()),
        }
    }
    if st == St::AttachPending && role == Role::Listener {
        if let Some(Sess::L(s)) = ep.sess.as_mut() {
            let r = cx.drive(lacc.accept(s), HORIZON).await;
            let r = r.map(|x| x.map_err(|e| format!("{e:?}")));
            obs.probe("LinkAcceptor::accept(waiting attach)", &r);
            if let Some(Ok(LinkEndpoint::Sender(x))) = r {
                ep.snd = Some(x);
            }
        }
    }
    if let Some(h) = ep.p_send.take() {
        if cx.view.sess_alive(PCH) && st == St::MidOut {
            // open the session window again: the rest of the delivery can go out (the peer settles every
            // complete delivery, see `settle_outstanding`)
            let fl = cx.peer.flow_for(0);
            cx.peer.send(PCH, Performative::Flow(fl));
        }
        let r = jh(cx.drive(h, HORIZON).await);
        match r {
            Some(Ok((s, res))) => {
                obs.probe("pending Sender::send", &Some(res));
                ep.snd = Some(s);
            }
            Some(Err(e)) => obs.probe_str("pending Sender::send", format!("err:{e}")),
            None => obs.probe_str("pending Sender::send", "hang".into()),
        }
    }
    if let Some(mut h) = ep.p_recv.take() {
        if cx.view.link_alive(PCH, "rcv") {
            // the conforming peer completes the delivery it had started
            let m = msg(&"multi-frame-".repeat(6));
            cx.peer.send_perf(PCH, Performative::Transfer(xfer(H_RCV, None, None, false)), &m[30..]);
        }
        let mut r = jh(cx.drive(&mut h, Duration::from_millis(50)).await);
        let mut legit_pending = false;
        if r.is_none() {
            // the library may have legitimately discarded the delivery the bad input interfered with:
            // offer a complete fresh delivery, if the link is up and its credit allows one
            if cx.view.link_alive(PCH, "rcv") {
                if credit_left(&cx) >= 1 {
                    let d = env.next_did;
                    env.next_did += 1;
                    cx.peer.send_perf(PCH, Performative::Transfer(xfer(H_RCV, Some(d), Some(format!("fresh{d}")), false)), &msg("fresh"));
                } else {
                    legit_pending = true;
                }
            }
            r = jh(cx.drive(&mut h, HORIZON).await);
        }
        match r {
            Some(Ok((rc, res))) => {
                obs.probe("pending Receiver::recv", &Some(res));
                ep.rcv = Some(rc);
            }
            Some(Err(e)) => obs.probe_str("pending Receiver::recv", format!("err:{e}")),
            None => {
                // Permissive: recv() may stay pending if the link is up and no complete delivery could be
                // offered within the credit the library gave
                if legit_pending && cx.view.link_alive(PCH, "rcv") {
                    obs.probe_str("pending Receiver::recv", "skipped:link up, no credit left for a fresh delivery".into());
                } else {
                    obs.probe_str("pending Receiver::recv", "hang".into());
                }
                h.abort();
            }
        }
    }
    if let Some(h) = ep.p_sclose.take() {
        let r = jh(cx.drive(h, HORIZON).await).map(|r| r.and_then(|x| x));
        obs.probe("pending Sender::close", &r);
    }

    // -- link probes
    if let Some(mut s) = ep.snd.take() {
        if cx.view.link_alive(PCH, "snd") {
            // the receiver's delivery-count: the last value the library announced plus the deliveries it has
            // STARTED since (a delivery already under way when the library announced its count is included
            // in that count)
            let dc = lib_sender_delivery_count(&cx);
            if let Some(l) = cx.peer.links.iter_mut().find(|l| l.lib_channel == 0 && l.lib_handle == 0 && !l.detached) {
                l.delivery_count = dc;
            }
            cx.peer.grant(0, 0, 100);
        }
        let r = cx.drive(s.send("probe"), HORIZON).await;
        obs.probe("Sender::send", &r);
        let r = cx.drive(s.close(), HORIZON).await;
        obs.probe("Sender::close", &r);
    }
    if let Some(mut rc) = ep.rcv.take() {
        let r = cx.drive(rc.set_credit(10), HORIZON).await;
        obs.probe("Receiver::set_credit", &r);
        cx.settle(1).await;
        let mut fed = false;
        if cx.view.link_alive(PCH, "rcv") && credit_left(&cx) >= 1 {
            let d = env.next_did;
            env.next_did += 1;
            cx.peer.send_perf(PCH, Performative::Transfer(xfer(H_RCV, Some(d), Some(format!("probe{d}")), false)), &msg("probe"));
            fed = true;
        }
        if fed || !cx.view.link_alive(PCH, "rcv") {
            // a delivery is on its way, or the link is gone: recv() must return
            let r = cx.drive(rc.recv::<Value>(), HORIZON).await;
            let r2 = r.map(|x| x.map_err(|e| format!("{e:?}")));
            obs.probe("Receiver::recv", &r2);
            if let Some(Ok(d)) = r2 {
                let r = cx.drive(rc.accept(&d), HORIZON).await;
                obs.probe("Receiver::accept", &r);
            }
        } else {
            obs.probe_str("Receiver::recv", "skipped:link up but the library announced no credit".into());
        }
        let r = cx.drive(rc.close(), HORIZON).await;
        obs.probe("Receiver::close", &r);
    }

    // -- session probes
    if let Some(h) = ep.p_end.take() {
        match jh(cx.drive(h, HORIZON).await) {
            Some(Ok((_s, res))) => obs.probe("pending session.end", &Some(res)),
            Some(Err(e)) => obs.probe_str("pending session.end", format!("err:{e}")),
            None => obs.probe_str("pending session.end", "hang".into()),
        }
    }
    if let Some(mut s) = ep.sess.take() {
        let r = match &mut s {
            Sess::C(x) => cx.drive(Sender::attach(x, "probe", "q"), HORIZON).await,
            Sess::L(x) => cx.drive(Sender::attach(x, "probe", "q"), HORIZON).await,
        };
        let r = r.map(|x| x.map_err(|e| format!("{e:?}")));
        obs.probe("Sender::attach(new link)", &r);
        if let Some(Ok(mut p)) = r {
            let r = cx.drive(p.send("on-probe-link"), HORIZON).await;
            obs.probe("probe-link send", &r);
            let r = cx.drive(p.close(), HORIZON).await;
            obs.probe("probe-link close", &r);
        }
        let r = match &mut s {
            Sess::C(x) => cx.drive(x.end(), HORIZON).await,
            Sess::L(x) => cx.drive(x.end(), HORIZON).await,
        };
        obs.probe("session.end", &r);
    }

    // -- connection probes
    if let Some(h) = ep.p_close.take() {
        match jh(cx.drive(h, HORIZON).await) {
            Some(Ok((_c, res))) => obs.probe("pending connection.close", &Some(res)),
            Some(Err(e)) => obs.probe_str("pending connection.close", format!("err:{e}")),
            None => obs.probe_str("pending connection.close", "hang".into()),
        }
    }
    if let Some(mut c) = ep.conn.take() {
        match &mut c {
            Conn::C(x) => {
                let r = cx.drive(Session::begin(x), HORIZON).await;
                let r = r.map(|x| x.map_err(|e| format!("{e:?}")));
                obs.probe("Session::begin(new session)", &r);
                if let Some(Ok(mut s2)) = r {
                    let r = cx.drive(s2.end(), HORIZON).await;
                    obs.probe("new session end", &r);
                }
            }
            Conn::L(x) => {
                // Permissive: if the PEER has sent a close (which the library may have disregarded, e.g. on a
                // non-zero channel) and the library none, a conforming peer sends no further begin and accept()
                // may legitimately wait: not probed.  If the library itself closed, accept() must return.
                if cx.view.conn_alive() || cx.view.lib_close {
                    if cx.view.conn_alive() {
                        cx.peer.send(7, Performative::Begin(peer_begin(None)));
                    }
                    let r = cx.drive(sacc.accept(x), HORIZON).await;
                    let r = r.map(|x| x.map_err(|e| format!("{e:?}")));
                    obs.probe("SessionAcceptor::accept(new session)", &r);
                    if let Some(Ok(mut s2)) = r {
                        let r = cx.drive(s2.end(), HORIZON).await;
                        obs.probe("new session end", &r);
                    }
                } else {
                    obs.probe_str("SessionAcceptor::accept(new session)", "skipped:the peer has sent a close, the library none".into());
                }
            }
        }
        let r = match &mut c {
            Conn::C(x) => cx.drive(x.close(), HORIZON).await,
            Conn::L(x) => cx.drive(x.close(), HORIZON).await,
        };
        obs.probe("connection.close", &r);
    }
    cx.settle(1).await;
    cx.flush(&mut obs);

    // ---- the independent connection
    match bystander_ping(&mut bys).await {
        Ok(()) => obs.note("  independent connection: send/recv ok"),
        Err(e) => {
            obs.note(format!("  independent connection: {e}"));
            obs.bystander = Some(e);
        }
    }
    obs.completed = true;
    obs
}

fn cond(e: Option<&fe2o3_amqp_types::definitions::Error>) -> String {
    match e {
        None => "-".into(),
        Some(e) => format!("{:?}", e.condition).replace("AmqpError(", "").replace("SessionError(", "").replace("ConnectionError(", "").replace("LinkError(", "").replace(')', ""),
    }
}

/// delivery-count of the library's sending link "snd" as a conforming receiver tracks it
fn lib_sender_delivery_count(cx: &Ctx) -> u32 {
    let mut dc = 0u32;
    let mut in_progress = false;
    let mut handle: Option<u32> = None;
    for w in cx.peer.trace.iter().filter(|w| w.dir == Dirn::FromLib && w.channel == 0) {
        match w.perf() {
            Some(Performative::Attach(a)) if a.name == "snd" => {
                handle = Some(a.handle.0);
                dc = a.initial_delivery_count.unwrap_or(0);
                in_progress = false;
            }
            Some(Performative::Flow(f)) if f.handle.as_ref().map(|h| h.0) == handle && handle.is_some() => {
                if let Some(x) = f.delivery_count {
                    dc = x;
                }
            }
            Some(Performative::Transfer(t)) if Some(t.handle.0) == handle => {
                if !in_progress {
                    dc = dc.wrapping_add(1);
                }
                in_progress = t.more && !t.aborted;
            }
            _ => {}
        }
    }
    dc
}

/// listener role: the scripted peer keeps its session record under the library's channel
fn register_listener_session(cx: &mut Ctx) -> Result<(), String> {
    let lc = cx.peer.trace.iter().find_map(|w| match (w.dir, w.perf()) {
        (Dirn::FromLib, Some(Performative::Begin(b))) if b.remote_channel == Some(PCH) => Some(w.channel),
        _ => None,
    });
    let Some(lc) = lc else { return Err("listener sent no begin".into()) };
    let s = cx.peer.sessions.entry(lc).or_default();
    s.lib_channel = lc;
    s.our_channel = PCH;
    s.incoming_window = 1000;
    s.outgoing_window = 1000;
    s.next_outgoing_id = 0;
    Ok(())
}

/// link credit the library's receiver has left from the conforming peer's point of view
fn credit_left(cx: &Ctx) -> u32 {
    let Some((dc, credit)) = cx.view.lib_flow(PCH, "rcv") else { return 0 };
    // deliveries the peer has started on the link so far (initial delivery-count 0)
    let mut started = 0u32;
    let mut in_progress = false;
    for w in cx.peer.trace.iter().filter(|w| w.dir == Dirn::FromPeer && w.channel == PCH) {
        if let Some(Performative::Transfer(t)) = w.perf() {
            if t.handle.0 != H_RCV {
                continue;
            }
            if !in_progress {
                started = started.wrapping_add(1);
            }
            in_progress = t.more && !t.aborted;
        }
    }
    let limit = dc.wrapping_add(credit);
    let left = limit.wrapping_sub(started);
    if left > 0x7fff_ffff {
        0
    } else {
        left
    }
}

#[allow(dead_code)]
pub fn unused(_: Sasl) {}
