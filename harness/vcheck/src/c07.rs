//! C07 - session flow control: never overrun the peer's incoming window; nothing lost; reported state
//! reflects the frames actually sent and received.
//!
//! History search: real client Session + Sender (+ Receiver) against the scripted peer which produces
//! every history of session flows / incoming transfers interleaved with outgoing single- and
//! multi-frame transfers, for initial next-outgoing-ids 0 and next to 2^32.
use crate::scen::{self, SendCmd};
use fe2o3_amqp::link::{Receiver, Sender};
use fe2o3_amqp::Session;
use fe2o3_amqp_types::definitions::{Handle, SenderSettleMode};
use fe2o3_amqp_types::messaging::message::__private::Serializable;
use fe2o3_amqp_types::messaging::Message;
use fe2o3_amqp_types::performatives::*;
use serde_json::json;
use std::sync::Arc;
use std::time::{Duration, Instant};
use vlib::history::{search, HistOut};
use vlib::peer::{drive, settle, trace_to_strings, Auto, Body, Dirn, WFrame};
use vlib::report::{Ctx, Outcome};
use vlib::runner::{run_exec, RunCfg, Scenario};
use vlib::util::h64;

#[derive(Debug, Clone, Copy, PartialEq, Eq, Hash)]
pub enum Ev {
    /// application sends a 1-frame message
    S1,
    /// application sends a message the transport has to split into 3 frames
    S3,
    /// peer flow: next-incoming-id = what it has received, incoming-window = n
    F0,
    F1,
    F2,
    F5,
    /// next-incoming-id unset, incoming-window 2
    FUnset2,
    /// stale next-incoming-id (one behind), incoming-window 2
    FStale2,
    /// stale next-incoming-id (one behind) and incoming-window 0: the peer closed its window before it saw our last frame
    FStale0,
    /// peer sends a transfer on the link where the library is the receiver
    T,
    /// peer asks for the session state (flow with echo)
    E,
    /// like T, but the delivery is not settled: the application's accept() sends a disposition
    TU,
    /// a flow on the SENDER link's handle with echo=true that at the same time sets incoming-window 2: the library
    /// must answer with its state (a link flow cannot be left unanswered) and may have to release held-back transfers
    /// in the same step; the answer's next-outgoing-id must count exactly the frames written before it
    EL2,
}
pub const ALPHABET: [Ev; 13] = [Ev::S1, Ev::F1, Ev::F2, Ev::S3, Ev::F0, Ev::E, Ev::T, Ev::TU, Ev::EL2, Ev::F5, Ev::FStale2, Ev::FStale0, Ev::FUnset2];

#[derive(Debug, Clone, Default)]
pub struct Obs {
    pub executed: usize,
    pub fails: Vec<(String, String)>,
    pub state_keys: Vec<u64>,
    pub trace: Vec<String>,
    pub machinery: Option<String>,
    pub held_back_steps: usize,
    pub multi_frame: usize,
}

fn sdiff(a: u32, b: u32) -> i64 {
    (a.wrapping_sub(b) as i32) as i64
}

fn lib_transfer_frames(trace: &[WFrame], handle: u32) -> Vec<&WFrame> {
    trace
        .iter()
        .filter(|w| w.dir == Dirn::FromLib && matches!(&w.body, Body::Perf(Performative::Transfer(t)) if t.handle.0 == handle))
        .collect()
}

/// `link_split`: the sender link has max-message-size 200, so that the LINK splits the 3-frame message into
/// transfers the session counts one by one (no transport-level splitting happens in that configuration)
pub async fn scenario(x: u32, link_split: bool, events: Vec<Ev>) -> Obs {
    let mut obs = Obs::default();
    let mut auto = Auto::default();
    auto.max_frame_size = 512;
    auto.incoming_window = 2;
    auto.outgoing_window = 1000;
    auto.grant_credit = Some(100_000);
    // the peer's own transfer-ids start next to 2^32 in the runs whose outgoing ids do: the next-incoming-id the
    // library reports then has to wrap with the frames it receives
    let peer_noi0 = if x >= u32::MAX - 8 { u32::MAX - 1 } else { 7u32 };
    auto.next_outgoing_id = peer_noi0;
    let w0 = auto.incoming_window;
    let mut c = match scen::open_client(auto, 512).await {
        Ok(c) => c,
        Err(e) => {
            obs.machinery = Some(e);
            return obs;
        }
    };
    let mut session = match scen::begin(&mut c, Session::builder().next_outgoing_id(x).incoming_window(4).outgoing_window(1000)).await {
        Ok(s) => s,
        Err(e) => {
            obs.machinery = Some(e);
            return obs;
        }
    };
    let sender = drive(
        &mut c.peer,
        {
            let b = Sender::builder().name("s1").target("q").sender_settle_mode(SenderSettleMode::Settled);
            if link_split { b.max_message_size(200u64) } else { b }
        }
        .attach(&mut session),
        scen::H,
    )
    .await;
    let sender = match sender {
        Some(Ok(s)) => s,
        other => {
            obs.machinery = Some(format!("sender attach failed: {:?}", other.map(|r| r.map(|_| ()).map_err(|e| e.to_string()))));
            return obs;
        }
    };
    let snd_handle = c.peer.links.last().map(|l| l.lib_handle).unwrap_or(0);
    let receiver = drive(
        &mut c.peer,
        Receiver::builder().name("r1").source("q").credit_mode(fe2o3_amqp::link::receiver::CreditMode::Auto(2)).attach(&mut session),
        scen::H,
    )
    .await;
    let mut receiver = match receiver {
        Some(Ok(r)) => r,
        other => {
            obs.machinery = Some(format!("receiver attach failed: {:?}", other.map(|r| r.map(|_| ()).map_err(|e| e.to_string()))));
            return obs;
        }
    };
    let rcv_our_handle = c.peer.links.last().map(|l| l.our_handle).unwrap_or(1);
    // drain incoming deliveries in the background so that the receiver keeps working
    let _rtask = tokio::spawn(async move {
        while let Ok(d) = receiver.recv::<serde_amqp::Value>().await {
            let _ = receiver.accept(&d).await;
        }
    });
    let (tx, _log, _task) = scen::spawn_sender_task(sender);
    settle(&mut c.peer, 2).await;
    // the library's begin must announce next-outgoing-id = x
    let lib_begin_noi = c.peer.trace.iter().find_map(|w| match (&w.body, w.dir) {
        (Body::Perf(Performative::Begin(b)), Dirn::FromLib) => Some(b.next_outgoing_id),
        _ => None,
    });
    if lib_begin_noi != Some(x) {
        obs.fails.push(("begin-next-outgoing-id".into(), format!("begin announces next-outgoing-id {:?}, configured {x}", lib_begin_noi)));
    }
    // peer-side truth
    let mut limit: u32 = x.wrapping_add(w0); // begin: next-incoming-id is implicitly the library's next-outgoing-id
    let mut peer_sent_transfers: u32 = 0;
    let mut queued: Vec<usize> = vec![]; // body lengths of messages queued so far
    let mut multi_before = false; // a transport-split (multi-frame) message has been written
    obs.state_keys.push(h64(&(0u8, w0)));
    let n_ev = events.len();
    for i in 0..=n_ev {
        // the step after the last event reopens the window wide so that everything held back must come out
        let ev = if i < n_ev { Some(events[i]) } else { None };
        let frames_before = lib_transfer_frames(&c.peer.trace, snd_handle).len() as u32;
        let peer_nii = x.wrapping_add(frames_before); // transfer frames the peer has received so far
        if let Some(Ev::FStale2) | Some(Ev::FStale0) = ev {
            if frames_before == 0 {
                break;
            }
        }
        if let Some(Ev::T | Ev::TU) = ev {
            if peer_sent_transfers >= 40 {
                break;
            }
        }
        let mark = c.peer.trace.len();
        let mut this_flow_limit: Option<u32> = None;
        match ev {
            Some(Ev::S1) => {
                let _ = tx.send(SendCmd::Send { body_len: 20 });
                queued.push(20);
            }
            Some(Ev::S3) => {
                let big = if link_split { 480 } else { 1100 };
                let _ = tx.send(SendCmd::Send { body_len: big });
                queued.push(big);
            }
            Some(Ev::T | Ev::TU) => {
                let t = Transfer {
                    handle: Handle(rcv_our_handle),
                    delivery_id: Some(peer_sent_transfers),
                    delivery_tag: Some(serde_bytes::ByteBuf::from(peer_sent_transfers.to_be_bytes().to_vec())),
                    message_format: Some(0),
                    settled: Some(ev != Some(Ev::TU)),
                    more: false,
                    rcv_settle_mode: None,
                    state: None,
                    resume: false,
                    aborted: false,
                    batchable: false,
                };
                let payload = serde_amqp::to_vec(&Serializable(Message::builder().value(peer_sent_transfers).build())).unwrap();
                c.peer.send_perf(0, Performative::Transfer(t), &payload);
                peer_sent_transfers += 1;
            }
            other => {
                let (nii, iw, echo) = match other {
                    Some(Ev::F0) => (Some(peer_nii), 0, false),
                    Some(Ev::F1) => (Some(peer_nii), 1, false),
                    Some(Ev::F2) => (Some(peer_nii), 2, false),
                    Some(Ev::F5) => (Some(peer_nii), 5, false),
                    Some(Ev::FUnset2) => (None, 2, false),
                    Some(Ev::FStale2) => (Some(peer_nii.wrapping_sub(1)), 2, false),
                    Some(Ev::FStale0) => (Some(peer_nii.wrapping_sub(1)), 0, false),
                    Some(Ev::E) => (Some(peer_nii), sdiff(limit, peer_nii).max(0) as u32, true),
                    Some(Ev::EL2) => (Some(peer_nii), 2, true),
                    None => (Some(peer_nii), 10_000, false),
                    _ => unreachable!(),
                };
                // (EL2: the receiving end of the library's sender link states what it has seen of that link)
                // delivery-count = the sender's initial value (0) + deliveries it has started on the wire
                let link_part = if other == Some(Ev::EL2) {
                    let mut started = 0u32;
                    let mut in_progress = false;
                    for w in lib_transfer_frames(&c.peer.trace, snd_handle) {
                        if let Some(Performative::Transfer(t)) = w.perf() {
                            if !in_progress {
                                started += 1;
                            }
                            in_progress = t.more;
                        }
                    }
                    c.peer.links.iter().find(|l| l.lib_handle == snd_handle && !l.detached).map(|l| (l.our_handle, started))
                } else {
                    None
                };
                let f = Flow {
                    next_incoming_id: nii,
                    incoming_window: iw,
                    next_outgoing_id: peer_noi0.wrapping_add(peer_sent_transfers),
                    outgoing_window: 1000,
                    handle: link_part.map(|(h, _)| Handle(h)),
                    delivery_count: link_part.map(|(_, dc)| dc),
                    link_credit: link_part.map(|_| 100_000),
                    available: None,
                    drain: false,
                    echo,
                    properties: None,
                };
                c.peer.send(0, Performative::Flow(f));
                // next-incoming-id unset: the window is counted from the initial next-outgoing-id of the begin
                limit = nii.unwrap_or(x).wrapping_add(iw);
                this_flow_limit = Some(limit);
            }
        }
        settle(&mut c.peer, 3).await;
        if i < n_ev {
            obs.executed = i + 1;
        }
        // ---------------- judge this step
        let frames = lib_transfer_frames(&c.peer.trace, snd_handle);
        let frames_after = frames.len() as u32;
        if frames.iter().any(|w| matches!(w.perf(), Some(Performative::Transfer(t)) if t.more)) {
            multi_before = true;
        }
        // (1) every transfer frame written in this step lies inside the window of the last flow / begin
        for k in frames_before..frames_after {
            let id = x.wrapping_add(k);
            if sdiff(limit, id) <= 0 {
                let cause = if link_split {
                    " (link-split configuration)"
                } else if frames[k as usize].perf().map(|p| matches!(p, Performative::Transfer(t) if t.delivery_id.is_none())).unwrap_or(false)
                    || matches!(frames[k as usize].perf(), Some(Performative::Transfer(t)) if t.more)
                {
                    " (frame of a transport-split delivery)"
                } else if multi_before {
                    " (after a transport-split delivery)"
                } else {
                    ""
                };
                obs.fails.push((
                    format!("window-overrun{cause}"),
                    format!(
                        "transfer frame #{k} (transfer-id {id}) was sent although the peer's window ends at {limit} (next-incoming-id + incoming-window of its last {})",
                        if this_flow_limit.is_some() { "flow" } else { "flow/begin" }
                    ),
                ));
            }
        }
        if multi_before {
            obs.multi_frame += 1;
        }
        // (2) nothing dropped, duplicated or reordered: the deliveries on the wire are the queued messages, in order
        let mut bodies: Vec<Vec<u8>> = vec![];
        let mut cur: Option<Vec<u8>> = None;
        for w in &frames {
            if let Some(Performative::Transfer(t)) = w.perf() {
                let mut b = cur.take().unwrap_or_default();
                b.extend_from_slice(&w.payload);
                if t.more {
                    cur = Some(b);
                } else {
                    bodies.push(b);
                }
            }
        }
        for (k, b) in bodies.iter().enumerate() {
            let want_len = queued.get(k).copied();
            // payload = described data section: find the sequence number in the first 4 body bytes
            let seq_ok = want_len
                .map(|l| {
                    let body = scen::body(k, l);
                    b.windows(body.len()).any(|w| w == &body[..])
                })
                .unwrap_or(false);
            if !seq_ok {
                obs.fails.push((
                    "delivery-stream-corrupted".into(),
                    format!("delivery #{k} on the wire ({} payload bytes) is not message #{k} the application sent ({:?} body bytes): dropped, duplicated or reordered", b.len(), want_len),
                ));
                break;
            }
        }
        let pending = queued.len() - bodies.len().min(queued.len());
        if pending > 0 {
            obs.held_back_steps += 1;
        }
        if i == n_ev && (pending > 0 || cur.is_some()) {
            obs.fails.push((
                format!("held-back-transfer-never-sent{}", if link_split { " (link-split configuration)" } else if multi_before { " (after a transport-split delivery)" } else { "" }),
                format!("the peer reopened its window to 10000 but {pending} queued message(s) were not transmitted"),
            ));
        }
        // (3) the state the library reports: next-outgoing-id = initial + frames sent, next-incoming-id = peer's + frames received
        let mut sent_so_far = 0u32;
        for w in &c.peer.trace {
            if w.dir != Dirn::FromLib {
                continue;
            }
            match &w.body {
                Body::Perf(Performative::Transfer(t)) if t.handle.0 == snd_handle => sent_so_far += 1,
                Body::Perf(Performative::Flow(f)) if w.seq >= mark => {
                    let want = x.wrapping_add(sent_so_far);
                    if f.next_outgoing_id != want {
                        obs.fails.push((
                            format!("reported-next-outgoing-id{}", if link_split { " (link-split configuration)" } else if multi_before { " (after a transport-split delivery)" } else { "" }),
                            format!("a flow reports next-outgoing-id {} after {sent_so_far} transfer frames from initial {x} (expected {want})", f.next_outgoing_id),
                        ));
                    }
                    let want_in = peer_noi0.wrapping_add(peer_sent_transfers);
                    if let Some(n) = f.next_incoming_id {
                        if n != want_in {
                            obs.fails.push((
                                "reported-next-incoming-id".into(),
                                format!("a flow reports next-incoming-id {n}; the peer started at {peer_noi0} and has sent {peer_sent_transfers} transfer frames (expected {want_in})"),
                            ));
                        }
                    }
                }
                _ => {}
            }
        }
        if i < n_ev {
            obs.state_keys.push(h64(&(frames_after, sdiff(limit, x.wrapping_add(frames_after)), pending, peer_sent_transfers)));
        }
    }
    let _ = tx.send(SendCmd::Stop);
    obs.fails.sort();
    obs.fails.dedup();
    obs.trace = trace_to_strings(&c.peer.trace);
    obs
}

fn run_history(x: u32, link_split: bool, evs: Vec<Ev>) -> (HistOut, usize, usize) {
    let scen: Scenario<Obs> = {
        let evs = evs.clone();
        Arc::new(move || {
            let evs = evs.clone();
            Box::pin(scenario(x, link_split, evs))
        })
    };
    let ex = run_exec(vec![], &RunCfg::none(), &scen);
    let mut out = HistOut::default();
    let (mut held, mut multi) = (0, 0);
    match ex.out {
        Some(o) => {
            out.executed = o.executed;
            out.fails = o.fails.into_iter().map(|(s, d)| (s, format!("initial next-outgoing-id {x}{}: {d}", if link_split { ", sender max-message-size 200" } else { "" }))).collect();
            out.state_keys = o.state_keys;
            out.trace = o.trace;
            out.machinery = o.machinery;
            held = o.held_back_steps;
            multi = o.multi_frame;
        }
        None => {
            out.executed = evs.len();
            out.machinery = Some(format!("scenario died: panics {:?} watchdog {}", ex.panics, ex.watchdog));
        }
    }
    if ex.spun {
        out.machinery = Some("busy loop (spin) detected".into());
    }
    (out, held, multi)
}


// ---------------------------------------------------------------------------------------------------------
// Part T: the receiving side with transactions.  A transactional post is a transfer frame like any other for
// clause 3 ("next-incoming-id advances once per frame received"); on a listener that supports transactions
// the posts take a different path through the session (they are held back until the discharge).  The scripted
// client of C18 (series S2) is reused with a session probe: after every event it asks for the session state
// and the listener's answer must report next-incoming-id = number of transfer frames the client has sent.

const T_ALPHABET: [crate::c18::common::Ev; 7] = [
    crate::c18::common::Ev::Declare,
    crate::c18::common::Ev::Post { link: 1, txn: 1 },
    crate::c18::common::Ev::Post { link: 2, txn: 1 },
    crate::c18::common::Ev::Post { link: 1, txn: 0 },
    crate::c18::common::Ev::Commit(1),
    crate::c18::common::Ev::Rollback(1),
    crate::c18::common::Ev::Post { link: 2, txn: 0 },
];

fn run_txn_history(h: &[usize]) -> HistOut {
    let evs: Vec<crate::c18::common::Ev> = h.iter().map(|i| T_ALPHABET[*i]).collect();
    let scen: Scenario<crate::c18::Obs> = {
        let evs = evs.clone();
        Arc::new(move || Box::pin(crate::c18::s2::scenario_probed(evs.clone(), false, true)))
    };
    let ex = run_exec(vec![], &RunCfg::none(), &scen);
    let mut out = HistOut::default();
    match ex.out {
        None => {
            out.executed = h.len();
            out.machinery = Some(format!("part T: scenario died (watchdog={}) panics {:?}", ex.watchdog, ex.panics));
        }
        Some(o) => {
            out.executed = o.executed;
            out.trace = o.trace.clone();
            out.machinery = o.machinery.clone();
            // the C18 verdicts of this scenario are C18's business; only the session accounting is judged here
            let mut key = vec![];
            for (i, name, answer, sent) in &o.session_probes {
                key.push((*sent, answer.map(|a| a.unwrap_or(u32::MAX))));
                match answer {
                    None => {
                        // echo is a SHOULD: no answer, nothing to judge (counted, so that the part cannot go vacuous)
                        continue;
                    }
                    Some(n) if *n != Some(*sent) => {
                        let posts = o.txn_posts;
                        out.fails.push((
                            "reported-next-incoming-id (transactional posts on a listener)".into(),
                            format!(
                                "after event {} ({name}) the listener reports next-incoming-id {:?}; the client started at 0 and has sent {sent} transfer frames ({posts} transactional posts so far in this history)",
                                i + 1,
                                n
                            ),
                        ));
                        break;
                    }
                    _ => {}
                }
            }
            out.state_keys = (0..=o.executed).map(|k| vlib::util::h64(&(k.min(key.len()), key.iter().take(k).collect::<Vec<_>>()))).collect();
        }
    }
    out
}

// ---------------------------------------------------------------------------------------------------------
// Part L: a teardown behind transfers that wait for the window.  The peer's incoming-window is 2; the
// application sends 2 + k pre-settled messages (every send() returns Ok: k of them are held back by the
// session) and then closes / detaches / drops the link or ends / drops the session.  The peer reopens its
// window afterwards.  "Transfers that must wait for the window are neither dropped ... and every one of them
// is sent once the peer reopens the window": every message whose send() returned Ok has to reach the wire, in
// order, and before the detach of its link / the end of its session.

#[derive(Debug, Clone, Copy, PartialEq, Eq, Hash)]
pub enum Teardown {
    CloseLink,
    DetachLink,
    DropLink,
    EndSession,
    DropSession,
}
pub const TEARDOWNS: [Teardown; 5] = [Teardown::CloseLink, Teardown::DetachLink, Teardown::DropLink, Teardown::EndSession, Teardown::DropSession];

pub async fn teardown_scenario(td: Teardown, k: usize) -> (Vec<(String, String)>, Vec<String>, Option<String>) {
    let mut fails = vec![];
    let mut auto = Auto::default();
    auto.max_frame_size = 512;
    auto.incoming_window = 2;
    auto.outgoing_window = 1000;
    auto.grant_credit = Some(100_000);
    let mut c = match scen::open_client(auto, 512).await {
        Ok(c) => c,
        Err(e) => return (fails, vec![], Some(e)),
    };
    let mut session = match scen::begin(&mut c, Session::builder()).await {
        Ok(s) => s,
        Err(e) => return (fails, vec![], Some(e)),
    };
    let mut sender = match drive(&mut c.peer, Sender::builder().name("s1").target("q").sender_settle_mode(SenderSettleMode::Settled).attach(&mut session), scen::H).await {
        Some(Ok(s)) => s,
        _ => return (fails, vec![], Some("part L: attach failed".into())),
    };
    let lib_handle = c.peer.links.last().map(|l| l.lib_handle).unwrap_or(0);
    settle(&mut c.peer, 2).await;
    let total = 2 + k;
    let mut ok_sends = 0usize;
    for i in 0..total {
        match drive(&mut c.peer, sender.send(format!("m{i}")), scen::H).await {
            Some(Ok(_)) => ok_sends += 1,
            Some(Err(e)) => return (fails, trace_to_strings(&c.peer.trace), Some(format!("part L: send {i} failed: {e}"))),
            None => break, // a send that waits for the window is fine; it just was not accepted yet
        }
    }
    settle(&mut c.peer, 2).await;
    let on_wire_before = lib_transfer_frames(&c.peer.trace, lib_handle).len();
    if on_wire_before != 2 {
        return (fails, trace_to_strings(&c.peer.trace), Some(format!("part L: {on_wire_before} transfers on the wire with a window of 2 (expected 2)")));
    }
    // the teardown runs as a task: it may rightly have to wait until the window reopens
    let task = tokio::spawn(async move {
        match td {
            Teardown::CloseLink => format!("{:?}", sender.close().await.map_err(|e| e.to_string())),
            Teardown::DetachLink => format!("{:?}", sender.detach().await.map(|_| ()).map_err(|(_, e)| e.to_string())),
            Teardown::DropLink => {
                drop(sender);
                "dropped".to_string()
            }
            Teardown::EndSession => {
                let r = format!("{:?}", session.end().await.map_err(|e| e.to_string()));
                drop(sender);
                r
            }
            Teardown::DropSession => {
                drop(session);
                drop(sender);
                "dropped".to_string()
            }
        }
    });
    settle(&mut c.peer, 4).await;
    // the peer reopens its window (it has received what it has received)
    let mut f = c.peer.flow_for(0);
    f.incoming_window = 10_000;
    c.peer.send(0, Performative::Flow(f));
    settle(&mut c.peer, 6).await;
    let teardown_result = if task.is_finished() { task.await.unwrap_or_else(|e| format!("task died: {e}")) } else { "still pending".to_string() };
    // what reached the wire, in order
    let mut bodies: Vec<String> = vec![];
    let mut after_teardown = 0usize;
    let mut torn = false;
    for w in c.peer.trace.iter().filter(|w| w.dir == Dirn::FromLib) {
        match &w.body {
            Body::Perf(Performative::Transfer(t)) if t.handle.0 == lib_handle => {
                if torn {
                    after_teardown += 1;
                }
                bodies.push(String::from_utf8_lossy(&w.payload).chars().filter(|ch| ch.is_ascii_alphanumeric()).collect::<String>());
            }
            Body::Perf(Performative::Detach(d)) if d.handle.0 == lib_handle => torn = true,
            Body::Perf(Performative::End(_)) => torn = true,
            _ => {}
        }
    }
    let arrived = bodies.len() - after_teardown;
    let what = format!("{:?} with {k} transfer(s) held back by the session window (peer's incoming-window 2, {ok_sends} pre-settled sends returned Ok; teardown -> {teardown_result})", td);
    if after_teardown > 0 {
        fails.push((
            format!("transfer-after-teardown ({:?} overtook transfers held back by the window)", td),
            format!("{what}: {after_teardown} transfer frame(s) of the link were written AFTER its detach / the session's end"),
        ));
    }
    if arrived < ok_sends {
        fails.push((
            format!("message-lost ({:?} overtook transfers held back by the window)", td),
            format!("{what}: only {arrived} of the {ok_sends} messages whose send() returned Ok were written before the detach / end, although the peer reopened its window; bodies on the wire {:?}", bodies),
        ));
    }
    (fails, trace_to_strings(&c.peer.trace), None)
}

fn part_l(out: &mut Outcome) -> u64 {
    let mut n = 0;
    for td in TEARDOWNS {
        for k in 1..=3usize {
            let scen: Scenario<(Vec<(String, String)>, Vec<String>, Option<String>)> = Arc::new(move || Box::pin(teardown_scenario(td, k)));
            let ex = run_exec(vec![], &RunCfg::none(), &scen);
            n += 1;
            match ex.out {
                Some((fails, trace, mach)) => {
                    if let Some(m) = mach {
                        out.machinery_errors.push(m);
                    }
                    for (s, d) in fails {
                        out.violation(s, d, json!({"part": "L", "teardown": format!("{:?}", td), "k": k, "trace": trace}));
                    }
                }
                None => out.machinery_errors.push(format!("part L {td:?} k={k} died: {:?}", ex.panics)),
            }
        }
    }
    n
}

pub fn run(ctx: &Ctx) -> Outcome {
    let mut out = Outcome::new("model_checking");
    if let Some(p) = &ctx.replay {
        return replay(p, out);
    }
    let depth = if ctx.quick() { 5 } else { 6 };
    let deadline = Instant::now() + Duration::from_secs_f64(ctx.budget_s);
    let xs: Vec<u32> = if ctx.quick() { vec![0, u32::MAX - 1, u32::MAX] } else { vec![0, u32::MAX - 2, u32::MAX - 1, u32::MAX] };
    let (mut states, mut transitions, mut executions) = (0, 0, 0);
    let mut truncated = false;
    let mut samples = vec![];
    let held = std::sync::atomic::AtomicUsize::new(0);
    let multi = std::sync::atomic::AtomicUsize::new(0);
    // thorough: after the stated bound, one level deeper on the two main start values for as long as the budget
    // lasts (reported separately; a cut there does not make the stated bound incomplete)
    let mut plan: Vec<(u32, usize, bool, bool)> = xs.iter().map(|x| (*x, depth, false, false)).collect();
    // the link splits the big message (sender max-message-size 200): the session counts every frame itself
    plan.push((0, depth, false, true));
    plan.push((u32::MAX - 1, depth, false, true));
    if !ctx.quick() {
        plan.push((0, depth + 1, true, false));
        plan.push((u32::MAX - 1, depth + 1, true, false));
    }
    let mut extra_note = String::new();
    for (x, depth, extra, link_split) in plan {
        if extra && (truncated || Instant::now() > deadline) {
            continue;
        }
        let st = search(ALPHABET.len(), depth, ctx.threads, deadline, |h| {
            let (o, hb, m) = run_history(x, link_split, h.iter().map(|i| ALPHABET[*i]).collect());
            held.fetch_add(hb, std::sync::atomic::Ordering::Relaxed);
            multi.fetch_add(m, std::sync::atomic::Ordering::Relaxed);
            o
        });
        executions += st.executions;
        if extra {
            extra_note += &format!("; additionally depth {depth} from next-outgoing-id {x}: {} executions, {}", st.executions, if st.truncated { "CUT by the budget" } else { "complete" });
        } else {
            states += st.distinct_states;
            transitions += st.distinct_transitions;
            truncated |= st.truncated;
        }
        for m in st.machinery {
            out.machinery_errors.push(m);
        }
        for (h, sig, detail, trace) in st.violations {
            let evs: Vec<String> = h.iter().map(|i| format!("{:?}", ALPHABET[*i])).collect();
            out.violation(sig, format!("history {:?}: {detail}", evs), json!({"x": x, "link_split": link_split, "events": h, "event_names": evs, "trace": trace}));
        }
        if samples.len() < 2 {
            samples.extend(st.sample_traces.into_iter().take(1));
        }
    }
    // ---- part T
    let t_depth = if ctx.quick() { 4 } else { 5 };
    let st = search(T_ALPHABET.len(), t_depth, ctx.threads, deadline + Duration::from_secs(120), run_txn_history);
    executions += st.executions;
    truncated |= st.truncated;
    for m in st.machinery {
        out.machinery_errors.push(m);
    }
    for (h, sig, detail, trace) in st.violations {
        let evs: Vec<String> = h.iter().map(|i| crate::c18::common::ev_name(crate::c18::common::Series::S2, T_ALPHABET[*i])).collect();
        out.violation(sig, format!("history {:?}: {detail}", evs), json!({"part": "T", "events": h, "event_names": evs, "trace": trace}));
    }
    out.set("txn_listener_histories_executed", st.executions);
    let n_l = part_l(&mut out);
    out.set("teardown_behind_parked_transfers_cases", n_l);
    // ---- part U: the LISTENER side (scripted client, link flows for a handle the application has not accepted yet)
    let (u_exec, u_states) = crate::c07_lsn::part_u(ctx, deadline + Duration::from_secs(120), &mut out);
    executions += u_exec;
    states += u_states;
    transitions += crate::c07_lsn::last_transitions();
    truncated |= out.coverage.get("listener_side_complete") == Some(&json!(false));
    let t_note = format!("; part T (listener with transactions, scripted client): histories of depth {t_depth} over {} events, the session state probed after every event", T_ALPHABET.len());
    out.set("states", states.max(1));
    out.set("transitions", transitions.max(1));
    out.set("traces_validated_against_impl", executions);
    out.set("steps_with_transfers_held_back", held.load(std::sync::atomic::Ordering::Relaxed) as u64);
    out.set("steps_with_multi_frame_deliveries", multi.load(std::sync::atomic::Ordering::Relaxed) as u64);
    out.set("samples", json!(samples));
    out.set("exhaustive", !truncated);
    out.set("bound", format!("histories of depth {depth} over {} events x initial next-outgoing-ids {:?}(+ the same depth from 0 and 4294967294 with the sender's max-message-size 200: the link, not the transport, splits the big message); peer's initial incoming-window 2; every history ends with the window reopened to 10000{extra_note}{t_note}", ALPHABET.len(), xs));
    out.set("rule", "states = distinct (transfer frames sent, window left, messages waiting, transfers received) at quiescence; every state reached by executing the real session, link and connection engines against the scripted peer");
    out.assume("the scripted peer acts at quiescent points; a frame is judged against the last flow (or the begin) the peer sent before the step in which the frame was written");
    out
}

fn replay(p: &std::path::Path, mut out: Outcome) -> Outcome {
    let s = std::fs::read_to_string(p).unwrap_or_default();
    let j: serde_json::Value = serde_json::from_str(&s).unwrap_or_default();
    let r = &j["replay"];
    if crate::c07_lsn::replay(r, &mut out) {
        return out;
    }
    if r["part"] == "T" {
        let h: Vec<usize> = r["events"].as_array().map(|a| a.iter().filter_map(|v| v.as_u64()).map(|i| i as usize % T_ALPHABET.len()).collect()).unwrap_or_default();
        let o = run_txn_history(&h);
        for l in &o.trace {
            println!("  {l}");
        }
        if let Some(m) = o.machinery {
            out.machinery_errors.push(m);
        }
        for (s, d) in o.fails {
            println!("  FAIL {s}: {d}");
            out.violation(s, d, r.clone());
        }
        out.set("states", 1);
        out.set("transitions", 1);
        out.set("traces_validated_against_impl", 1);
        return out;
    }
    let x = r["x"].as_u64().unwrap_or(0) as u32;
    let evs: Vec<Ev> = r["events"].as_array().map(|a| a.iter().filter_map(|v| v.as_u64()).map(|i| ALPHABET[i as usize]).collect()).unwrap_or_default();
    println!("replaying x={x} {:?}", evs);
    let (o, _, _) = run_history(x, r["link_split"].as_bool().unwrap_or(false), evs);
    for l in &o.trace {
        println!("  {l}");
    }
    for (s, d) in o.fails {
        println!("  FAIL {s}: {d}");
        out.violation(s, d, r.clone());
    }
    out.set("states", 1);
    out.set("transitions", 1);
    out.set("traces_validated_against_impl", 1);
    out.set("samples", json!([r]));
    out
}
