//! C11 - identifiers: increasing delivery-ids, unique handles/channels, correct routing.
//!
//! Part A: exhaustive search over histories of begin/end, attach/detach/close/drop, send (1 frame,
//! transport-split, link-split) and peer transfers, executed on the real client stack (Connection, up to
//! 2 Sessions, up to 3 links per session) against the scripted peer.  The PEER's channel and handle
//! numbers are deliberately different from the library's (channel + 1000, handle + 70000; delivery-ids
//! from 5000) so that any mix-up between local and remote identifiers shows.
//! Part B (`c11_listener.rs`): scripted client against the real listener, where the peer picks sparse,
//! large and reused channel and handle numbers.
//! Part C (`c11_interleave.rs`): two or three sender links of one session send AT THE SAME TIME from tasks of
//! their own, so that the frames of two link-split deliveries alternate on the wire (grid of queue sizes and
//! message sizes + all task schedules within a deviation bound); judged by the same wire monitor.
//!
//! Oracle (the statement's words, nothing stricter), all judged on what the scripted peer reads:
//!  * delivery-ids of a session strictly increase in send order in serial-number arithmetic and are never
//!    reused; all frames of one delivery (a run of transfers on one link up to the frame with more=false)
//!    carry the same delivery-id or none;
//!  * no two attached links of a session share a handle, no two begun sessions share a channel, a link name
//!    is attached at most once per session at a time, a handle/channel is reused only after the previous
//!    holder's detach/end.  PERMISSIVE READING: "detached"/"ended" = the library's own detach/end frame
//!    for that holder has been written (the peer's answer is not waited for);
//!  * every message the peer sends to (its) handle h on (its) channel c is returned by `recv()` of the
//!    Receiver that was attached with that handle, exactly once, and by no other Receiver.
#[path = "c11_listener.rs"]
mod listener;
#[path = "c11_interleave.rs"]
mod interleave;

use fe2o3_amqp::connection::ConnectionHandle;
use fe2o3_amqp::session::SessionHandle;
use fe2o3_amqp::{Connection, Receiver, Sender, Session};
use fe2o3_amqp_types::definitions::Handle;
use fe2o3_amqp_types::performatives::*;
use serde_json::json;
use std::collections::{BTreeMap, BTreeSet, HashSet};
use std::sync::{Arc, Mutex, OnceLock};
use std::time::{Duration, Instant};
use vlib::history::{search, HistOut};
use vlib::peer::{drive, settle, Auto, Body, Dirn, Peer, WFrame};
use vlib::report::{Ctx, Outcome};
use vlib::runner::{run_exec, RunCfg, Scenario};
use vlib::util::h64;
use vlib::vpipe::Pipe;

pub const CH_OFF: u16 = 1000;
pub const H_OFF: u32 = 70_000;
pub const MAX_FRAME: u32 = 512;
const MAX_SESS: usize = 2;
const MAX_LINKS: usize = 3;

// ------------------------------------------------------------------------------------------- alphabet

#[derive(Debug, Clone, Copy, PartialEq, Eq, Hash)]
pub enum Msg {
    /// fits one frame
    One,
    /// body > max-frame-size: the transport splits (on a link with max-message-size the link splits first)
    Transport,
    /// body > the link's max-message-size: the link layer splits (only enabled on links that have one)
    Link,
}

#[derive(Debug, Clone, Copy, PartialEq, Eq, Hash)]
pub enum Ev {
    Begin,
    End(u8),
    /// attach on session slot s: sender?/receiver, name 0 = "a", 2 = "c" (no max-message-size), 1 = "b" (max-message-size)
    Attach { s: u8, sender: bool, name: u8 },
    Detach(u8, u8),
    Close(u8, u8),
    Drop(u8, u8),
    Send(u8, u8, Msg),
    PeerXfer(u8, u8),
}

pub fn alphabet() -> &'static Vec<Ev> {
    static A: OnceLock<Vec<Ev>> = OnceLock::new();
    A.get_or_init(|| {
        let mut v = vec![Ev::Begin];
        for s in 0..MAX_SESS as u8 {
            v.push(Ev::End(s));
        }
        for s in 0..MAX_SESS as u8 {
            for sender in [true, false] {
                for name in 0..3u8 {
                    v.push(Ev::Attach { s, sender, name });
                }
            }
        }
        for s in 0..MAX_SESS as u8 {
            for l in 0..MAX_LINKS as u8 {
                v.push(Ev::Detach(s, l));
                v.push(Ev::Close(s, l));
                v.push(Ev::Drop(s, l));
                v.push(Ev::Send(s, l, Msg::One));
                v.push(Ev::Send(s, l, Msg::Transport));
                v.push(Ev::Send(s, l, Msg::Link));
                v.push(Ev::PeerXfer(s, l));
            }
        }
        v
    })
}

#[derive(Debug, Clone, Copy, PartialEq, Eq, Hash)]
pub struct Cfg {
    pub id: &'static str,
    /// next-outgoing-id every session starts with
    pub noi: u32,
    /// max-message-size of links named "b" (links named "a" have none)
    pub mms_b: u64,
    /// the peer's channel for the library's channel c is c + ch_off, its handle for handle h is h + h_off
    pub ch_off: u16,
    pub h_off: u32,
}
pub const CFGS: [Cfg; 4] = [
    // link-split pieces fit a frame: pure link-level splitting on 'b' links, pure transport splitting on 'a'/'c'
    Cfg { id: "plain", noi: 0, mms_b: 200, ch_off: CH_OFF, h_off: H_OFF },
    // link-split pieces are themselves larger than a frame: both layers split one delivery
    Cfg { id: "bigmms", noi: 0, mms_b: 600, ch_off: CH_OFF, h_off: H_OFF },
    // delivery-ids start just below the wrap-around
    Cfg { id: "wrap", noi: u32::MAX - 1, mms_b: 200, ch_off: CH_OFF, h_off: H_OFF },
    // the peer's numbers OVERLAP the library's (its channel/handle k is the library's k-1): a table indexed with
    // the wrong side's number hits a live neighbour instead of nothing
    Cfg { id: "shift1", noi: 0, mms_b: 200, ch_off: 1, h_off: 1 },
];

fn link_name(n: u8) -> &'static str {
    match n {
        0 => "a",
        1 => "b",
        _ => "c",
    }
}

// ------------------------------------------------------------------------------ model of the harness state
// Which handles the HARNESS holds (not what the library does): decides which events are enabled.

#[derive(Debug, Clone, Copy, PartialEq, Eq, Hash)]
pub struct MLink {
    pub name: u8,
    pub sender: bool,
}
#[derive(Debug, Clone, Default, PartialEq, Eq, Hash)]
pub struct MSess {
    pub links: [Option<MLink>; MAX_LINKS],
}
#[derive(Debug, Clone, Default, PartialEq, Eq, Hash)]
pub struct Model {
    pub sess: [Option<MSess>; MAX_SESS],
}

impl Model {
    pub fn initial() -> Model {
        let mut m = Model::default();
        m.sess[0] = Some(MSess::default());
        m
    }
    fn link(&self, s: u8, l: u8) -> Option<MLink> {
        self.sess.get(s as usize)?.as_ref()?.links.get(l as usize).copied().flatten()
    }
    pub fn enabled(&self, ev: Ev) -> bool {
        match ev {
            Ev::Begin => self.sess.iter().any(|s| s.is_none()),
            Ev::End(s) => self.sess[s as usize].is_some(),
            Ev::Attach { s, .. } => self.sess[s as usize].as_ref().is_some_and(|x| x.links.iter().any(|l| l.is_none())),
            Ev::Detach(s, l) | Ev::Close(s, l) | Ev::Drop(s, l) => self.link(s, l).is_some(),
            Ev::Send(s, l, m) => self.link(s, l).is_some_and(|k| k.sender && (m != Msg::Link || k.name == 1)),
            Ev::PeerXfer(s, l) => self.link(s, l).is_some_and(|k| !k.sender),
        }
    }
    /// is this attach a duplicate of a name the session has attached (must be refused locally)?
    pub fn is_dup(&self, ev: Ev) -> bool {
        match ev {
            Ev::Attach { s, name, .. } => self.sess[s as usize].as_ref().is_some_and(|x| x.links.iter().flatten().any(|l| l.name == name)),
            _ => false,
        }
    }
    /// apply the event assuming the library behaves (duplicate attach refused, everything else succeeds);
    /// returns the slot a begin / attach goes to
    pub fn apply(&mut self, ev: Ev) -> Option<usize> {
        match ev {
            Ev::Begin => {
                let i = self.sess.iter().position(|s| s.is_none())?;
                self.sess[i] = Some(MSess::default());
                Some(i)
            }
            Ev::End(s) => {
                self.sess[s as usize] = None;
                None
            }
            Ev::Attach { s, sender, name } => {
                if self.is_dup(ev) {
                    return None;
                }
                let x = self.sess[s as usize].as_mut()?;
                let i = x.links.iter().position(|l| l.is_none())?;
                x.links[i] = Some(MLink { name, sender });
                Some(i)
            }
            Ev::Detach(s, l) | Ev::Close(s, l) | Ev::Drop(s, l) => {
                if let Some(x) = self.sess[s as usize].as_mut() {
                    x.links[l as usize] = None;
                }
                None
            }
            Ev::Send(..) | Ev::PeerXfer(..) => None,
        }
    }
}

/// index of the first event that is not enabled (pure: no execution needed)
pub fn first_disabled(evs: &[Ev]) -> Option<usize> {
    let mut m = Model::initial();
    for (i, e) in evs.iter().enumerate() {
        if !m.enabled(*e) {
            return Some(i);
        }
        m.apply(*e);
    }
    None
}

// ------------------------------------------------------------------------------------------ wire monitor

#[derive(Debug, Clone, Default, PartialEq, Eq, Hash)]
pub struct Counters {
    pub deliveries: u64,
    pub multi_frame_deliveries: u64,
    pub link_split_deliveries: u64,
    pub transport_split_deliveries: u64,
    pub id_wraps: u64,
    pub handle_reuses: u64,
    pub channel_reuses: u64,
    pub name_reuses: u64,
    pub dup_attach_refused: u64,
    pub peer_msgs_routed: u64,
    pub max_links_attached: u64,
    pub two_sessions: u64,
    pub attaches: u64,
    pub begins: u64,
}
impl Counters {
    pub fn add(&mut self, o: &Counters) {
        self.deliveries += o.deliveries;
        self.multi_frame_deliveries += o.multi_frame_deliveries;
        self.link_split_deliveries += o.link_split_deliveries;
        self.transport_split_deliveries += o.transport_split_deliveries;
        self.id_wraps += o.id_wraps;
        self.handle_reuses += o.handle_reuses;
        self.channel_reuses += o.channel_reuses;
        self.name_reuses += o.name_reuses;
        self.dup_attach_refused += o.dup_attach_refused;
        self.peer_msgs_routed += o.peer_msgs_routed;
        self.max_links_attached = self.max_links_attached.max(o.max_links_attached);
        self.two_sessions += o.two_sessions;
        self.attaches += o.attaches;
        self.begins += o.begins;
    }
    pub fn to_json(&self) -> serde_json::Value {
        json!({
            "deliveries_on_wire": self.deliveries, "multi_frame_deliveries": self.multi_frame_deliveries,
            "link_split_deliveries": self.link_split_deliveries, "transport_split_deliveries": self.transport_split_deliveries,
            "delivery_id_wraparounds": self.id_wraps, "handle_reuses": self.handle_reuses, "channel_reuses": self.channel_reuses,
            "name_reuses_after_detach": self.name_reuses, "duplicate_attaches_refused": self.dup_attach_refused,
            "peer_messages_routed": self.peer_msgs_routed, "max_links_attached_at_once": self.max_links_attached,
            "histories_with_two_sessions_at_once": self.two_sessions, "attach_frames": self.attaches, "begin_frames": self.begins,
        })
    }
}

/// a > b in RFC 1982 serial-number arithmetic
pub fn serial_gt(a: u32, b: u32) -> bool {
    a != b && (a.wrapping_sub(b) as i32) > 0
}

#[derive(Debug, Clone, PartialEq, Eq, Hash)]
struct LinkMon {
    name: String,
}
#[derive(Debug, Clone, Default, PartialEq, Eq, Hash)]
struct Run {
    first_id: Option<u32>,
    first_tag: Option<Vec<u8>>,
    frames: usize,
}
#[derive(Debug, Clone, Default, PartialEq, Eq, Hash)]
struct ChanMon {
    links: BTreeMap<u32, LinkMon>,
    runs: BTreeMap<u32, Run>,
    last_id: Option<u32>,
    seen: BTreeSet<u32>,
    released_handles: BTreeSet<u32>,
    released_names: BTreeSet<String>,
}

/// Safety monitor over the frames the LIBRARY wrote (what a peer can see), fed in wire order.
#[derive(Debug, Clone, Default)]
pub struct WireMon {
    chans: BTreeMap<u16, ChanMon>,
    released_chans: BTreeSet<u16>,
    pub fails: Vec<(String, String)>,
    pub counters: Counters,
    /// what the harness is doing right now (goes into signatures of delivery-id failures)
    pub ctx: String,
    fed: usize,
}

impl WireMon {
    pub fn feed_all(&mut self, trace: &[WFrame]) {
        while self.fed < trace.len() {
            let w = &trace[self.fed];
            self.fed += 1;
            if w.dir == Dirn::FromLib {
                self.feed(w);
            }
        }
    }
    fn fail(&mut self, sig: impl Into<String>, detail: String) {
        self.fails.push((sig.into(), detail));
    }
    pub fn key(&self) -> u64 {
        h64(&(&self.chans, self.fails.iter().map(|f| &f.0).collect::<BTreeSet<_>>()))
    }
    /// The scripted peer only ever names channels it has mapped and handles it has attached.  If the library
    /// nevertheless closes / ends / detaches with "no such identifier", an incoming frame did not reach the
    /// session or link its channel or handle designates.
    fn check_unknown_identifier(&mut self, w: &WFrame, err: &Option<fe2o3_amqp_types::definitions::Error>) {
        let Some(e) = err else { return };
        let c = format!("{:?}", e.condition);
        for (pat, name) in [("NotFound", "not-found"), ("UnattachedHandle", "unattached-handle"), ("HandleInUse", "handle-in-use"), ("ErrantLink", "errant-link")] {
            if c.contains(pat) {
                self.fail(
                    format!("library-reports-unknown-identifier [{name}]"),
                    format!("frame #{}: the peer only used channels it had begun and handles it had attached, but the library reports {c} ({:?}): {}", w.seq, e.description, w.short()),
                );
            }
        }
    }
    fn feed(&mut self, w: &WFrame) {
        let ch = w.channel;
        let Body::Perf(p) = &w.body else { return };
        match p {
            Performative::Close(x) => self.check_unknown_identifier(w, &x.error),
            Performative::End(x) => self.check_unknown_identifier(w, &x.error),
            Performative::Detach(x) => self.check_unknown_identifier(w, &x.error),
            _ => {}
        }
        match p {
            Performative::Begin(_) => {
                self.counters.begins += 1;
                if self.chans.contains_key(&ch) {
                    // the previous holder of this channel has not sent its end
                    self.fail("channel-shared", format!("frame #{}: begin on channel {ch} while the session that holds channel {ch} has not ended ({})", w.seq, w.short()));
                }
                if self.released_chans.remove(&ch) {
                    self.counters.channel_reuses += 1;
                }
                self.chans.insert(ch, ChanMon::default());
                if self.chans.len() >= 2 {
                    self.counters.two_sessions += 1;
                }
            }
            Performative::End(_) => {
                if self.chans.remove(&ch).is_some() {
                    self.released_chans.insert(ch);
                }
            }
            Performative::Close(_) => {
                self.chans.clear();
            }
            Performative::Attach(a) => {
                self.counters.attaches += 1;
                let short = w.short();
                let Some(c) = self.chans.get_mut(&ch) else { return };
                let mut f = vec![];
                if let Some(holder) = c.links.get(&a.handle.0) {
                    f.push(("handle-shared", format!("frame #{}: attach of link '{}' with handle {} on channel {ch} while link '{}' is attached with that handle ({short})", w.seq, a.name, a.handle.0, holder.name)));
                }
                if let Some((h, _)) = c.links.iter().find(|(h, l)| l.name == a.name && **h != a.handle.0) {
                    f.push(("name-attached-twice", format!("frame #{}: attach of link name '{}' (handle {}) on channel {ch} while a link of that name is attached with handle {h} ({short})", w.seq, a.name, a.handle.0)));
                } else if c.links.get(&a.handle.0).is_some_and(|l| l.name == a.name) {
                    f.push(("name-attached-twice", format!("frame #{}: second attach of link name '{}' with handle {} on channel {ch} without a detach in between ({short})", w.seq, a.name, a.handle.0)));
                }
                if c.released_handles.remove(&a.handle.0) {
                    self.counters.handle_reuses += 1;
                }
                if c.released_names.remove(&a.name) {
                    self.counters.name_reuses += 1;
                }
                c.links.insert(a.handle.0, LinkMon { name: a.name.clone() });
                self.counters.max_links_attached = self.counters.max_links_attached.max(c.links.len() as u64);
                for (s, d) in f {
                    self.fail(s, d);
                }
            }
            Performative::Detach(d) => {
                if let Some(c) = self.chans.get_mut(&ch) {
                    if let Some(l) = c.links.remove(&d.handle.0) {
                        c.released_handles.insert(d.handle.0);
                        c.released_names.insert(l.name);
                    }
                    c.runs.remove(&d.handle.0);
                }
            }
            Performative::Transfer(t) => {
                let short = w.short();
                let ctx = self.ctx.clone();
                let Some(c) = self.chans.get_mut(&ch) else { return };
                let mut f = vec![];
                let run = c.runs.entry(t.handle.0).or_default();
                run.frames += 1;
                if run.frames == 1 {
                    run.first_tag = t.delivery_tag.as_ref().map(|t| t.to_vec());
                }
                if let Some(id) = t.delivery_id {
                    match run.first_id {
                        None => {
                            run.first_id = Some(id);
                            // a new delivery enters the session's sequence
                            if c.seen.contains(&id) {
                                f.push(("delivery-id-reused".to_string(), format!("frame #{}: delivery-id {id} on channel {ch} was already used by an earlier delivery of this session ({short})", w.seq)));
                            } else if let Some(prev) = c.last_id {
                                if !serial_gt(id, prev) {
                                    f.push(("delivery-id-not-increasing".to_string(), format!("frame #{}: delivery-id {id} follows {prev} on channel {ch}: not greater in serial-number arithmetic ({short})", w.seq)));
                                } else if id < prev {
                                    self.counters.id_wraps += 1;
                                }
                            }
                            c.seen.insert(id);
                            c.last_id = Some(id);
                        }
                        Some(first) if first != id => {
                            // shape of the offending frame (no magnitudes): does the continuation carry a delivery-tag again?
                            let shape = match (&t.delivery_tag, &run.first_tag) {
                                (Some(a), Some(b)) if a.as_slice() == b.as_slice() => "continuation-carries-the-tag-again",
                                (Some(_), _) => "continuation-carries-another-tag",
                                (None, _) => "continuation-without-tag",
                            };
                            f.push((
                                format!("delivery-ids-differ-within-delivery [{shape}]"),
                                format!("frame #{}: frame {} of one delivery on channel {ch} handle {} carries delivery-id {id}, its first frame carried {first} (during a {ctx} send; {short})", w.seq, run.frames, t.handle.0),
                            ));
                            // keep the session sequence going from the larger id so that one defect is reported once
                            c.seen.insert(id);
                            if c.last_id.is_none_or(|p| serial_gt(id, p)) {
                                c.last_id = Some(id);
                            }
                        }
                        Some(_) => {}
                    }
                }
                if !t.more {
                    let run = c.runs.remove(&t.handle.0).unwrap_or_default();
                    self.counters.deliveries += 1;
                    if run.frames > 1 {
                        self.counters.multi_frame_deliveries += 1;
                        if ctx.contains("link") {
                            self.counters.link_split_deliveries += 1;
                        } else if ctx.contains("transport") {
                            self.counters.transport_split_deliveries += 1;
                        }
                    }
                }
                for (s, d) in f {
                    self.fail(s, d);
                }
            }
            _ => {}
        }
    }
}

// --------------------------------------------------------------------------------------------- scenario

enum RLink {
    S(Sender),
    R(Receiver),
}
struct RealLink {
    link: RLink,
    lib_handle: u32,
    name: u8,
}
struct RealSess {
    h: SessionHandle<()>,
    chan: u16,
    links: [Option<RealLink>; MAX_LINKS],
}

#[derive(Debug, Clone, Default)]
pub struct Obs {
    pub executed: usize,
    /// (signature, detail, index of the event during which it was observed)
    pub fails: Vec<(String, String, usize)>,
    pub state_keys: Vec<u64>,
    pub trace: Vec<String>,
    /// behaviour of the subject that C11 does not judge (unexpected API errors / calls that stay pending)
    pub anomalies: Vec<String>,
    pub counters: Counters,
    pub machinery: Option<String>,
}

/// AMQP message with a single amqp-value section holding a string (hand-encoded: the peer does not use the
/// library's message encoder)
pub fn encode_string_message(body: &str) -> Vec<u8> {
    let mut v = vec![0x00, 0x53, 0x77];
    let b = body.as_bytes();
    if b.len() < 256 {
        v.push(0xa1);
        v.push(b.len() as u8);
    } else {
        v.push(0xb1);
        v.extend_from_slice(&(b.len() as u32).to_be_bytes());
    }
    v.extend_from_slice(b);
    v
}

pub fn padded_body(tag: &str, len: usize) -> String {
    let mut s = String::from(tag);
    while s.len() < len {
        s.push('.');
    }
    s
}

fn new_lib_frame<'a>(peer: &'a Peer, mark: usize, pred: impl Fn(&Performative) -> bool) -> Option<&'a WFrame> {
    peer.trace[mark..].iter().find(|w| w.dir == Dirn::FromLib && w.perf().is_some_and(&pred))
}

const HZ: Duration = Duration::from_millis(40);

/// Err((text, peer_answered)): `peer_answered` = the call failed or stayed pending although the peer's begin (sent
/// on the PEER's channel, naming the library's channel as remote-channel) is on the wire
async fn do_begin(peer: &mut Peer, conn: &mut ConnectionHandle<()>, cfg: Cfg) -> Result<(SessionHandle<()>, u16), (String, bool)> {
    let mark = peer.trace.len();
    let r = drive(peer, Session::builder().next_outgoing_id(cfg.noi).begin(conn), HZ).await;
    match r {
        Some(Ok(h)) => match new_lib_frame(peer, mark, |p| matches!(p, Performative::Begin(_))) {
            Some(w) => Ok((h, w.channel)),
            None => Err(("begin returned Ok but no begin frame was written".into(), false)),
        },
        other => {
            let answered = peer.trace[mark..].iter().any(|w| w.dir == Dirn::FromPeer && matches!(w.perf(), Some(Performative::Begin(_))));
            match other {
                Some(Err(e)) => Err((format!("begin failed: {e}"), answered)),
                _ => Err(("begin still pending at the horizon".into(), answered)),
            }
        }
    }
}

const SIG_BEGIN_LOST: &str = "begin-reply-not-delivered";
const SIG_ATTACH_LOST: &str = "attach-reply-not-delivered";

pub async fn scenario(cfg: Cfg, evs: Vec<Ev>) -> Obs {
    let mut obs = Obs::default();
    let (pipe, a, _b) = Pipe::new();
    let mut auto = Auto::default();
    auto.channel_offset = cfg.ch_off;
    auto.handle_offset = cfg.h_off;
    auto.max_frame_size = MAX_FRAME;
    auto.channel_max = 2000; // the peer's own channel numbers (1000, 1001) must be <= what both sides announce
    auto.grant_credit = Some(100);
    auto.accept_transfers = true;
    auto.next_outgoing_id = 5000;
    auto.initial_delivery_count = 77;
    let mut peer = Peer::new(pipe.clone(), 1, auto);
    let mut mon = WireMon::default();
    let opened = drive(&mut peer, Connection::builder().container_id("lib").max_frame_size(MAX_FRAME).channel_max(2000).open_with_stream(a), HZ).await;
    let mut conn = match opened {
        Some(Ok(c)) => c,
        other => {
            obs.machinery = Some(format!("cannot open the connection: {:?}", other.map(|r| r.map(|_| ()).map_err(|e| e.to_string()))));
            return obs;
        }
    };
    let mut sess: [Option<RealSess>; MAX_SESS] = [None, None];
    match do_begin(&mut peer, &mut conn, cfg).await {
        Ok((h, chan)) => sess[0] = Some(RealSess { h, chan, links: [None, None, None] }),
        Err((e, answered)) => {
            if answered {
                // the peer's begin did not reach the session its remote-channel designates
                obs.fails.push((SIG_BEGIN_LOST.into(), format!("setup: Session::begin did not succeed ({e}) although the peer answered on its channel {} naming the library's channel: {:?}", cfg.ch_off, vlib::peer::trace_to_strings(&peer.trace)), usize::MAX));
                obs.trace = vlib::peer::trace_to_strings(&peer.trace);
            } else {
                obs.machinery = Some(format!("cannot begin session 0: {e}"));
            }
            return obs;
        }
    }
    settle(&mut peer, 1).await;
    let mut model = Model::initial();
    let mut shown = 0usize;
    let mut msg_seq = 0u32;
    let flush = |obs: &mut Obs, peer: &Peer, shown: &mut usize| {
        for w in &peer.trace[*shown..] {
            obs.trace.push(format!("    {}", w.short()));
        }
        *shown = peer.trace.len();
    };
    mon.ctx = "setup".into();
    mon.feed_all(&peer.trace);
    obs.trace.push(format!("== setup cfg={} open + begin(session 0)", cfg.id));
    flush(&mut obs, &peer, &mut shown);
    obs.state_keys.push(h64(&(&model, mon.key())));
    let mut n_fail_seen = mon.fails.len();
    for f in mon.fails.iter() {
        obs.fails.push((f.0.clone(), f.1.clone(), 0));
    }

    for (i, ev) in evs.iter().copied().enumerate() {
        if !model.enabled(ev) {
            break;
        }
        let mark = peer.trace.len();
        let result: String;
        let mut diverged = false;
        mon.ctx = match ev {
            Ev::Send(_, _, Msg::One) => "one-frame".into(),
            Ev::Send(_, _, Msg::Transport) => "transport-split".into(),
            Ev::Send(_, _, Msg::Link) => "link-split".into(),
            _ => "other".into(),
        };
        let mut api_fails: Vec<(String, String)> = vec![];
        match ev {
            Ev::Begin => match do_begin(&mut peer, &mut conn, cfg).await {
                Ok((h, chan)) => {
                    let slot = model.apply(ev).unwrap();
                    sess[slot] = Some(RealSess { h, chan, links: [None, None, None] });
                    result = format!("ok slot {slot} channel {chan}");
                }
                Err((e, answered)) => {
                    if answered {
                        api_fails.push((SIG_BEGIN_LOST.into(), format!("Session::begin did not succeed ({e}) although the peer's begin (on the peer's own channel, remote-channel = the library's channel) is on the wire")));
                    } else {
                        obs.anomalies.push(format!("Begin: {e}"));
                    }
                    result = e;
                    diverged = true;
                }
            },
            Ev::End(s) => {
                let mut rs = sess[s as usize].take().unwrap();
                model.apply(ev);
                let r = drive(&mut peer, rs.h.end(), HZ).await;
                result = match r {
                    Some(Ok(())) => "ok".into(),
                    Some(Err(e)) => {
                        obs.anomalies.push(format!("End: error {e}"));
                        format!("err {e}")
                    }
                    None => {
                        obs.anomalies.push("End: still pending at the horizon".into());
                        "pending".into()
                    }
                };
                // the links of the ended session are dropped after the end
                drop(rs);
            }
            Ev::Attach { s, sender, name } => {
                let dup = model.is_dup(ev);
                let rs = sess[s as usize].as_mut().unwrap();
                let nm = link_name(name);
                let mms = if name == 1 { Some(cfg.mms_b) } else { None };
                let got: Result<RLink, String> = if sender {
                    let mut b = Sender::builder().name(nm).target(format!("q-{nm}"));
                    if let Some(m) = mms {
                        b = b.max_message_size(m);
                    }
                    match drive(&mut peer, b.attach(&mut rs.h), HZ).await {
                        Some(Ok(x)) => Ok(RLink::S(x)),
                        Some(Err(e)) => Err(format!("{e:?}")),
                        None => Err("pending".into()),
                    }
                } else {
                    let mut b = Receiver::builder().name(nm).source(format!("q-{nm}"));
                    if let Some(m) = mms {
                        b = b.max_message_size(m);
                    }
                    match drive(&mut peer, b.attach(&mut rs.h), HZ).await {
                        Some(Ok(x)) => Ok(RLink::R(x)),
                        Some(Err(e)) => Err(format!("{e:?}")),
                        None => Err("pending".into()),
                    }
                };
                let wire = new_lib_frame(&peer, mark, |p| matches!(p, Performative::Attach(_))).map(|w| match w.perf() {
                    Some(Performative::Attach(a)) => a.handle.0,
                    _ => unreachable!(),
                });
                match (got, dup) {
                    (Ok(link), false) => match wire {
                        Some(h) => {
                            let slot = model.apply(ev).unwrap();
                            rs.links[slot] = Some(RealLink { link, lib_handle: h, name });
                            result = format!("ok slot {slot} handle {h}");
                        }
                        None => {
                            obs.anomalies.push("Attach: returned Ok but no attach frame was written".into());
                            result = "ok without attach frame".into();
                            diverged = true;
                        }
                    },
                    (Err(e), true) => {
                        // refused locally: nothing must have gone on the wire (the wire monitor judges that)
                        obs.counters.dup_attach_refused += 1;
                        result = format!("refused: {}", e.chars().take(60).collect::<String>());
                    }
                    (Ok(link), true) => {
                        // the wire monitor reports the second attach; the history cannot be continued in the model
                        result = "DUPLICATE NAME ACCEPTED".into();
                        if wire.is_none() {
                            obs.anomalies.push("Attach with a duplicate name returned Ok without an attach frame".into());
                        }
                        drop(link);
                        diverged = true;
                    }
                    (Err(e), false) => {
                        let answered = peer.trace[mark..].iter().any(|w| w.dir == Dirn::FromPeer && matches!(w.perf(), Some(Performative::Attach(a)) if a.name == nm));
                        if answered {
                            // a conforming peer accepted the link: the attach can only fail if the answer did not get to the link
                            api_fails.push((SIG_ATTACH_LOST.into(), format!("attach of link '{nm}' did not succeed ({}) although the peer's attach (on the peer's channel, with the peer's handle) is on the wire", e.chars().take(80).collect::<String>())));
                        } else {
                            obs.anomalies.push(format!("Attach of a free name failed: {e}"));
                        }
                        result = format!("err {e}");
                        diverged = true;
                    }
                }
            }
            Ev::Detach(s, l) | Ev::Close(s, l) | Ev::Drop(s, l) => {
                let rl = sess[s as usize].as_mut().unwrap().links[l as usize].take().unwrap();
                model.apply(ev);
                let r: Option<Result<(), String>> = match (ev, rl.link) {
                    (Ev::Detach(..), RLink::S(x)) => drive(&mut peer, x.detach(), HZ).await.map(|r| r.map(|_| ()).map_err(|(_, e)| e.to_string())),
                    (Ev::Detach(..), RLink::R(x)) => drive(&mut peer, x.detach(), HZ).await.map(|r| r.map(|_| ()).map_err(|(_, e)| e.to_string())),
                    (Ev::Close(..), RLink::S(x)) => drive(&mut peer, x.close(), HZ).await.map(|r| r.map_err(|e| e.to_string())),
                    (Ev::Close(..), RLink::R(x)) => drive(&mut peer, x.close(), HZ).await.map(|r| r.map_err(|e| e.to_string())),
                    (_, x) => {
                        drop(x);
                        Some(Ok(()))
                    }
                };
                result = match r {
                    Some(Ok(())) => "ok".into(),
                    Some(Err(e)) => {
                        obs.anomalies.push(format!("{ev:?}: error {e}"));
                        format!("err {e}")
                    }
                    None => {
                        obs.anomalies.push(format!("{ev:?}: still pending at the horizon"));
                        "pending".into()
                    }
                };
            }
            Ev::Send(s, l, m) => {
                let rl = sess[s as usize].as_mut().unwrap().links[l as usize].as_mut().unwrap();
                let RLink::S(snd) = &mut rl.link else { unreachable!() };
                msg_seq += 1;
                let len = match m {
                    Msg::One => 24,
                    Msg::Transport => 1100,
                    Msg::Link => cfg.mms_b as usize + 100,
                };
                let body = padded_body(&format!("lib-msg-{msg_seq}:"), len);
                let r = drive(&mut peer, snd.send(body), HZ).await;
                result = match r {
                    Some(Ok(o)) => format!("outcome {:?}", o).chars().take(40).collect(),
                    Some(Err(e)) => {
                        obs.anomalies.push(format!("Send {m:?}: error {e}"));
                        format!("err {e}")
                    }
                    None => {
                        obs.anomalies.push(format!("Send {m:?}: still pending at the horizon"));
                        "pending".into()
                    }
                };
            }
            Ev::PeerXfer(s, l) => {
                let (chan, lib_handle) = {
                    let rs = sess[s as usize].as_ref().unwrap();
                    (rs.chan, rs.links[l as usize].as_ref().unwrap().lib_handle)
                };
                // the peer addresses the link by ITS OWN handle and channel
                let target = peer.links.iter().position(|pl| pl.lib_channel == chan && pl.lib_handle == lib_handle && !pl.detached && pl.credit > 0);
                match target {
                    None => {
                        obs.anomalies.push(format!("PeerXfer: the peer has no attached link with credit for channel {chan} handle {lib_handle}"));
                        result = "peer has no such link / no credit".into();
                    }
                    Some(pi) => {
                        msg_seq += 1;
                        let body = padded_body(&format!("peer-msg-{msg_seq}:"), 40);
                        let payload = encode_string_message(&body);
                        let our_handle = peer.links[pi].our_handle;
                        let och = peer.our_channel(chan);
                        let did = peer.sessions.get(&chan).map(|x| x.next_outgoing_id).unwrap_or(0);
                        let cut = payload.len() / 2;
                        let first = Transfer {
                            handle: Handle(our_handle),
                            delivery_id: Some(did),
                            delivery_tag: Some(serde_bytes::ByteBuf::from(format!("pt{msg_seq}").into_bytes())),
                            message_format: Some(0),
                            settled: Some(true),
                            more: true,
                            rcv_settle_mode: None,
                            state: None,
                            resume: false,
                            aborted: false,
                            batchable: false,
                        };
                        let second = Transfer {
                            handle: Handle(our_handle),
                            delivery_id: None,
                            delivery_tag: None,
                            message_format: None,
                            settled: None,
                            more: false,
                            rcv_settle_mode: None,
                            state: None,
                            resume: false,
                            aborted: false,
                            batchable: false,
                        };
                        peer.send_perf(och, Performative::Transfer(first), &payload[..cut]);
                        peer.send_perf(och, Performative::Transfer(second), &payload[cut..]);
                        peer.links[pi].delivery_count = peer.links[pi].delivery_count.wrapping_add(1);
                        peer.links[pi].credit -= 1;
                        settle(&mut peer, 1).await;
                        // ask every Receiver the harness holds what it has
                        let mut report = vec![];
                        for (si, rs) in sess.iter_mut().enumerate() {
                            let Some(rs) = rs.as_mut() else { continue };
                            for (li, rl) in rs.links.iter_mut().enumerate() {
                                let Some(rl) = rl.as_mut() else { continue };
                                let RLink::R(rcv) = &mut rl.link else { continue };
                                let designated = si == s as usize && li == l as usize;
                                let mut got: Vec<String> = vec![];
                                let mut err = None;
                                for _ in 0..3 {
                                    match drive(&mut peer, rcv.recv::<String>(), Duration::from_millis(2)).await {
                                        Some(Ok(d)) => got.push(d.body().clone()),
                                        Some(Err(e)) => {
                                            err = Some(format!("{e:?}"));
                                            break;
                                        }
                                        None => break,
                                    }
                                }
                                let who = format!("receiver '{}' (session slot {si}, channel {}, handle {})", link_name(rl.name), rs.chan, rl.lib_handle);
                                if designated {
                                    if got.first() == Some(&body) && got.len() == 1 {
                                        obs.counters.peer_msgs_routed += 1;
                                    } else if got.is_empty() {
                                        api_fails.push((
                                            "message-not-delivered-to-designated-link".into(),
                                            format!("the peer sent '{}' on its channel {och} to its handle {our_handle} (= {who}) but recv() there returned {}", body.trim_end_matches('.'), err.clone().map(|e| format!("error {e}")).unwrap_or("nothing".into())),
                                        ));
                                    } else if got.iter().filter(|g| **g == body).count() > 1 {
                                        api_fails.push(("message-delivered-twice".into(), format!("{who} returned the peer's message {} times", got.len())));
                                    } else {
                                        api_fails.push(("wrong-message-at-designated-link".into(), format!("{who} returned {:?}, the peer sent '{}'", got, body.trim_end_matches('.'))));
                                    }
                                } else if !got.is_empty() {
                                    api_fails.push((
                                        "message-delivered-to-wrong-link".into(),
                                        format!("the peer sent '{}' on its channel {och} to its handle {our_handle} (library channel {chan} handle {lib_handle}) but {who} returned {:?}", body.trim_end_matches('.'), got.iter().map(|g| g.trim_end_matches('.')).collect::<Vec<_>>()),
                                    ));
                                } else if let Some(e) = err {
                                    obs.anomalies.push(format!("PeerXfer: {who} (not addressed) reports {e}"));
                                }
                                report.push(format!("{}{}:{}", if designated { "*" } else { "" }, link_name(rl.name), got.len()));
                            }
                        }
                        result = format!("peer channel {och} handle {our_handle} delivery-id {did}; recv counts {report:?}");
                    }
                }
            }
        }
        settle(&mut peer, 2).await;
        mon.feed_all(&peer.trace);
        obs.trace.push(format!("== event {i}: {ev:?} -> {result}"));
        flush(&mut obs, &peer, &mut shown);
        for f in mon.fails[n_fail_seen..].iter() {
            obs.fails.push((f.0.clone(), f.1.clone(), i));
        }
        n_fail_seen = mon.fails.len();
        for (s, d) in api_fails {
            obs.fails.push((s, d, i));
        }
        if diverged {
            // the harness cannot continue this history in its model: treat the event as the end of the branch
            obs.trace.push("   (history abandoned here)".into());
            break;
        }
        obs.executed = i + 1;
        // canonical observable state: what the harness holds + the identifiers on the wire + classes of failures so far
        let ids: Vec<Option<(u16, Vec<Option<u32>>)>> = sess.iter().map(|s| s.as_ref().map(|s| (s.chan, s.links.iter().map(|l| l.as_ref().map(|l| l.lib_handle)).collect()))).collect();
        obs.state_keys.push(h64(&(&model, ids, mon.key(), obs.fails.iter().map(|f| &f.0).collect::<BTreeSet<_>>())));
    }
    obs.counters.add(&mon.counters);
    drop(sess);
    drop(conn);
    obs
}

// ------------------------------------------------------------------------------------------------ driver

pub struct HistRun {
    pub out: HistOut,
    pub fails: Vec<(String, String, usize)>,
    pub anomalies: Vec<String>,
    pub counters: Counters,
    pub real: bool,
}

pub fn run_history(cfg: Cfg, evs: Vec<Ev>) -> HistRun {
    let mut hr = HistRun { out: HistOut::default(), fails: vec![], anomalies: vec![], counters: Counters::default(), real: false };
    // enabledness depends only on what the harness holds: a history with a disabled event needs no execution
    // (its enabled prefix is executed as part of every enabled extension)
    if let Some(k) = first_disabled(&evs) {
        hr.out.executed = k;
        return hr;
    }
    hr.real = true;
    let scen: Scenario<Obs> = {
        let evs = evs.clone();
        Arc::new(move || {
            let evs = evs.clone();
            Box::pin(scenario(cfg, evs))
        })
    };
    let ex = run_exec(vec![], &RunCfg::none(), &scen);
    match ex.out {
        Some(o) => {
            hr.out.executed = o.executed;
            hr.out.state_keys = o.state_keys;
            hr.out.trace = o.trace;
            hr.out.machinery = o.machinery;
            hr.fails = o.fails;
            hr.anomalies = o.anomalies;
            hr.counters = o.counters;
        }
        None => {
            hr.out.executed = evs.len();
            hr.out.machinery = Some(if ex.watchdog {
                format!("C11 {} {:?}: the execution did not finish in real time", cfg.id, evs)
            } else {
                format!("C11 {} {:?}: scenario panicked: {:?}", cfg.id, evs, ex.panics)
            });
        }
    }
    // panics / spinning of library tasks are not what C11 is about: machinery errors, with the history
    if ex.spun && hr.out.machinery.is_none() {
        hr.out.machinery = Some(format!("C11 {} {:?}: some task polled more than 20000 times at one virtual instant", cfg.id, evs));
    }
    if let Some(p) = ex.panics.iter().find(|p| !p.contains("vcheck/src")) {
        if hr.out.machinery.is_none() {
            hr.out.machinery = Some(format!("C11 {} {:?}: a library task panicked: {p}", cfg.id, evs));
        }
    }
    hr
}

#[derive(Default)]
struct Totals {
    executions: u64,
    events: u64,
    states: HashSet<u64>,
    transitions: HashSet<(u64, usize, u64)>,
    counters: Counters,
    anomalies: BTreeMap<String, (u64, Vec<String>)>,
    /// (signature, truncated history) already reported
    reported: HashSet<(String, Vec<usize>)>,
    violations: Vec<(String, String, serde_json::Value, usize)>,
    samples: Vec<serde_json::Value>,
}

fn anomaly_class(a: &str) -> String {
    // class = text up to the first digit run / quote, enough to group
    a.split(|c: char| c.is_ascii_digit() || c == '\'' || c == '"').next().unwrap_or(a).trim().chars().take(80).collect()
}

pub fn run(ctx: &Ctx) -> Outcome {
    let mut out = Outcome::new("model_checking");
    if let Some(p) = &ctx.replay {
        return replay(p, out);
    }
    let al = alphabet();
    let t0 = Instant::now();
    let deadline = t0 + Duration::from_secs_f64(ctx.budget_s * 0.9);
    let full: Vec<usize> = (0..al.len()).collect();
    // "deep" slice: links only on session slot 0, names a and b, two link slots; the second session slot can
    // still be begun and ended (channel allocation) - smaller branching, one level deeper
    let deep: Vec<usize> = (0..al.len())
        .filter(|i| match al[*i] {
            Ev::Begin | Ev::End(_) => true,
            Ev::Attach { s, name, .. } => s == 0 && name < 2,
            Ev::Detach(s, l) | Ev::Close(s, l) | Ev::Drop(s, l) | Ev::Send(s, l, _) | Ev::PeerXfer(s, l) => s == 0 && l < 2,
        })
        .collect();
    // depth counted AFTER the setup (open + begin of session 0), i.e. the design's depth + 1
    let plan: Vec<(Cfg, usize, &str, &Vec<usize>)> = if ctx.quick() {
        vec![(CFGS[0], 4, "full", &full), (CFGS[3], 4, "full", &full), (CFGS[1], 4, "deep", &deep), (CFGS[2], 4, "deep", &deep), (CFGS[0], 5, "deep", &deep), (CFGS[3], 5, "deep", &deep)]
    } else {
        vec![(CFGS[0], 5, "full", &full), (CFGS[3], 5, "full", &full), (CFGS[1], 5, "deep", &deep), (CFGS[2], 5, "deep", &deep), (CFGS[0], 6, "deep", &deep), (CFGS[1], 6, "deep", &deep), (CFGS[2], 6, "deep", &deep), (CFGS[3], 6, "deep", &deep), (CFGS[0], 7, "deep", &deep)]
    };
    // Part B first (scripted client against the real listener): it gets at most a quarter of the budget
    let lb = listener::run_part_b(ctx, (t0 + Duration::from_secs_f64(ctx.budget_s * 0.25)).min(deadline), &mut out);
    // Part C (concurrent senders on one session): small, at most a further tenth of the budget
    let pc = interleave::run_part_c(ctx, (Instant::now() + Duration::from_secs_f64(ctx.budget_s * 0.1)).min(deadline), &mut out);
    let totals = Mutex::new(Totals::default());
    let mut completed: Vec<String> = vec![];
    let mut truncated = false;
    let mut pruned = 0u64;
    for (cfg, depth, label, sub) in &plan {
        if Instant::now() > deadline {
            truncated = true;
            break;
        }
        let t_plan = Instant::now();
        let st = search(sub.len(), *depth, ctx.threads, deadline, |hs| {
            // indices into the full alphabet
            let h: Vec<usize> = hs.iter().map(|i| sub[*i]).collect();
            let evs: Vec<Ev> = h.iter().map(|i| al[*i]).collect();
            let hr = run_history(*cfg, evs.clone());
            if hr.real {
                let mut t = totals.lock().unwrap();
                t.executions += 1;
                t.events += hr.out.executed as u64;
                for k in &hr.out.state_keys {
                    t.states.insert(*k);
                }
                for (j, w) in hr.out.state_keys.windows(2).enumerate() {
                    t.transitions.insert((w[0], h[j], w[1]));
                }
                t.counters.add(&hr.counters);
                for a in &hr.anomalies {
                    let e = t.anomalies.entry(format!("cfg {}: {}", cfg.id, anomaly_class(a))).or_insert((0, vec![]));
                    e.0 += 1;
                    if e.1.is_empty() {
                        e.1.push(format!("{} {:?}: {a}", cfg.id, evs));
                    }
                }
                for (sig, detail, at) in &hr.fails {
                    let hist: Vec<usize> = if *at == usize::MAX { vec![] } else { h[..=(*at).min(h.len() - 1)].to_vec() };
                    if t.reported.insert((format!("{}/{sig}", cfg.id), hist.clone())) {
                        let names: Vec<String> = hist.iter().map(|i| format!("{:?}", al[*i])).collect();
                        t.violations.push((
                            sig.clone(),
                            format!("cfg {} (next-outgoing-id {}, max-message-size of 'b' links {}), history after open+begin: {:?}: {detail}", cfg.id, cfg.noi, cfg.mms_b, names),
                            json!({"part": "A", "cfg": cfg.id, "events": hist, "event_names": names, "trace": hr.out.trace}),
                            hist.len(),
                        ));
                    }
                }
                // samples: one history with a multi-frame delivery, one with a routed peer message, one with identifier reuse
                let want = match t.samples.len() {
                    0 => hr.counters.multi_frame_deliveries > 0,
                    1 => hr.counters.peer_msgs_routed > 0 && hr.counters.two_sessions > 0,
                    2 => hr.counters.handle_reuses + hr.counters.channel_reuses > 0 && hr.counters.deliveries > 0,
                    _ => false,
                };
                if want && hr.out.executed == h.len() {
                    let names: Vec<String> = evs.iter().map(|e| format!("{e:?}")).collect();
                    t.samples.push(json!({"cfg": cfg.id, "history": names, "trace": hr.out.trace}));
                }
            }
            // fails are accounted for above (with the history truncated to the failing event)
            hr.out
        });
        pruned += st.pruned_disabled;
        for m in st.machinery {
            if out.machinery_errors.len() < 5 {
                out.machinery_errors.push(m);
            }
        }
        let what = format!("cfg {} alphabet {label}({} events) depth {depth} [{} histories executed, {:.0} s]", cfg.id, sub.len(), st.executions - st.pruned_disabled, t_plan.elapsed().as_secs_f64());
        if st.truncated {
            truncated = true;
            completed.push(format!("{what}: CUT by the budget"));
            break;
        }
        completed.push(what);
    }
    let mut t = totals.into_inner().unwrap();
    // shortest history first so that the replay kept per signature is minimal
    t.violations.sort_by_key(|v| v.3);
    for (sig, detail, rep, _) in t.violations {
        out.violation(sig, detail, rep);
    }
    out.set("states", (t.states.len() as u64 + lb.states + pc.states).max(1));
    out.set("transitions", t.transitions.len() as u64 + lb.transitions);
    out.set("traces_validated_against_impl", t.executions + lb.executions + pc.executions);
    out.set("executions", t.executions + lb.executions + pc.executions);
    out.set("events_executed", t.events + lb.events);
    out.set("histories_pruned_disabled_event", pruned);
    out.set("client_part", json!({"executions": t.executions, "events": t.events, "states": t.states.len(), "transitions": t.transitions.len(), "completed": completed, "nontrivial": t.counters.to_json()}));
    if t.counters.id_wraps == 0 {
        out.set(
            "delivery_id_wraparound_note",
            "cfg 'wrap' (next-outgoing-id = u32::MAX - 1) did NOT reach a wrap-around in this run: after the peer's first link flow the library recomputes remote-incoming-window as next-incoming-id + incoming-window - next-outgoing-id with SATURATING arithmetic (session/mod.rs on_incoming_flow_inner), which leaves a window of u32::MAX - next-outgoing-id transfers, so the transfer with id u32::MAX is never sent and later sends stay pending (see unjudged_api_anomalies). That is session flow control (C07), not an identifier error; once it is repaired this configuration exercises ids MAX-1, MAX, 0, 1 at depth 4",
        );
    }
    out.set("listener_part", lb.summary.clone());
    out.set("concurrent_senders_part", pc.summary.clone());
    let mut samples = t.samples;
    samples.extend(lb.samples.iter().cloned());
    samples.extend(pc.samples.iter().cloned());
    out.set("samples", json!(samples));
    out.set("exhaustive", !truncated && !lb.truncated && !pc.truncated);
    out.set(
        "bound",
        format!(
            "client vs scripted peer: open + begin(session 0), then ALL histories of the stated depth over {} events (begin; end(s); attach(s, sender|receiver, name a|b|c; 'b' links have a max-message-size); detach|close|drop(s,l); send one-frame|transport-split|link-split (s,l); peer transfer to (s,l)) with <= {MAX_SESS} sessions x <= {MAX_LINKS} links, completed: {:?} (alphabet 'deep' = links on session slot 0 only, names a|b, two link slots); listener vs scripted client: {}; {}",
            al.len(),
            completed,
            lb.bound,
            pc.bound
        ),
    );
    out.set(
        "rule",
        "states = distinct canonical observable states at quiescence (which sessions/links the application holds, the channel and handle numbers seen on the wire, attached names, last delivery-id and open multi-frame deliveries per session, classes of failures so far); transitions = distinct (state, event, state) triples; every state is reached by executing the real stack; part C adds its distinct (case, order of the handles of the concurrently sent transfer frames) observations to the states. A history with a disabled event is not executed (its enabled prefix is executed as part of every enabled extension)",
    );
    let an: Vec<serde_json::Value> = t.anomalies.iter().map(|(k, (n, ex))| json!({"class": k, "count": n, "example": ex.first()})).collect();
    out.set("unjudged_api_anomalies", json!(an));
    out.assume("the scripted peer acts at quiescent points only: every library step runs to quiescence before the next event (history search, default schedule)");
    out.assume("'the previous holder has detached/ended' is read as: the library's own detach/end frame for that holder is on the wire (the peer's answer is not required)");
    out.assume("API calls that fail or stay pending without an identifier being wrong are outside C11: counted in unjudged_api_anomalies, not verdicts");
    out
}

fn replay(p: &std::path::Path, mut out: Outcome) -> Outcome {
    let s = std::fs::read_to_string(p).unwrap_or_default();
    let j: serde_json::Value = serde_json::from_str(&s).unwrap_or_default();
    let r = if j.get("replay").is_some() { &j["replay"] } else { &j };
    if r["part"] == "B" {
        return listener::replay(r, out);
    }
    if r["part"] == "C" {
        return interleave::replay(r, out);
    }
    let cfg = CFGS.iter().copied().find(|c| r["cfg"] == c.id).unwrap_or(CFGS[0]);
    let al = alphabet();
    let idx: Vec<usize> = r["events"].as_array().map(|a| a.iter().filter_map(|x| x.as_u64()).map(|i| i as usize).filter(|i| *i < al.len()).collect()).unwrap_or_default();
    let evs: Vec<Ev> = idx.iter().map(|i| al[*i]).collect();
    println!("replaying part A cfg {} history {:?}", cfg.id, evs);
    let hr = run_history(cfg, evs);
    for l in &hr.out.trace {
        println!("  {l}");
    }
    for a in &hr.anomalies {
        println!("  (unjudged) {a}");
    }
    if let Some(m) = hr.out.machinery {
        out.machinery_errors.push(m);
    }
    let mut seen = BTreeSet::new();
    for (s, d, at) in hr.fails {
        println!("  FAIL at event {at} [{s}]: {d}");
        if seen.insert(s.clone()) {
            out.violation(s, d, r.clone());
        }
    }
    out.set("states", hr.out.state_keys.len().max(1));
    out.set("transitions", hr.out.executed.max(1));
    out.set("traces_validated_against_impl", 1);
    out.set("samples", json!([r["event_names"]]));
    out.set("exhaustive", true);
    out.set("bound", "replay of one history");
    out.set("rule", "replay");
    out
}
