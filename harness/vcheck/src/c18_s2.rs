//! C18 series 2: the scripted peer acts as the CLIENT (Auto::none(), everything by hand) against the real
//! listener, so that it can post to / discharge never-declared and finished ids and post after discharge.
//! The peer's own behaviour stays protocol-valid (every frame of a multi-frame post carries the state).
//!
//! Variant S2-relink (`scenario_relink`, alphabet `RELINK_ALPHABET`): one transaction slot; the client also CLOSES
//! data links (closing detach, answered by the listener, whose application sees the detach on its next `recv`) and
//! attaches NEW links (new name, new target address) that re-use the freed handle numbers - each accepted by the
//! listener application as a further `Receiver` with a log of its own.  A post belongs to the link it was sent on:
//! it must never surface at the application of the link that later took over the handle number.  Posts and
//! discharges are only enabled while the transaction is live (unknown / finished ids are the business of plain S2).
use super::common::*;
use super::Obs;
use fe2o3_amqp_types::definitions::{ErrorCondition, Handle, ReceiverSettleMode, Role, SenderSettleMode};
use fe2o3_amqp_types::messaging::message::__private::Serializable;
use fe2o3_amqp_types::messaging::{DeliveryState, Message, Source, Target, TargetArchetype};
use fe2o3_amqp_types::performatives::*;
use fe2o3_amqp_types::transaction::{Coordinator, Declare, Discharge, TransactionalState};
use serde_bytes::ByteBuf;
use vlib::peer::{settle, Auto, Body, Dirn, Peer, WFrame, AMQP_HEADER};
use vlib::util::{h64, hex};
use vlib::vpipe::Pipe;

struct Cli {
    /// deliveries sent per link handle (the sender's delivery-count; every attach announces 0)
    sent_on: std::collections::HashMap<u32, u32>,
    next_tid: u32,
    next_tag: u32,
    next_handle: u32,
    ctl_handle: Option<u32>,
    ctl_count: usize,
    /// model link (= attachment with its own receiving application) that currently holds the handle number of
    /// data link k (index k-1); None after the client closed it
    holder: [Option<u8>; 2],
}

fn attach(name: &str, handle: u32, target: TargetArchetype) -> Attach {
    Attach {
        name: name.to_string(),
        handle: Handle(handle),
        role: Role::Sender,
        snd_settle_mode: SenderSettleMode::Mixed,
        rcv_settle_mode: ReceiverSettleMode::First,
        source: Some(Box::new(Source::default())),
        target: Some(Box::new(target)),
        unsettled: None,
        incomplete_unsettled: false,
        initial_delivery_count: Some(0),
        max_message_size: None,
        offered_capabilities: None,
        desired_capabilities: None,
        properties: None,
    }
}

/// send one delivery in `frames` transfer frames; returns its delivery-id, or Err if a frame would exceed MFS
fn send_delivery(peer: &mut Peer, cli: &mut Cli, handle: u32, state: Option<DeliveryState>, payload: &[u8], frames: usize, settled: bool) -> Result<u32, String> {
    let did = cli.next_tid;
    let tag = cli.next_tag;
    *cli.sent_on.entry(handle).or_insert(0) += 1;
    cli.next_tag += 1;
    let chunk = payload.len().div_ceil(frames).max(1);
    let parts: Vec<&[u8]> = payload.chunks(chunk).collect();
    let n = parts.len();
    for (j, part) in parts.into_iter().enumerate() {
        let first = j == 0;
        let t = Transfer {
            handle: Handle(handle),
            delivery_id: first.then_some(did),
            delivery_tag: first.then(|| ByteBuf::from(tag.to_be_bytes().to_vec())),
            message_format: first.then_some(0),
            settled: first.then_some(settled),
            more: j + 1 < n,
            rcv_settle_mode: None,
            state: state.clone(),
            resume: false,
            aborted: false,
            batchable: false,
        };
        let before = peer.trace.len();
        peer.send_perf(0, Performative::Transfer(t), part);
        cli.next_tid = cli.next_tid.wrapping_add(1);
        let size = peer.trace[before].size;
        if size > MFS {
            return Err(format!("scripted client built a {size}-byte frame (> max-frame-size {MFS})"));
        }
    }
    Ok(did)
}

fn msg_bytes<T: serde::Serialize>(v: T) -> Vec<u8> {
    serde_amqp::to_vec(&Serializable(Message::builder().value(v).build())).expect("encode message")
}

/// how (if at all) the listener refused the delivery `did`: (mechanism, error condition)
fn refusal(new: &[WFrame], did: Option<u32>) -> Option<(String, ErrorCondition)> {
    for w in new.iter().filter(|w| w.dir == Dirn::FromLib) {
        match &w.body {
            Body::Perf(Performative::Disposition(d)) => {
                if let (Some(did), Some(DeliveryState::Rejected(r))) = (did, &d.state) {
                    if d.role == Role::Receiver && d.first <= did && did <= d.last.unwrap_or(d.first) {
                        if let Some(e) = &r.error {
                            return Some(("rejected outcome".into(), e.condition.clone()));
                        }
                    }
                }
            }
            Body::Perf(Performative::Detach(d)) => {
                if let Some(e) = &d.error {
                    return Some(("link detach".into(), e.condition.clone()));
                }
            }
            Body::Perf(Performative::End(d)) => {
                if let Some(e) = &d.error {
                    return Some(("session end".into(), e.condition.clone()));
                }
            }
            Body::Perf(Performative::Close(d)) => {
                if let Some(e) = &d.error {
                    return Some(("connection close".into(), e.condition.clone()));
                }
            }
            _ => {}
        }
    }
    None
}

fn disposition_state(new: &[WFrame], did: u32) -> Option<DeliveryState> {
    new.iter().filter(|w| w.dir == Dirn::FromLib).find_map(|w| match &w.body {
        Body::Perf(Performative::Disposition(d)) if d.role == Role::Receiver && d.first <= did && did <= d.last.unwrap_or(d.first) => d.state.clone(),
        _ => None,
    })
}

pub fn wshort(w: &WFrame) -> String {
    let d = if w.dir == Dirn::FromLib { "<-lib" } else { "peer->" };
    match &w.body {
        Body::Perf(Performative::Transfer(t)) => format!(
            "{d} ch{} transfer(h={},id={:?},settled={:?},more={},state={})+{}B",
            w.channel,
            t.handle.0,
            t.delivery_id,
            t.settled,
            t.more,
            state_short(&t.state),
            w.payload.len()
        ),
        Body::Perf(Performative::Disposition(x)) => format!("{d} ch{} disposition({:?},{}..{:?},settled={},state={})", w.channel, x.role, x.first, x.last, x.settled, state_short(&x.state)),
        _ => w.short(),
    }
}

fn link_name(app: u8) -> String {
    format!("link-{app}")
}

/// the handle the listener chose for the link of that name (latest attach of that name)
fn lib_handle_of(tr: &[WFrame], name: &str) -> Option<u32> {
    tr.iter().rev().find_map(|w| match (&w.dir, &w.body) {
        (Dirn::FromLib, Body::Perf(Performative::Attach(a))) if a.name == name => Some(a.handle.0),
        _ => None,
    })
}

fn lib_ended(tr: &[WFrame]) -> bool {
    tr.iter().any(|w| w.dir == Dirn::FromLib && matches!(&w.body, Body::Perf(Performative::End(_)) | Body::Perf(Performative::Close(_))))
}

pub async fn scenario(events: Vec<Ev>, presettled: bool) -> Obs {
    scenario_probed(events, presettled, false).await
}

/// With `probe`, the scripted client asks for the session state (a session flow with echo) after every event;
/// `Obs::session_probes` then holds, per event, the next-incoming-id the listener reported and the number of
/// transfer frames the client had sent by then (used by C07: transactional posts are transfer frames too).
pub async fn scenario_probed(events: Vec<Ev>, presettled: bool, probe: bool) -> Obs {
    scenario_full(events, presettled, probe, false).await
}

/// S2-relink: see the module comment
pub async fn scenario_relink(events: Vec<Ev>, presettled: bool) -> Obs {
    scenario_full(events, presettled, false, true).await
}

async fn scenario_full(events: Vec<Ev>, presettled: bool, probe: bool, relink: bool) -> Obs {
    let series = match (relink, presettled) {
        (false, false) => Series::S2,
        (false, true) => Series::S2Settled,
        (true, false) => Series::S2Relink,
        (true, true) => Series::S2RelinkSettled,
    };
    let mut obs = Obs::default();
    let (pipe, a, _b) = Pipe::new();
    let sh: Sh = Default::default();
    if probe {
        sh.lock().unwrap().small_credit = Some(4);
    }
    spawn_listener(a, sh.clone());
    // probe mode: the client respects the (small) credit; handle -> delivery-count + link-credit of the last flow
    let mut limit_on: std::collections::HashMap<u32, u32> = Default::default();
    let mut auto = Auto::none();
    auto.max_frame_size = MFS;
    let mut peer = Peer::new(pipe.clone(), 1, auto);
    peer.send_proto_header(AMQP_HEADER);
    peer.send(
        0,
        Performative::Open(Open {
            container_id: "scripted-client".into(),
            hostname: None,
            max_frame_size: MFS.into(),
            channel_max: 10.into(),
            idle_time_out: None,
            outgoing_locales: None,
            incoming_locales: None,
            offered_capabilities: None,
            desired_capabilities: None,
            properties: None,
        }),
    );
    settle(&mut peer, 2).await;
    peer.send(
        0,
        Performative::Begin(Begin {
            remote_channel: None,
            next_outgoing_id: 0,
            incoming_window: 1000,
            outgoing_window: 1000,
            handle_max: Default::default(),
            offered_capabilities: None,
            desired_capabilities: None,
            properties: None,
        }),
    );
    settle(&mut peer, 2).await;
    peer.send(0, Performative::Attach(attach("link-1", 0, TargetArchetype::Target(Target::builder().address("q1").build()))));
    peer.send(0, Performative::Attach(attach("link-2", 1, TargetArchetype::Target(Target::builder().address("q2").build()))));
    peer.send(0, Performative::Attach(attach("ctl-1", 2, TargetArchetype::Coordinator(Coordinator::default()))));
    settle(&mut peer, 3).await;
    let mut cli = Cli { sent_on: Default::default(), next_tid: 0, next_tag: 0, next_handle: 3, ctl_handle: Some(2), ctl_count: 1, holder: [Some(1), Some(2)] };
    // start state reached?
    let lib_attaches = peer.trace.iter().filter(|w| w.dir == Dirn::FromLib && matches!(&w.body, Body::Perf(Performative::Attach(_)))).count();
    let credited = peer
        .trace
        .iter()
        .filter(|w| w.dir == Dirn::FromLib && matches!(&w.body, Body::Perf(Performative::Flow(f)) if f.handle.is_some() && f.link_credit.unwrap_or(0) > 0))
        .count();
    if lib_attaches != 3 || credited < 3 || lib_ended(&peer.trace) {
        obs.machinery = Some(format!(
            "S2: start state not reached ({lib_attaches} attaches, {credited} credit grants from the listener): {:?} notes {:?}",
            vlib::peer::trace_to_strings(&peer.trace),
            sh.lock().unwrap().notes
        ));
        return obs;
    }

    for w in &peer.trace {
        if let (Dirn::FromLib, Body::Perf(Performative::Flow(f))) = (w.dir, &w.body) {
            if let (Some(h), Some(c)) = (&f.handle, f.link_credit) {
                limit_on.insert(h.0, f.delivery_count.unwrap_or(0).wrapping_add(c));
            }
        }
    }
    let mut model = Model::default();
    let mut session_alive = true;
    // S2-relink: per model link the index (k-1) of the handle number it was attached on; per handle number the
    // latest link on it
    let mut handle_ix: Vec<usize> = vec![0, 1];
    let mut last_holder: [u8; 2] = [1, 2];
    let never_id = |t: u8| format!("never-declared-{t}").into_bytes();
    obs.state_keys.push(h64(&(model.key(), true, true)));

    for (i, ev) in events.iter().enumerate() {
        if !session_alive {
            break;
        }
        let name = ev_name(series, *ev);
        let enabled = match ev {
            Ev::X1 | Ev::X2 => cli.ctl_handle.is_some(),
            // S2-relink: one transaction at a time, always in slot 1
            Ev::Declare if relink => !model.live(1),
            Ev::Declare => model.free_slot().is_some(),
            Ev::X3 => false,
            Ev::CloseLink(k) => relink && cli.holder[*k as usize - 1].is_some(),
            Ev::AttachReuse(k) => relink && cli.holder[*k as usize - 1].is_none(),
            // a conforming client does not send on a handle it has detached
            Ev::Post { link, .. } if cli.holder[*link as usize - 1].is_none() => false,
            Ev::Post { txn, .. } | Ev::Commit(txn) | Ev::Rollback(txn) if relink && *txn != 0 => model.live(*txn),
            Ev::Post { link, .. } if probe => {
                let h = *link as u32 - 1;
                cli.sent_on.get(&h).copied().unwrap_or(0) < limit_on.get(&h).copied().unwrap_or(0)
            }
            _ => true,
        };
        if !enabled {
            break;
        }
        let mark = peer.trace.len();
        let mut fail: Option<(String, String)> = None;
        let mut note = String::new();
        // (re-)attach a control link if the event needs one
        if matches!(ev, Ev::Declare | Ev::Commit(_) | Ev::Rollback(_)) && cli.ctl_handle.is_none() {
            cli.ctl_count += 1;
            let h = cli.next_handle;
            cli.next_handle += 1;
            peer.send(0, Performative::Attach(attach(&format!("ctl-{}", cli.ctl_count), h, TargetArchetype::Coordinator(Coordinator::default()))));
            settle(&mut peer, 3).await;
            let ok = peer.trace[mark..].iter().any(|w| w.dir == Dirn::FromLib && matches!(&w.body, Body::Perf(Performative::Flow(f)) if f.link_credit.unwrap_or(0) > 0));
            if !ok {
                obs.machinery = Some(format!("S2: re-attaching a control link got no credit: {:?}", vlib::peer::trace_to_strings(&peer.trace[mark..])));
                break;
            }
            cli.ctl_handle = Some(h);
        }
        match *ev {
            Ev::Declare => {
                let slot = model.free_slot().unwrap();
                let ch = cli.ctl_handle.unwrap();
                match send_delivery(&mut peer, &mut cli, ch, None, &msg_bytes(Declare { global_id: None }), 1, false) {
                    Err(m) => obs.machinery = Some(m),
                    Ok(did) => {
                        settle(&mut peer, 3).await;
                        match disposition_state(&peer.trace[mark..], did) {
                            Some(DeliveryState::Declared(d)) => {
                                let id = d.txn_id.to_vec();
                                note = format!("declared t{} = {}", slot + 1, hex(&id));
                                obs.declares += 1;
                                if !model.declare(slot, id.clone()) {
                                    fail = Some(("declare-returned-used-txn-id".into(), format!("declare was answered with txn-id {} which an earlier declare of this history had already been given", hex(&id))));
                                }
                            }
                            other => fail = Some(("declare-not-answered-with-declared".into(), format!("a declare on an attached control link was answered with {other:?}"))),
                        }
                    }
                }
            }
            Ev::Post { link, txn } => {
                // the attachment (and with it the receiving application) that holds this handle number now
                let app = cli.holder[link as usize - 1].unwrap();
                let label = label_for(link, i);
                let payload = msg_bytes(body_for(link, i));
                let (state, status) = if txn == 0 {
                    (None, "none")
                } else {
                    let idx = txn as usize - 1;
                    let id = model.ids[idx].clone().unwrap_or_else(|| never_id(txn));
                    let status = match model.slot[idx] {
                        Slot::Live => "live",
                        Slot::Never => "never-declared",
                        _ => "finished",
                    };
                    (Some(DeliveryState::TransactionalState(TransactionalState { txn_id: ByteBuf::from(id), outcome: None })), status)
                };
                match send_delivery(&mut peer, &mut cli, link as u32 - 1, state, &payload, if link == 1 { 1 } else { 3 }, presettled) {
                    Err(m) => obs.machinery = Some(m),
                    Ok(did) => {
                        if link == 2 {
                            obs.multi_frame_posts += 1;
                        }
                        settle(&mut peer, 3).await;
                        let refused = refusal(&peer.trace[mark..], Some(did));
                        match status {
                            "none" => model.post(app, 0, label),
                            "live" => {
                                obs.txn_posts += 1;
                                match refused {
                                    None => model.post(app, txn, label),
                                    Some((how, c)) => fail = Some(("post-under-live-txn-refused".into(), format!("{name} (transaction declared and not discharged) was refused by {how} with {c:?}"))),
                                }
                            }
                            _ => {
                                // posting to an unknown or finished id is refused with the transaction error instead of
                                // being applied
                                model.refuse(label);
                                note = format!("posted to a {status} id -> {refused:?}");
                                match refused {
                                    Some((_, ErrorCondition::TransactionError(_))) => obs.refusals += 1,
                                    Some((how, c)) => fail = Some((format!("post-to-{status}-id-refused-with-non-transaction-error"), format!("{name} to a {status} txn-id was refused by {how} with {c:?}, not with a transaction error"))),
                                    None => fail = Some((format!("post-to-{status}-id-not-refused"), format!("{name} to a {status} txn-id was not refused (no rejected outcome, detach, end or close with an error)"))),
                                }
                            }
                        }
                    }
                }
            }
            Ev::Commit(t) | Ev::Rollback(t) => {
                let commit = matches!(ev, Ev::Commit(_));
                let idx = t as usize - 1;
                let id = model.ids[idx].clone().unwrap_or_else(|| never_id(t));
                let status = match model.slot[idx] {
                    Slot::Live => "live",
                    Slot::Never => "never-declared",
                    _ => "finished",
                };
                let body = msg_bytes(Discharge { txn_id: ByteBuf::from(id), fail: Some(!commit) });
                let ch = cli.ctl_handle.unwrap();
                match send_delivery(&mut peer, &mut cli, ch, None, &body, 1, false) {
                    Err(m) => obs.machinery = Some(m),
                    Ok(did) => {
                        settle(&mut peer, 3).await;
                        let st = disposition_state(&peer.trace[mark..], did);
                        let refused = refusal(&peer.trace[mark..], Some(did));
                        if status == "live" {
                            match (&st, &refused) {
                                (Some(DeliveryState::Accepted(_)), _) => {
                                    if commit {
                                        if !model.pending[idx].is_empty() {
                                            obs.commits_with_posts += 1;
                                        }
                                        if model.pending[idx].iter().any(|(l, _)| model.closed[*l as usize - 1]) {
                                            obs.commits_with_post_on_closed_link += 1;
                                            // the handle number of such a post is held by a NEW link at the commit
                                            if model.pending[idx].iter().any(|(l, _)| model.closed[*l as usize - 1] && cli.holder[handle_ix[*l as usize - 1]].is_some()) {
                                                obs.commits_with_post_on_reused_handle += 1;
                                            }
                                        }
                                        model.commit(t);
                                    } else {
                                        model.rollback(t);
                                    }
                                }
                                // each id can be discharged once: the first discharge of a live id succeeds
                                (_, Some((how, c))) => fail = Some(("discharge-of-live-txn-refused".into(), format!("{name} of a live transaction was refused by {how} with {c:?}"))),
                                (other, None) => fail = Some(("discharge-of-live-txn-not-accepted".into(), format!("{name} of a live transaction was answered with {other:?}"))),
                            }
                        } else {
                            note = format!("discharge of a {status} id -> {:?} / {refused:?}", st.as_ref().map(|s| state_short(&Some(s.clone()))));
                            match (&st, &refused) {
                                (Some(DeliveryState::Accepted(_)), _) => fail = Some((format!("discharge-of-{status}-id-accepted"), format!("{name} names a {status} txn-id but the coordinator answered accepted"))),
                                (_, Some((_, ErrorCondition::TransactionError(_)))) => obs.refusals += 1,
                                (_, Some((how, c))) => fail = Some((format!("discharge-of-{status}-id-refused-with-non-transaction-error"), format!("{name} of a {status} txn-id was refused by {how} with {c:?}, not with a transaction error"))),
                                (other, None) => fail = Some((format!("discharge-of-{status}-id-not-refused"), format!("{name} of a {status} txn-id was answered with {other:?} (no refusal)"))),
                            }
                        }
                    }
                }
            }
            Ev::X1 | Ev::X2 => {
                let h = cli.ctl_handle.take().unwrap();
                peer.send(0, Performative::Detach(Detach { handle: Handle(h), closed: matches!(ev, Ev::X1), error: None }));
                settle(&mut peer, 3).await;
                model.abort_all_live();
            }
            Ev::X3 => {}
            Ev::CloseLink(k) => {
                let app = cli.holder[k as usize - 1].take().unwrap();
                let h = k as u32 - 1;
                peer.send(0, Performative::Detach(Detach { handle: Handle(h), closed: true, error: None }));
                settle(&mut peer, 3).await;
                model.close_link(app);
                obs.link_closes += 1;
                // the handle number is free for re-use once the listener has answered the detach
                let lib_h = lib_handle_of(&peer.trace, &link_name(app));
                let answered = peer.trace[mark..].iter().any(|w| w.dir == Dirn::FromLib && matches!(&w.body, Body::Perf(Performative::Detach(d)) if Some(d.handle.0) == lib_h));
                if !answered && !lib_ended(&peer.trace[mark..]) {
                    obs.machinery = Some(format!("{}: the listener did not answer the closing detach of {} (its handle {lib_h:?}): {:?} notes {:?}", series.tag(), link_name(app), vlib::peer::trace_to_strings(&peer.trace[mark..]), sh.lock().unwrap().notes));
                }
            }
            Ev::AttachReuse(k) => {
                let h = k as u32 - 1;
                let app = model.add_link();
                peer.send(0, Performative::Attach(attach(&link_name(app), h, TargetArchetype::Target(Target::builder().address(format!("q{app}")).build()))));
                settle(&mut peer, 3).await;
                let attached = peer.trace[mark..].iter().any(|w| w.dir == Dirn::FromLib && matches!(&w.body, Body::Perf(Performative::Attach(a)) if a.name == link_name(app) && a.target.is_some()));
                let credited = peer.trace[mark..].iter().any(|w| w.dir == Dirn::FromLib && matches!(&w.body, Body::Perf(Performative::Flow(f)) if f.handle.is_some() && f.link_credit.unwrap_or(0) > 0));
                if !(attached && credited) && !lib_ended(&peer.trace[mark..]) {
                    obs.machinery = Some(format!("{}: attaching {} on the re-used handle {h} was not answered with attach + credit: {:?} notes {:?}", series.tag(), link_name(app), vlib::peer::trace_to_strings(&peer.trace[mark..]), sh.lock().unwrap().notes));
                }
                // which closed link held this handle number before
                let prev = last_holder[k as usize - 1];
                handle_ix.push(k as usize - 1);
                last_holder[k as usize - 1] = app;
                cli.holder[k as usize - 1] = Some(app);
                // the new attach announces initial-delivery-count 0
                cli.sent_on.insert(h, 0);
                obs.handle_reuses += 1;
                note = format!("{} attached on handle {h} (held by {} before)", link_name(app), link_name(prev));
            }
            Ev::SessionEnd => {
                peer.send(0, Performative::End(End { error: None }));
                settle(&mut peer, 3).await;
                session_alive = false;
                model.abort_all_live();
            }
        }
        // did the listener end the session / close the connection on its own?
        if session_alive && lib_ended(&peer.trace[mark..]) {
            // answer like a conforming peer, the session is gone: its live transactions can never commit
            let closed = peer.trace[mark..].iter().any(|w| w.dir == Dirn::FromLib && matches!(&w.body, Body::Perf(Performative::Close(_))));
            if closed {
                peer.send(0, Performative::Close(Close { error: None }));
            } else {
                peer.send(0, Performative::End(End { error: None }));
            }
            settle(&mut peer, 2).await;
            session_alive = false;
            model.abort_all_live();
        }
        if probe {
            // the listener's own link flows (credit top-ups of its Auto(4) links): what do they say about the session?
            let sent_now = peer.trace[mark..].iter().filter(|w| w.dir != Dirn::FromLib && matches!(&w.body, Body::Perf(Performative::Transfer(_)))).count();
            for w in &peer.trace[mark..] {
                if let (Dirn::FromLib, Body::Perf(Performative::Flow(f))) = (w.dir, &w.body) {
                    if let (Some(h), Some(c)) = (&f.handle, f.link_credit) {
                        limit_on.insert(h.0, f.delivery_count.unwrap_or(0).wrapping_add(c));
                    }
                    // with exactly one transfer frame sent in this step every flow written in it was written after
                    // that frame had been received (the flows are reactions to it)
                    if sent_now == 1 {
                        obs.session_probes.push((i, name.clone(), Some(f.next_incoming_id), cli.next_tid));
                    }
                }
            }
        }
        obs.executed = i + 1;
        obs.trace.push(format!("-- event {}: {}", i + 1, name));
        for w in &peer.trace[mark..] {
            obs.trace.push(format!("   {}", wshort(w)));
        }
        if !note.is_empty() {
            obs.trace.push(format!("   {note}"));
        }
        if obs.machinery.is_some() {
            break;
        }
        let log = sh.lock().unwrap().log.clone();
        obs.trace.push(format!("   application log: {:?}", log));
        if model.pending.iter().any(|p| !p.is_empty()) {
            obs.withheld_states += 1;
        }
        if fail.is_none() {
            fail = model.judge_log(&log);
        }
        obs.state_keys.push(h64(&(model.key(), cli.ctl_handle.is_some(), session_alive, log.len(), cli.holder)));
        if let Some((sig, detail)) = fail {
            obs.fails.push((sig, format!("after event {} ({name}): {detail}", i + 1)));
            break;
        }
    }
    for n in sh.lock().unwrap().notes.iter() {
        obs.trace.push(format!("   note: {n}"));
    }
    // not a verdict, a documented behaviour: the commit was accepted, a post of the transaction had lost its link
    // before, and nobody ever saw it
    if obs.fails.is_empty() && !model.orphaned.is_empty() {
        let log = sh.lock().unwrap().log.clone();
        if model.orphaned.iter().all(|lab| !log.iter().any(|(_, s)| s == lab)) {
            obs.commit_accepted_post_discarded_link_gone = 1;
        }
    }
    obs
}
