//! C14, parts G and H (helper module of c14.rs).
//!
//! Part G - peer-initiated teardown under BACK-PRESSURE.  A real client with small channel capacities
//! (connection `buffer_size` = session->connection channel, session `buffer_size` = link->session and
//! connection->session channels) against the scripted peer.  The harness stalls the transport's write side, a
//! sender of a second session B queues a multi-frame delivery (so that the connection engine sits in a write
//! that cannot proceed and the session->connection channel is full), and the peer ends session A / closes the
//! connection / closes a link of A.  The library's own answer to that frame then has to WAIT FOR ROOM, and the
//! application's next operation comes in while it waits (or was already waiting, or comes after the stall was
//! released).  Oracles: the ones of parts B/C, nothing else.
//!
//! Part H - a RECEIVING link with N deliveries the application has not taken yet sitting in front of the peer's
//! detach, and the application then tears the link down (detach / close / recv..recv, detach / accept, detach);
//! the peer's detach comes before the call or in answer to it.
use super::{cond, op, COND_DBG, OP_TIMEOUT};
use crate::scen;
use fe2o3_amqp::link::receiver::CreditMode;
use fe2o3_amqp::link::{Receiver, Sender};
use fe2o3_amqp::{Connection, Session};
use fe2o3_amqp_types::definitions::{Handle, Role, SenderSettleMode};
use fe2o3_amqp_types::messaging::{Accepted, DeliveryState, Message};
use fe2o3_amqp_types::performatives::*;
use serde_amqp::Value;
use std::collections::HashMap;
use std::time::Duration;
use vlib::peer::{trace_to_strings, Auto, Body, Dirn, Peer};
use vlib::vpipe::Pipe;

/// `pump` plus: settle every complete unsettled delivery of the library with `accepted` - but only where a
/// conforming peer still would: not on a link it has detached, not on a session it has ended, not after its
/// close (vlib's own auto-accept does not look at the link)
#[derive(Default)]
pub struct Acc {
    first: HashMap<(u16, u32), (u32, bool)>,
    pub accepted: usize,
}
fn pump_acc(peer: &mut Peer, acc: &mut Acc) {
    let new = peer.pump();
    for f in new {
        let Some(Performative::Transfer(t)) = f.perf() else { continue };
        let key = (f.channel, t.handle.0);
        if let Some(id) = t.delivery_id {
            acc.first.insert(key, (id, t.settled.unwrap_or(false)));
        }
        if t.more || t.aborted {
            continue;
        }
        let Some((id, settled)) = acc.first.remove(&key) else { continue };
        let sess_open = peer.sessions.get(&f.channel).map(|s| !s.end_sent).unwrap_or(false);
        let link_open = peer.links.iter().any(|l| l.lib_channel == f.channel && l.lib_handle == t.handle.0 && !l.detached && !l.detach_sent);
        if settled || peer.close_sent || !sess_open || !link_open {
            continue;
        }
        let och = peer.our_channel(f.channel);
        peer.send(och, Performative::Disposition(Disposition { role: Role::Receiver, first: id, last: None, settled: true, state: Some(DeliveryState::Accepted(Accepted {})), batchable: false }));
        acc.accepted += 1;
    }
}
async fn settle_acc(peer: &mut Peer, acc: &mut Acc, rounds: usize) {
    for _ in 0..rounds {
        tokio::time::sleep(Duration::from_millis(1)).await;
        pump_acc(peer, acc);
    }
    tokio::time::sleep(Duration::from_millis(1)).await;
}
async fn drive_acc<F: std::future::Future>(peer: &mut Peer, acc: &mut Acc, fut: F, horizon: Duration) -> Option<F::Output> {
    tokio::pin!(fut);
    let start = tokio::time::Instant::now();
    loop {
        tokio::select! {
            biased;
            r = &mut fut => return Some(r),
            _ = tokio::time::sleep(Duration::from_millis(1)) => {
                pump_acc(peer, acc);
                if start.elapsed() > horizon {
                    return None;
                }
            }
        }
    }
}
const LONG: Duration = Duration::from_secs(125);
/// deliveries the sender of the other session hands over to build up the back-pressure
const N_BULK: usize = 8;
/// bytes the transport still takes after `squeeze` (one delivery of the other session is about 150 bytes)
const PIPE_ROOM: usize = 200;

fn transfer_to(handle: u32, id: u32) -> (Performative, Vec<u8>) {
    let payload = serde_amqp::to_vec(&fe2o3_amqp_types::messaging::message::__private::Serializable(Message::builder().value(format!("from the peer {id}")).build())).unwrap();
    let t = Transfer {
        handle: Handle(handle),
        delivery_id: Some(id),
        delivery_tag: Some(serde_bytes::ByteBuf::from(format!("p{id}").into_bytes())),
        message_format: Some(0),
        settled: Some(false),
        more: false,
        rcv_settle_mode: None,
        state: None,
        resume: false,
        aborted: false,
        batchable: false,
    };
    (Performative::Transfer(t), payload)
}

// ================================================================================================ Part G
#[derive(Debug, Clone, Copy, PartialEq, Eq, Hash)]
pub enum GFlt {
    /// the peer ends session A with an error
    EndErr,
    /// the peer ends session A without an error
    End,
    /// the peer closes sender link S of session A with an error
    DetachSErr,
    /// the peer closes the connection with an error
    CloseErr,
    /// the peer ends session A with an error and closes the connection (without error) right behind it
    CloseBehindEndErr,
}
pub const GFAULTS: [GFlt; 5] = [GFlt::EndErr, GFlt::End, GFlt::DetachSErr, GFlt::CloseErr, GFlt::CloseBehindEndErr];
impl GFlt {
    fn conn(self) -> bool {
        matches!(self, GFlt::CloseErr | GFlt::CloseBehindEndErr)
    }
    fn sess(self) -> bool {
        matches!(self, GFlt::EndErr | GFlt::End | GFlt::CloseBehindEndErr)
    }
    fn link_s(self) -> bool {
        self == GFlt::DetachSErr
    }
    fn carries(self) -> bool {
        self != GFlt::End
    }
}

#[derive(Debug, Clone, Copy, PartialEq, Eq, Hash)]
pub enum GOp {
    /// send() on sender S of session A (the link the peer closes in DetachSErr)
    SendAffected,
    /// send() on S2, another sender link of session A
    SendSibling,
    /// recv() on receiver R of session A
    Recv,
    /// attach a new sender on session A
    Attach,
    /// begin a new session on the connection
    Begin,
}
pub const GOPS: [GOp; 5] = [GOp::SendAffected, GOp::SendSibling, GOp::Recv, GOp::Attach, GOp::Begin];

#[derive(Debug, Clone, Copy, PartialEq, Eq, Hash)]
pub enum GWhen {
    /// the operation is issued under back-pressure BEFORE the peer's frame is written; the peer's frame is read
    /// only when the stall is released (frames of session A are then queued when it arrives)
    BeforeFault,
    /// the peer's frame has been read, the library's answer waits for room, the operation is issued now, then
    /// the stall is released
    WhileStuck,
    /// as WhileStuck, but the stall is released (and the answer written) before the operation is issued
    AfterRelease,
    /// the operation is issued at the very instant the peer's frame arrives (both are waiting when the engines
    /// next run), under the same back-pressure; then the stall is released
    SameInstant,
}
pub const GWHENS: [GWhen; 4] = [GWhen::BeforeFault, GWhen::WhileStuck, GWhen::AfterRelease, GWhen::SameInstant];

#[derive(Debug, Clone, Copy, PartialEq, Eq, Hash)]
pub struct GCase {
    pub flt: GFlt,
    pub cb: usize,
    pub sb: usize,
    pub op: GOp,
    pub when: GWhen,
}

/// does the fault stop the scope the operation works on?
fn g_affected(op: GOp, f: GFlt) -> bool {
    match op {
        GOp::SendAffected => true,
        GOp::SendSibling | GOp::Recv | GOp::Attach => f.conn() || f.sess(),
        GOp::Begin => f.conn(),
    }
}

#[derive(Debug, Clone, Default)]
pub struct GObs {
    pub machinery: Option<String>,
    pub op_result: String,
    pub op_done_while_stalled: bool,
    /// BeforeFault only: the send that was already in flight on the other sender link of session A
    pub inflight: Option<(String, String)>,
    /// the multi-frame send on session B that produces the back-pressure
    pub bulk_result: String,
    pub followups: Vec<(String, String)>,
    pub alive_tasks_end: usize,
    /// frames of session B the library wrote between the start of the stall and its answer to the peer's frame
    pub b_frames_before_answer: usize,
    /// the library's answer (end / close) was not in the channel when the stall began: it waited for room
    pub answer_waited: bool,
    pub trace: Vec<String>,
}

pub async fn scenario_g(c: GCase) -> GObs {
    let mut obs = GObs::default();
    let mut acc = Acc::default();
    let (pipe, a, _b) = Pipe::new();
    let mut auto = Auto::default();
    auto.grant_credit = Some(100);
    let mut peer = Peer::new(pipe.clone(), 1, auto);
    macro_rules! must {
        ($what:expr, $e:expr) => {
            match $e {
                Some(Ok(x)) => x,
                Some(Err(e)) => {
                    obs.machinery = Some(format!("part G {:?}: {} failed: {:?}", c, $what, e));
                    return obs;
                }
                None => {
                    obs.machinery = Some(format!("part G {:?}: {} hung", c, $what));
                    return obs;
                }
            }
        };
    }
    let mut conn = must!("open", drive_acc(&mut peer, &mut acc, Connection::builder().container_id("lib").max_frame_size(512).buffer_size(c.cb).open_with_stream(a), scen::H).await);
    let mut sess_a = must!("begin A", drive_acc(&mut peer, &mut acc, Session::builder().buffer_size(c.sb).begin(&mut conn), scen::H).await);
    let mut sess_b = must!("begin B", drive_acc(&mut peer, &mut acc, Session::builder().buffer_size(c.sb).begin(&mut conn), scen::H).await);
    let s = must!("attach s", drive_acc(&mut peer, &mut acc, Sender::builder().name("s").target("q").sender_settle_mode(SenderSettleMode::Unsettled).attach(&mut sess_a), scen::H).await);
    let s2 = must!("attach s2", drive_acc(&mut peer, &mut acc, Sender::builder().name("s2").target("q").sender_settle_mode(SenderSettleMode::Unsettled).attach(&mut sess_a), scen::H).await);
    let r = must!("attach r", drive_acc(&mut peer, &mut acc, Receiver::builder().name("r").source("q").credit_mode(CreditMode::Auto(5)).attach(&mut sess_a), scen::H).await);
    let mut sbulk = must!("attach sb", drive_acc(&mut peer, &mut acc, Sender::builder().name("sb").target("q").sender_settle_mode(SenderSettleMode::Unsettled).attach(&mut sess_b), scen::H).await);
    settle_acc(&mut peer, &mut acc, 2).await;
    let link = |peer: &Peer, name: &str| peer.links.iter().find(|l| l.name == name).map(|l| (l.lib_channel, l.our_handle));
    let (Some((ch_a, h_s)), Some((_, h_r)), Some((ch_b, _))) = (link(&peer, "s"), link(&peer, "r"), link(&peer, "sb")) else {
        obs.machinery = Some(format!("part G {:?}: the peer does not know the links", c));
        return obs;
    };
    let ch_a_peer = peer.our_channel(ch_a);
    let trace_mark = peer.trace.len();

    enum Back {
        S(Sender),
        S2(Sender),
        R(Receiver),
        Sess(fe2o3_amqp::session::SessionHandle<()>),
        Conn(fe2o3_amqp::connection::ConnectionHandle<()>, Option<fe2o3_amqp::session::SessionHandle<()>>),
    }
    let mut s_opt = Some(s);
    let mut s2_opt = Some(s2);
    let mut r_opt = Some(r);
    let mut sess_a_opt = Some(sess_a);
    let mut conn_opt = Some(conn);
    let mut extra_session: Option<fe2o3_amqp::session::SessionHandle<()>> = None;

    // ---- back-pressure.  Step 1: the transport takes nothing any more and a sender of session B hands over
    // N_BULK small deliveries: one sits in the connection engine's write, `cb` in the session->connection
    // channel, B's engine waits for room with the next one, the rest wait in the link and in the task.
    pipe.stall_writes(0, true);
    let bulk = tokio::spawn(async move {
        let mut res = "ok".to_string();
        let mut futs = vec![];
        for _ in 0..N_BULK {
            match tokio::time::timeout(OP_TIMEOUT, sbulk.send_batchable("b".repeat(100))).await {
                Ok(Ok(f)) => futs.push(f),
                Ok(Err(e)) => {
                    res = format!("err:{:?}", e);
                    break;
                }
                Err(_) => {
                    res = "TIMEOUT".to_string();
                    break;
                }
            }
        }
        for f in futs {
            let r = op(f).await;
            if res == "ok" && r != "ok" {
                res = r;
            }
        }
        (res, sbulk)
    });
    settle_acc(&mut peer, &mut acc, 3).await;
    // Step 2 (`squeeze`): a connection engine that sits in a stalled write does not read.  So that it READS the
    // peer's frame and is stuck again at once, the stall is replaced by a transport that takes PIPE_ROOM more
    // bytes (the frame in progress and the beginning of the next one) and then nothing, until `release`: the
    // engine finishes its write, reads the peer's frame (its select looks at the transport first), takes the
    // next frame out of the channel and blocks in that write; the channel is refilled by B's engine and stays
    // full.  The scripted peer must not take bytes in between (that would make room), hence `quiesce`.
    let squeeze = |pipe: &Pipe| {
        pipe.set_capacity(0, PIPE_ROOM);
        pipe.stall_writes(0, false);
    };
    let release = |pipe: &Pipe| pipe.set_capacity(0, usize::MAX);
    async fn quiesce(rounds: usize) {
        for _ in 0..rounds {
            tokio::time::sleep(Duration::from_millis(1)).await;
        }
    }
    let fault = |peer: &mut Peer| match c.flt {
        GFlt::EndErr => peer.send(ch_a_peer, Performative::End(End { error: Some(cond()) })),
        GFlt::End => peer.send(ch_a_peer, Performative::End(End { error: None })),
        GFlt::DetachSErr => peer.send(ch_a_peer, Performative::Detach(Detach { handle: Handle(h_s), closed: true, error: Some(cond()) })),
        GFlt::CloseErr => peer.send(0, Performative::Close(Close { error: Some(cond()) })),
        GFlt::CloseBehindEndErr => {
            peer.send(ch_a_peer, Performative::End(End { error: Some(cond()) }));
            peer.send(0, Performative::Close(Close { error: None }));
        }
    };
    macro_rules! spawn_op {
        ($op:expr) => {
            match $op {
                GOp::SendAffected => {
                    let mut s = s_opt.take().unwrap();
                    tokio::spawn(async move {
                        let r = op(s.send("the operation")).await;
                        (r, Back::S(s))
                    })
                }
                GOp::SendSibling => {
                    let mut s = s2_opt.take().unwrap();
                    tokio::spawn(async move {
                        let r = op(s.send("the operation")).await;
                        (r, Back::S2(s))
                    })
                }
                GOp::Recv => {
                    let mut r = r_opt.take().unwrap();
                    tokio::spawn(async move {
                        let res = op(r.recv::<Value>()).await;
                        (res, Back::R(r))
                    })
                }
                GOp::Attach => {
                    let mut sess = sess_a_opt.take().unwrap();
                    tokio::spawn(async move {
                        let res = op(Sender::attach(&mut sess, "s9", "q9")).await;
                        (res, Back::Sess(sess))
                    })
                }
                GOp::Begin => {
                    let mut conn = conn_opt.take().unwrap();
                    tokio::spawn(async move {
                        match tokio::time::timeout(OP_TIMEOUT, Session::begin(&mut conn)).await {
                            Err(_) => ("TIMEOUT".to_string(), Back::Conn(conn, None)),
                            Ok(Ok(s)) => ("ok".to_string(), Back::Conn(conn, Some(s))),
                            Ok(Err(e)) => (format!("err:{:?}", e), Back::Conn(conn, None)),
                        }
                    })
                }
            }
        };
    }
    let mut inflight_task = None;
    let mut inflight_name = "";
    let mut op_task;
    match c.when {
        GWhen::BeforeFault => {
            // session A has a send in flight on its other sender link, then the operation is issued
            let other = if c.op == GOp::SendAffected { GOp::SendSibling } else { GOp::SendAffected };
            inflight_name = if other == GOp::SendAffected { "send" } else { "send-sibling" };
            inflight_task = Some(spawn_op!(other));
            quiesce(2).await;
            op_task = spawn_op!(c.op);
            quiesce(2).await;
            fault(&mut peer);
            squeeze(&pipe);
            quiesce(3).await;
            obs.op_done_while_stalled = op_task.is_finished();
            release(&pipe);
        }
        GWhen::WhileStuck => {
            fault(&mut peer);
            squeeze(&pipe);
            quiesce(3).await;
            op_task = spawn_op!(c.op);
            quiesce(3).await;
            obs.op_done_while_stalled = op_task.is_finished();
            release(&pipe);
        }
        GWhen::SameInstant => {
            op_task = spawn_op!(c.op);
            fault(&mut peer);
            squeeze(&pipe);
            quiesce(4).await;
            obs.op_done_while_stalled = op_task.is_finished();
            release(&pipe);
        }
        GWhen::AfterRelease => {
            fault(&mut peer);
            squeeze(&pipe);
            quiesce(3).await;
            release(&pipe);
            settle_acc(&mut peer, &mut acc, 3).await;
            op_task = spawn_op!(c.op);
        }
    }
    settle_acc(&mut peer, &mut acc, 2).await;
    // a recv() on a link the fault does not concern: the peer now has a message for it
    if c.op == GOp::Recv && !g_affected(c.op, c.flt) {
        let (p, payload) = transfer_to(h_r, 0);
        peer.send_perf(ch_a_peer, p, &payload);
    }
    macro_rules! take_back {
        ($b:expr) => {
            match $b {
                Back::S(x) => s_opt = Some(x),
                Back::S2(x) => s2_opt = Some(x),
                Back::R(x) => r_opt = Some(x),
                Back::Sess(x) => sess_a_opt = Some(x),
                Back::Conn(x, e) => {
                    conn_opt = Some(x);
                    extra_session = e;
                }
            }
        };
    }
    match drive_acc(&mut peer, &mut acc, &mut op_task, LONG).await {
        Some(Ok((res, back))) => {
            obs.op_result = res;
            take_back!(back);
        }
        Some(Err(e)) => obs.op_result = format!("TASK-PANIC:{e}"),
        None => {
            obs.op_result = "TIMEOUT".into();
            op_task.abort();
        }
    }
    if let Some(mut t) = inflight_task {
        match drive_acc(&mut peer, &mut acc, &mut t, LONG).await {
            Some(Ok((res, back))) => {
                obs.inflight = Some((inflight_name.to_string(), res));
                take_back!(back);
            }
            Some(Err(e)) => obs.inflight = Some((inflight_name.to_string(), format!("TASK-PANIC:{e}"))),
            None => {
                obs.inflight = Some((inflight_name.to_string(), "TIMEOUT".into()));
                t.abort();
            }
        }
    }
    let mut bulk = bulk;
    let mut sbulk_opt = None;
    match drive_acc(&mut peer, &mut acc, &mut bulk, LONG).await {
        Some(Ok((res, sb))) => {
            obs.bulk_result = res;
            sbulk_opt = Some(sb);
        }
        Some(Err(e)) => obs.bulk_result = format!("TASK-PANIC:{e}"),
        None => {
            obs.bulk_result = "TIMEOUT".into();
            bulk.abort();
        }
    }
    // ---- was the answer really waiting for room?  (frames the library wrote since the stall began)
    {
        let mut b_frames = 0usize;
        let mut seen = false;
        for w in peer.trace[trace_mark..].iter().filter(|w| w.dir == Dirn::FromLib) {
            match &w.body {
                Body::Perf(Performative::End(_)) if w.channel == ch_a && c.flt.sess() => {
                    seen = true;
                    break;
                }
                Body::Perf(Performative::Close(_)) if c.flt == GFlt::CloseErr => {
                    seen = true;
                    break;
                }
                Body::Perf(Performative::Transfer(_)) if w.channel == ch_b => b_frames += 1,
                _ => {}
            }
        }
        obs.b_frames_before_answer = b_frames;
        // one frame was in the connection engine's write when the peer's frame came, the next one is the write it
        // blocks in afterwards, `cb` more fill the channel: an answer behind all of them had to wait for room
        // (the answering close is not queued: it waits behind the write of the frames drained from the channel)
        obs.answer_waited = seen && if c.flt == GFlt::CloseErr { b_frames >= 2 } else { b_frames >= c.cb + 2 };
    }
    // ---- follow-up calls on every handle (as in part B); the peer answers everything
    let (cl, sl, ll) = (c.flt.conn(), c.flt.sess(), c.flt.link_s());
    if let Some(s) = s_opt.as_mut().filter(|_| cl || sl || ll) {
        let r = drive_acc(&mut peer, &mut acc, op(s.send("after the fault")), LONG).await.unwrap_or("TIMEOUT".into());
        obs.followups.push(("send".into(), r));
    }
    if let Some(s) = s2_opt.as_mut().filter(|_| cl || sl) {
        let r = drive_acc(&mut peer, &mut acc, op(s.send("after the fault")), LONG).await.unwrap_or("TIMEOUT".into());
        obs.followups.push(("send-sibling".into(), r));
    }
    if let Some(r) = r_opt.as_mut().filter(|_| cl || sl) {
        let res = drive_acc(&mut peer, &mut acc, op(r.recv::<Value>()), LONG).await.unwrap_or("TIMEOUT".into());
        obs.followups.push(("recv".into(), res));
    }
    if let Some(s) = sbulk_opt.as_mut().filter(|_| cl) {
        let r = drive_acc(&mut peer, &mut acc, op(s.send("after the fault")), LONG).await.unwrap_or("TIMEOUT".into());
        obs.followups.push(("send-other-session".into(), r));
    }
    if let Some(sess) = sess_a_opt.as_mut().filter(|_| cl || sl) {
        let res = drive_acc(&mut peer, &mut acc, op(Sender::attach(sess, "s3", "q3")), LONG).await.unwrap_or("TIMEOUT".into());
        obs.followups.push(("attach".into(), res));
    }
    if let Some(conn) = conn_opt.as_mut().filter(|_| cl) {
        let res = drive_acc(&mut peer, &mut acc, op(Session::begin(conn)), LONG).await.unwrap_or("TIMEOUT".into());
        obs.followups.push(("begin".into(), res));
    }
    if let Some(s) = s_opt.take() {
        let res = drive_acc(&mut peer, &mut acc, op(s.close()), LONG).await.unwrap_or("TIMEOUT".into());
        obs.followups.push(("sender.close".into(), res));
    }
    if let Some(s) = s2_opt.take() {
        let res = drive_acc(&mut peer, &mut acc, op(s.close()), LONG).await.unwrap_or("TIMEOUT".into());
        obs.followups.push(("sibling.close".into(), res));
    }
    if let Some(r) = r_opt.take() {
        let res = drive_acc(&mut peer, &mut acc, op(r.close()), LONG).await.unwrap_or("TIMEOUT".into());
        obs.followups.push(("receiver.close".into(), res));
    }
    if let Some(s) = sbulk_opt.take() {
        let res = drive_acc(&mut peer, &mut acc, op(s.close()), LONG).await.unwrap_or("TIMEOUT".into());
        obs.followups.push(("other-session-sender.close".into(), res));
    }
    if let Some(mut sess) = sess_a_opt.take() {
        let res = drive_acc(&mut peer, &mut acc, op(sess.end()), LONG).await.unwrap_or("TIMEOUT".into());
        obs.followups.push(("session.end".into(), res));
    }
    if let Some(mut sess) = extra_session.take() {
        let res = drive_acc(&mut peer, &mut acc, op(sess.end()), LONG).await.unwrap_or("TIMEOUT".into());
        obs.followups.push(("new-session.end".into(), res));
    }
    {
        let res = drive_acc(&mut peer, &mut acc, op(sess_b.end()), LONG).await.unwrap_or("TIMEOUT".into());
        obs.followups.push(("other-session.end".into(), res));
        drop(sess_b);
    }
    if let Some(mut conn) = conn_opt.take() {
        let res = drive_acc(&mut peer, &mut acc, op(conn.close()), LONG).await.unwrap_or("TIMEOUT".into());
        obs.followups.push(("connection.close".into(), res));
    }
    settle_acc(&mut peer, &mut acc, 3).await;
    obs.alive_tasks_end = tokio::runtime::Handle::current().metrics().num_alive_tasks();
    obs.trace = trace_to_strings(&peer.trace[trace_mark..]);
    obs
}

fn g_op_name(o: GOp) -> &'static str {
    match o {
        GOp::SendAffected => "send",
        GOp::SendSibling => "send-sibling",
        GOp::Recv => "recv",
        GOp::Attach => "attach",
        GOp::Begin => "begin",
    }
}

pub fn judge_g(c: &GCase, o: &GObs, panics: &[String]) -> Vec<(String, String)> {
    let mut f = vec![];
    let what = format!("back-pressure (connection buffer {}, session buffer {}, the transport takes no more bytes, 8 deliveries of another session queued); fault={:?} op={:?} issued {:?}", c.cb, c.sb, c.flt, c.op, c.when);
    let all = || format!("operation -> {}; in flight {:?}; other session's delivery -> {}; follow-ups {:?}; trace since the stall {:?}", o.op_result, o.inflight, o.bulk_result, o.followups, o.trace);
    let (cl, sl) = (c.flt.conn(), c.flt.sess());
    let scope_name = if cl { "connection" } else if sl { "session" } else { "link" };
    let opn = g_op_name(c.op);
    for p in panics.iter().filter(|p| !p.contains("vcheck/src")) {
        f.push((format!("panic under back-pressure fault={:?}", c.flt), format!("{what}: a library task panicked: {p}")));
    }
    // ---- nothing hangs (the stall has been released, the peer answers everything it is asked)
    if o.op_result == "TIMEOUT" {
        f.push((format!("bp-op-hangs fault={:?} op={opn} when={:?}", c.flt, c.when), format!("{what}: the operation never completed (120 s of virtual time after the stall was released); {}", all())));
    }
    if let Some((n, r)) = &o.inflight {
        if r == "TIMEOUT" {
            f.push((format!("bp-op-hangs fault={:?} op={n} (in flight) when={:?}", c.flt, c.when), format!("{what}: the send that was in flight never completed; {}", all())));
        }
    }
    if o.bulk_result == "TIMEOUT" {
        f.push((format!("bp-op-hangs fault={:?} op=send-other-session when={:?}", c.flt, c.when), format!("{what}: the delivery of the other session never completed; {}", all())));
    }
    for (name, r) in &o.followups {
        if r == "TIMEOUT" {
            f.push((format!("bp-op-after-fault-hangs fault={:?} op={name}", c.flt), format!("{what}: {name} issued afterwards never completed; {}", all())));
        }
    }
    // ---- data-path operations on a stopped scope fail
    if g_affected(c.op, c.flt) && o.op_result == "ok" {
        f.push((format!("bp-op-succeeds fault={:?} op={opn} when={:?}", c.flt, c.when), format!("{what}: the operation returned Ok although its {scope_name} had stopped; {}", all())));
    }
    if let Some((n, r)) = &o.inflight {
        let other = if n == "send" { GOp::SendAffected } else { GOp::SendSibling };
        if g_affected(other, c.flt) && r == "ok" {
            f.push((format!("bp-op-succeeds fault={:?} op={n} (in flight) when={:?}", c.flt, c.when), format!("{what}: the send in flight returned Ok although its {scope_name} stopped and the peer never settled it; {}", all())));
        }
    }
    if cl && o.bulk_result == "ok" {
        f.push((format!("bp-op-succeeds fault={:?} op=send-other-session when={:?}", c.flt, c.when), format!("{what}: the delivery of the other session returned Ok although the connection stopped and the peer never settled it; {}", all())));
    }
    for (name, r) in &o.followups {
        if matches!(name.as_str(), "send" | "send-sibling" | "send-other-session" | "recv" | "attach" | "begin") && r == "ok" {
            f.push((format!("bp-op-after-fault-succeeds fault={:?} op={name}", c.flt), format!("{what}: {name} returned Ok although its {scope_name} had stopped; {}", all())));
        }
    }
    // ---- what the errors say: judged on the FIRST data-path call that observes the stop on each link handle
    // (the operation itself, the send that was in flight, or else the follow-up call).
    // CloseBehindEndErr: both "the session was ended with <condition>" and "the connection was closed by the peer"
    // are true answers for a link; only the session handle is judged there (below).
    if c.flt != GFlt::CloseBehindEndErr {
        let fu = |n: &str| o.followups.iter().find(|(name, _)| name == n).map(|(_, r)| r.clone());
        let first_on = |handle: &str| -> Option<String> {
            if opn == handle && g_affected(c.op, c.flt) {
                return Some(o.op_result.clone());
            }
            if let Some((n, r)) = &o.inflight {
                if n == handle {
                    return Some(r.clone());
                }
            }
            fu(handle)
        };
        let mut firsts: Vec<(&str, String)> = vec![];
        for h in ["send", "send-sibling", "recv"] {
            let stopped = cl || sl || (h == "send" && c.flt.link_s());
            if stopped {
                if let Some(r) = first_on(h) {
                    firsts.push((h, r));
                }
            }
        }
        if cl {
            firsts.push(("send-other-session", o.bulk_result.clone()));
        }
        for (name, r) in firsts {
            if !r.starts_with("err:") {
                continue;
            }
            if c.flt.carries() && !r.contains(COND_DBG) {
                f.push((format!("bp-peer-error-lost fault={:?} op={name} when={:?}", c.flt, c.when), format!("{what}: the peer supplied the condition resource-limit-exceeded but the first {name} to observe the stop reports {r}; {}", all())));
            }
            let scope_ok = if cl {
                r.contains("Connection") || r.contains("Transport") || r.contains("Io(")
            } else if sl {
                r.contains("Session") || r.contains("RemoteEnded")
            } else {
                r.contains("Detach") || r.contains("RemoteClosed") || r.contains("Closed")
            };
            if !scope_ok {
                f.push((format!("bp-wrong-scope fault={:?} op={name} when={:?}", c.flt, c.when), format!("{what}: the first {name} to observe the stop reports {r}, which does not say that the {scope_name} stopped; {}", all())));
            }
        }
    }
    // ---- the handle of the stopped scope reports the peer's error itself (first teardown call on it)
    if let Some((_, r)) = o.followups.iter().find(|(n, _)| n == "connection.close") {
        if c.flt == GFlt::CloseErr && !r.contains(COND_DBG) {
            f.push((format!("bp-connection-handle-lost-peer-error fault={:?} when={:?}", c.flt, c.when), format!("{what}: connection.close() reports {r}, the peer closed with resource-limit-exceeded; {}", all())));
        }
    }
    // CloseBehindEndErr: a session that was still busy when both frames came may stop because of the close
    // without ever having looked at the end; "the connection was closed by the peer" is then the truth for
    // it.  The session handle is judged there only if a link of that session was told that the peer ENDED
    // the session (then the session did see the end, and its own handle has to know as well).
    let links_know_the_end = std::iter::once(&o.op_result).chain(o.inflight.iter().map(|(_, r)| r)).chain(o.followups.iter().filter(|(n, _)| matches!(n.as_str(), "send" | "send-sibling" | "recv" | "attach")).map(|(_, r)| r)).any(|r| r.contains("RemoteEnded"));
    if let Some((_, r)) = o.followups.iter().find(|(n, _)| n == "session.end") {
        if (c.flt == GFlt::EndErr || (c.flt == GFlt::CloseBehindEndErr && links_know_the_end)) && !r.contains(COND_DBG) {
            f.push((format!("bp-session-handle-lost-peer-error fault={:?} when={:?}", c.flt, c.when), format!("{what}: session.end() reports {r}, the peer ended the session with resource-limit-exceeded; {}", all())));
        }
    }
    if o.alive_tasks_end > 0 && cl {
        f.push((format!("bp-engine-tasks-alive fault={:?}", c.flt), format!("{what}: {} task(s) still alive after every handle was closed/dropped; {}", o.alive_tasks_end, all())));
    }
    f
}

pub fn g_cases(quick: bool) -> Vec<GCase> {
    let caps: &[usize] = if quick { &[1, 2] } else { &[1, 2, 3] };
    let mut v = vec![];
    for flt in GFAULTS {
        for &cb in caps {
            for &sb in caps {
                for op in GOPS {
                    for when in GWHENS {
                        v.push(GCase { flt, cb, sb, op, when });
                    }
                }
            }
        }
    }
    v
}

pub fn g_case_json(c: &GCase) -> serde_json::Value {
    serde_json::json!({"part": "G", "fault": format!("{:?}", c.flt), "cb": c.cb, "sb": c.sb, "op": format!("{:?}", c.op), "when": format!("{:?}", c.when)})
}
pub fn g_case_from_json(r: &serde_json::Value) -> Option<GCase> {
    let flt = GFAULTS.iter().copied().find(|x| format!("{:?}", x) == r["fault"].as_str().unwrap_or(""))?;
    let op = GOPS.iter().copied().find(|x| format!("{:?}", x) == r["op"].as_str().unwrap_or(""))?;
    let when = GWHENS.iter().copied().find(|x| format!("{:?}", x) == r["when"].as_str().unwrap_or(""))?;
    Some(GCase { flt, cb: r["cb"].as_u64()? as usize, sb: r["sb"].as_u64()? as usize, op, when })
}

// ================================================================================================ Part H
#[derive(Debug, Clone, Copy, PartialEq, Eq, Hash)]
pub enum HKind {
    ClosedErr,
    Closed,
    OpenErr,
    Open,
}
pub const HKINDS: [HKind; 4] = [HKind::ClosedErr, HKind::Closed, HKind::OpenErr, HKind::Open];
impl HKind {
    fn closed(self) -> bool {
        matches!(self, HKind::ClosedErr | HKind::Closed)
    }
    fn carries(self) -> bool {
        matches!(self, HKind::ClosedErr | HKind::OpenErr)
    }
}
#[derive(Debug, Clone, Copy, PartialEq, Eq, Hash)]
pub enum HOp {
    Detach,
    Close,
    /// recv() until it fails, then detach()
    RecvThenDetach,
    /// a delivery taken BEFORE the peer detached is accepted after the peer's detach has arrived, then detach()
    AcceptThenDetach,
}
pub const HOPS: [HOp; 4] = [HOp::Detach, HOp::Close, HOp::RecvThenDetach, HOp::AcceptThenDetach];
#[derive(Debug, Clone, Copy, PartialEq, Eq, Hash)]
pub enum HWhen {
    /// the peer's detach has arrived before the application's call
    Before,
    /// the peer's detach is what the peer sends when it sees the detach of the application's call
    Answer,
}
#[derive(Debug, Clone, Copy, PartialEq, Eq, Hash)]
pub struct HCase {
    pub n: usize,
    pub kind: HKind,
    pub op: HOp,
    pub when: HWhen,
}

pub fn h_cases(quick: bool) -> Vec<HCase> {
    let ns: &[usize] = if quick { &[0, 1, 3] } else { &[0, 1, 2, 3, 5, 8] };
    let mut v = vec![];
    for &n in ns {
        for kind in HKINDS {
            for op in HOPS {
                v.push(HCase { n, kind, op, when: HWhen::Before });
            }
            // in answer to the application's own detach: a non-closing detach may be answered in kind or cross
            // a closing one; a closing detach is answered by a closing one
            v.push(HCase { n, kind, op: HOp::Detach, when: HWhen::Answer });
            if kind.closed() {
                v.push(HCase { n, kind, op: HOp::Close, when: HWhen::Answer });
            }
        }
    }
    v
}

#[derive(Debug, Clone, Default)]
pub struct HObs {
    pub machinery: Option<String>,
    /// results of the recv() calls of RecvThenDetach
    pub recvs: Vec<String>,
    pub accept: Option<String>,
    pub teardown: String,
    pub followups: Vec<(String, String)>,
    pub buffered_really: usize,
    pub alive_tasks_end: usize,
    pub trace: Vec<String>,
}

pub async fn scenario_h(c: HCase) -> HObs {
    let mut obs = HObs::default();
    let mut auto = Auto::default();
    auto.max_frame_size = 4096;
    let mut cl = match scen::open_client(auto, 4096).await {
        Ok(c) => c,
        Err(e) => {
            obs.machinery = Some(e);
            return obs;
        }
    };
    let mut session = match scen::begin(&mut cl, Session::builder()).await {
        Ok(s) => s,
        Err(e) => {
            obs.machinery = Some(e);
            return obs;
        }
    };
    let peer = &mut cl.peer;
    let mut receiver = match vlib::peer::drive(peer, Receiver::builder().name("r").source("q").credit_mode(CreditMode::Auto(10)).attach(&mut session), scen::H).await {
        Some(Ok(r)) => r,
        other => {
            obs.machinery = Some(format!("part H: receiver attach: {:?}", other.map(|r| r.map(|_| ()).map_err(|e| format!("{e:?}")))));
            return obs;
        }
    };
    vlib::peer::settle(peer, 2).await;
    let Some(h_r) = peer.links.iter().find(|l| l.name == "r").map(|l| l.our_handle) else {
        obs.machinery = Some("part H: the peer does not know the link".into());
        return obs;
    };
    let mut next_id = 0u32;
    let mut taken = None;
    if c.op == HOp::AcceptThenDetach {
        let (p, payload) = transfer_to(h_r, next_id);
        next_id += 1;
        peer.send_perf(0, p, &payload);
        match vlib::peer::drive(peer, tokio::time::timeout(OP_TIMEOUT, receiver.recv::<Value>()), LONG).await {
            Some(Ok(Ok(d))) => taken = Some(d),
            other => {
                obs.machinery = Some(format!("part H: the delivery to be accepted later did not arrive: {:?}", other.map(|r| r.map(|r| r.map(|_| ()).map_err(|e| format!("{e:?}"))))));
                return obs;
            }
        }
    }
    // ---- N deliveries the application does not take
    for _ in 0..c.n {
        let (p, payload) = transfer_to(h_r, next_id);
        next_id += 1;
        peer.send_perf(0, p, &payload);
    }
    let detach = Performative::Detach(Detach { handle: Handle(h_r), closed: c.kind.closed(), error: if c.kind.carries() { Some(cond()) } else { None } });
    if c.when == HWhen::Before {
        peer.send(0, detach.clone());
    }
    vlib::peer::settle(peer, 2).await;
    obs.buffered_really = peer.trace.iter().filter(|w| w.dir == Dirn::FromPeer && matches!(w.perf(), Some(Performative::Transfer(_)))).count() - if taken.is_some() { 1 } else { 0 };
    // ---- the application's calls
    if c.op == HOp::RecvThenDetach {
        for _ in 0..=c.n {
            let r = vlib::peer::drive(peer, op(receiver.recv::<Value>()), LONG).await.unwrap_or("TIMEOUT".into());
            let stop = r != "ok";
            obs.recvs.push(r);
            if stop {
                break;
            }
        }
    }
    if let Some(d) = &taken {
        let r = vlib::peer::drive(peer, op(receiver.accept(d)), LONG).await.unwrap_or("TIMEOUT".into());
        obs.accept = Some(r);
    }
    let close = c.op == HOp::Close;
    if c.when == HWhen::Answer {
        peer.auto.detach = false;
    }
    let mut task = tokio::spawn(async move {
        if close {
            op(receiver.close()).await
        } else {
            op(async { receiver.detach().await.map(|_| ()).map_err(|(_, e)| e) }).await
        }
    });
    if c.when == HWhen::Answer {
        vlib::peer::settle(peer, 2).await;
        let lib_detached = peer.trace.iter().any(|w| w.dir == Dirn::FromLib && matches!(w.perf(), Some(Performative::Detach(_))));
        if !lib_detached {
            obs.machinery = Some(format!("part H {:?}: the library's detach did not reach the wire: {:?}", c, trace_to_strings(&peer.trace)));
            task.abort();
            return obs;
        }
        peer.send(0, detach.clone());
        // from here on the peer answers everything again (also a re-attach of the link and its closing detach)
        peer.auto.detach = true;
    }
    obs.teardown = match vlib::peer::drive(peer, &mut task, LONG).await {
        Some(Ok(r)) => r,
        Some(Err(e)) => format!("TASK-PANIC:{e}"),
        None => {
            task.abort();
            "TIMEOUT".into()
        }
    };
    let res = vlib::peer::drive(peer, op(session.end()), LONG).await.unwrap_or("TIMEOUT".into());
    obs.followups.push(("session.end".into(), res));
    drop(session);
    let res = vlib::peer::drive(peer, op(cl.conn.close()), LONG).await.unwrap_or("TIMEOUT".into());
    obs.followups.push(("connection.close".into(), res));
    drop(cl.conn);
    vlib::peer::settle(peer, 3).await;
    obs.alive_tasks_end = tokio::runtime::Handle::current().metrics().num_alive_tasks();
    obs.trace = trace_to_strings(&peer.trace);
    obs
}

pub fn judge_h(c: &HCase, o: &HObs, panics: &[String]) -> Vec<(String, String)> {
    let mut f = vec![];
    let buffered = if c.n == 0 { "none" } else { "some" };
    let what = format!("receiving link with {} delivery(ies) not taken by the application; the peer sends detach {:?} ({}); the application calls {:?}", c.n, c.kind, if c.when == HWhen::Before { "it has arrived before the call" } else { "in answer to the call's own detach" }, c.op);
    let all = || format!("recv -> {:?}; accept -> {:?}; teardown -> {}; follow-ups {:?}; trace {:?}", o.recvs, o.accept, o.teardown, o.followups, o.trace);
    let tag = format!("op={:?} peer-detach={:?} when={:?}", c.op, c.kind, c.when);
    for p in panics.iter().filter(|p| !p.contains("vcheck/src")) {
        f.push((format!("panic receiver-teardown peer-detach={:?}", c.kind), format!("{what}: a library task panicked: {p}")));
    }
    // ---- the calls return (the peer answers everything, also a re-attach)
    if o.teardown == "TIMEOUT" {
        f.push((format!("rx-teardown-hangs {tag} buffered={buffered}"), format!("{what}: the teardown call never returned (120 s of virtual time); {}", all())));
    }
    for r in &o.recvs {
        if r == "TIMEOUT" {
            f.push((format!("rx-recv-hangs {tag} buffered={buffered}"), format!("{what}: recv() never returned; {}", all())));
        }
    }
    if o.accept.as_deref() == Some("TIMEOUT") {
        f.push((format!("rx-accept-hangs {tag} buffered={buffered}"), format!("{what}: accept() never returned; {}", all())));
    }
    for (name, r) in &o.followups {
        if r == "TIMEOUT" {
            f.push((format!("rx-op-after-teardown-hangs op={name} peer-detach={:?}", c.kind), format!("{what}: {name} never returned; {}", all())));
        }
    }
    // ---- the peer's detach had arrived: data-path calls fail once the buffered deliveries are handed out
    // (recv() may first hand out the deliveries that arrived before the detach)
    if c.op == HOp::RecvThenDetach {
        if o.recvs.len() == c.n + 1 && o.recvs.iter().all(|r| r == "ok") {
            f.push((format!("rx-recv-succeeds-after-detach {tag} buffered={buffered}"), format!("{what}: {} recv() calls returned Ok although only {} deliveries were sent before the peer detached; {}", o.recvs.len(), c.n, all())));
        }
    }
    if c.when == HWhen::Before && o.accept.as_deref() == Some("ok") {
        f.push((format!("op-after-fault-succeeds op=accept peer-detach={:?}", c.kind), format!("{what}: accept() of a delivery taken earlier returned Ok although the peer's detach had already arrived at the link; {}", all())));
    }
    // ---- the first call that observes the peer's detach says so and carries the peer's condition
    let first: Option<(&str, String)> = match c.op {
        HOp::RecvThenDetach => o.recvs.iter().find(|r| r.starts_with("err:")).map(|r| ("recv", r.clone())),
        HOp::AcceptThenDetach => match &o.accept {
            Some(r) if r.starts_with("err:") && r.contains(COND_DBG) => Some(("accept", r.clone())),
            _ => Some(("teardown", o.teardown.clone())),
        },
        _ => Some(("teardown", o.teardown.clone())),
    };
    if let Some((name, r)) = first {
        if r != "TIMEOUT" && !r.starts_with("TASK-PANIC") {
            if c.kind.carries() && !r.contains(COND_DBG) {
                f.push((format!("rx-peer-error-lost {tag} first={name} buffered={buffered}"), format!("{what}: the peer supplied the condition resource-limit-exceeded but the first call to observe its detach ({name}) reports {r}; {}", all())));
            }
            if r.starts_with("err:") && !(r.contains("Detach") || r.contains("RemoteClosed") || r.contains("Closed")) {
                f.push((format!("rx-wrong-scope {tag} first={name} buffered={buffered}"), format!("{what}: {name} reports {r}, which does not say that the link was detached; {}", all())));
            }
        }
    }
    f
}

pub fn h_case_json(c: &HCase) -> serde_json::Value {
    serde_json::json!({"part": "H", "n": c.n, "kind": format!("{:?}", c.kind), "op": format!("{:?}", c.op), "when": format!("{:?}", c.when)})
}
pub fn h_case_from_json(r: &serde_json::Value) -> Option<HCase> {
    let kind = HKINDS.iter().copied().find(|x| format!("{:?}", x) == r["kind"].as_str().unwrap_or(""))?;
    let op = HOPS.iter().copied().find(|x| format!("{:?}", x) == r["op"].as_str().unwrap_or(""))?;
    let when = if r["when"] == "Answer" { HWhen::Answer } else { HWhen::Before };
    Some(HCase { n: r["n"].as_u64()? as usize, kind, op, when })
}
