//! C18 schedule exploration: a commit racing with posts, real client against real listener, every schedule
//! within a deviation bound.
//!
//! Set-up (sequential): controller, t1 and t2 declared, m1 posted under t1 on link 1.  Then three client tasks run
//! concurrently: A commits t1; B posts m2 outside any transaction on link 1; C posts m3 (3 frames) under t2 on
//! link 2.  t2 is never discharged.  Oracle (statement): at the final quiescent state the application has seen
//! m1 and m2 exactly once and never m3; m1 is not seen before the commit was issued.
use super::common::*;
use fe2o3_amqp::transaction::{Controller, Transaction, TransactionDischarge, TransactionPosting};
use fe2o3_amqp::{Connection, Sender, Session};
use serde_json::json;
use std::sync::Arc;
use std::time::{Duration, Instant};
use tokio::time::timeout;
use vlib::explore::{explore, Bounds};
use vlib::report::{Ctx, Outcome};
use vlib::runner::{run_exec, RunCfg, Scenario};
use vlib::tape::{Kind, Point};
use vlib::util::h64;
use vlib::vpipe::Pipe;

pub struct RaceStats {
    pub executions: u64,
    pub bound: String,
    pub distinct: u64,
    pub complete: bool,
}

#[derive(Debug, Clone, Hash, Default)]
pub struct R {
    log: Vec<(u8, String)>,
    results: Vec<String>,
    setup_error: Option<String>,
}

const T: Duration = Duration::from_secs(5);

async fn scen() -> R {
    let mut r = R::default();
    let (_pipe, a, b) = Pipe::new();
    let sh: Sh = Default::default();
    spawn_listener(b, sh.clone());
    macro_rules! setup {
        ($what:expr, $fut:expr) => {
            match timeout(T, $fut).await {
                Ok(Ok(v)) => v,
                Ok(Err(e)) => {
                    r.setup_error = Some(format!("set-up step '{}' failed: {:?}", $what, e));
                    return r;
                }
                Err(_) => {
                    r.setup_error = Some(format!("set-up step '{}' hangs", $what));
                    return r;
                }
            }
        };
    }
    let mut conn = setup!("open", Connection::builder().container_id("client").max_frame_size(MFS).open_with_stream(a));
    let mut session = setup!("begin", Session::begin(&mut conn));
    let mut s1 = setup!("attach link-1", Sender::attach(&mut session, "link-1", "q1"));
    let mut s2 = setup!("attach link-2", Sender::attach(&mut session, "link-2", "q2"));
    let ctrl: &'static Controller = Box::leak(Box::new(setup!("attach controller", Controller::attach(&mut session, "ctl-1"))));
    let t1 = setup!("declare t1", Transaction::declare(ctrl, None));
    let t2 = setup!("declare t2", Transaction::declare(ctrl, None));
    let _ = setup!("post m1", t1.post(&mut s1, body_for(1, 1)));
    tokio::time::sleep(Duration::from_millis(1)).await;
    if !sh.lock().unwrap().log.is_empty() {
        r.results.push("m1 visible before the race started".into());
    }
    let sh_a = sh.clone();
    let ta = tokio::spawn(async move {
        sh_a.lock().unwrap().log.push((0, "commit-issued".into()));
        format!("commit(t1) -> {:?}", timeout(T, t1.commit()).await.map(|r| r.map_err(|e| format!("{e:?}"))).map_err(|_| "hangs"))
    });
    let tb = tokio::spawn(async move {
        let res = timeout(T, s1.send(body_for(1, 2))).await.map(|r| r.map(|o| o.is_accepted()).map_err(|e| format!("{e:?}"))).map_err(|_| "hangs");
        (format!("send(m2) -> {:?}", res), s1)
    });
    let tc = tokio::spawn(async move {
        let res = timeout(T, t2.post(&mut s2, body_for(2, 3))).await.map(|r| r.map(|o| o.is_accepted()).map_err(|e| format!("{e:?}"))).map_err(|_| "hangs");
        std::mem::forget(t2);
        (format!("post(m3,t2) -> {:?}", res), s2)
    });
    let ra = ta.await;
    let rb = tb.await;
    let rc = tc.await;
    for _ in 0..3 {
        tokio::time::sleep(Duration::from_millis(1)).await;
    }
    r.results.push(ra.unwrap_or_else(|e| format!("task A died: {e}")));
    let mut keep = vec![];
    match rb {
        Ok((s, snd)) => {
            r.results.push(s);
            keep.push(snd);
        }
        Err(e) => r.results.push(format!("task B died: {e}")),
    }
    match rc {
        Ok((s, snd)) => {
            r.results.push(s);
            keep.push(snd);
        }
        Err(e) => r.results.push(format!("task C died: {e}")),
    }
    r.log = sh.lock().unwrap().log.clone();
    drop(keep);
    drop(session);
    drop(conn);
    r
}

fn judge(r: &R) -> Vec<(String, String)> {
    let mut f = vec![];
    let what = format!("application log {:?}, client results {:?}", r.log, r.results);
    let pos = |lab: &str| r.log.iter().position(|(_, s)| s == lab);
    let count = |lab: &str| r.log.iter().filter(|(_, s)| s == lab).count();
    if r.results.iter().any(|s| s.contains("before the race")) {
        f.push(("race: withheld-post-delivered-before-discharge".into(), what.clone()));
    }
    let ok = |prefix: &str, good: &str| r.results.iter().any(|s| s.starts_with(prefix) && s.contains(good));
    let all_ok = ok("commit(t1)", "Ok(Ok(()))") && ok("send(m2)", "Ok(Ok(true))") && ok("post(m3,t2)", "Ok(Ok(true))");
    if !all_ok {
        f.push(("race: valid-operation-failed".into(), what.clone()));
        return f;
    }
    if pos("B3").is_some() || r.log.iter().any(|(_, s)| s.starts_with("corrupt")) {
        f.push(("race: withheld-post-delivered-before-discharge".into(), format!("m3 was posted under t2, which is never discharged: {what}")));
    }
    match (pos("commit-issued"), pos("s1")) {
        (Some(c), Some(m)) if m < c => f.push(("race: withheld-post-delivered-before-discharge".into(), format!("m1 seen before the commit was issued: {what}"))),
        (_, None) => f.push(("race: expected-delivery-missing".into(), format!("m1 committed but not delivered: {what}"))),
        _ => {}
    }
    if count("s1") > 1 || count("s2") > 1 {
        f.push(("race: post-delivered-twice".into(), what.clone()));
    }
    if count("s2") == 0 {
        f.push(("race: expected-delivery-missing".into(), format!("m2 (no transaction) not delivered: {what}")));
    }
    f
}

fn scenario() -> Scenario<R> {
    Arc::new(|| Box::pin(scen()))
}

pub fn run(ctx: &Ctx, deadline: Instant, out: &mut Outcome) -> RaceStats {
    let bounds = if ctx.quick() { Bounds::new(1) } else { Bounds::new(2).kind(Kind::Select, 1) };
    let cfg = RunCfg::default();
    let fails = std::sync::Mutex::new(Vec::<(Vec<(String, String)>, Vec<Point>)>::new());
    let mach = std::sync::Mutex::new(Vec::<String>::new());
    let sc = scenario();
    let st = explore(&cfg, &bounds, &sc, ctx.threads, deadline, |e| {
        match &e.out {
            None => {
                let mut m = mach.lock().unwrap();
                if m.len() < 3 {
                    m.push(format!("race scenario died: watchdog={} panics={:?}", e.watchdog, e.panics));
                }
            }
            Some(r) => {
                if let Some(s) = &r.setup_error {
                    let mut m = mach.lock().unwrap();
                    if m.len() < 3 {
                        m.push(format!("race: {s} (schedule with {} deviations)", e.points.iter().filter(|p| p.chosen != 0).count()));
                    }
                } else {
                    let f = judge(r);
                    if !f.is_empty() {
                        fails.lock().unwrap().push((f, e.points.clone()));
                    }
                }
            }
        }
        if e.spun {
            let mut m = mach.lock().unwrap();
            if m.len() < 3 {
                m.push("race: busy loop detected".into());
            }
        }
        h64(&e.out.as_ref().map(|r| (r.log.iter().filter(|(l, _)| *l != 0).cloned().collect::<Vec<_>>(), r.results.clone())))
    });
    let mut fs = fails.into_inner().unwrap();
    // fewest deviations first
    fs.sort_by_key(|(_, p)| (p.iter().filter(|x| x.chosen != 0).count(), p.len()));
    let mut seen = std::collections::BTreeSet::new();
    for (f, points) in fs {
        for (s, d) in f {
            if seen.insert(s.clone()) {
                let devs: Vec<(usize, String, u32)> = points.iter().enumerate().filter(|(_, p)| p.chosen != 0).map(|(i, p)| (i, format!("{:?}", p.kind), p.chosen)).collect();
                out.violation(s, format!("schedule deviations {:?}: {d}", devs), json!({"schedule": points_json(&points)}));
            }
        }
    }
    out.machinery_errors.extend(mach.into_inner().unwrap());
    for d in &st.divergences {
        out.machinery_errors.push(d.clone());
    }
    let level = st.completed_level;
    RaceStats {
        executions: st.executions,
        bound: format!("commit(t1) || post(no txn) || 3-frame post(t2), {} ({} executions, deviation level {:?} complete)", bounds.describe(), st.executions, level),
        distinct: st.distinct_obs as u64,
        complete: st.exhaustive,
    }
}

fn points_json(p: &[Point]) -> serde_json::Value {
    json!(p.iter().map(|x| json!([x.kind.idx(), x.n, x.chosen])).collect::<Vec<_>>())
}

pub fn replay(r: &serde_json::Value, mut out: Outcome) -> Outcome {
    let kinds = vlib::tape::KINDS;
    let pts: Vec<Point> = r["schedule"]
        .as_array()
        .map(|a| {
            a.iter()
                .filter_map(|x| {
                    let v = x.as_array()?;
                    Some(Point { kind: kinds[v.first()?.as_u64()? as usize % kinds.len()], n: v.get(1)?.as_u64()? as u32, chosen: v.get(2)?.as_u64()? as u32 })
                })
                .collect()
        })
        .unwrap_or_default();
    // replay up to the last deviation, default answers beyond
    let last = pts.iter().rposition(|p| p.chosen != 0).map(|i| i + 1).unwrap_or(0);
    let e = run_exec(pts[..last].to_vec(), &RunCfg::default(), &scenario());
    println!("replaying race schedule with {} deviations: diverged={:?}", pts.iter().filter(|p| p.chosen != 0).count(), e.diverged);
    match &e.out {
        Some(res) => {
            println!("  {:?}", res);
            for (s, d) in judge(res) {
                println!("  FAIL {s}: {d}");
                out.violation(s, d, r.clone());
            }
        }
        None => out.machinery_errors.push(format!("race replay died: {:?}", e.panics)),
    }
    out.set("states", 1);
    out.set("transitions", 1);
    out.set("traces_validated_against_impl", 1);
    out.set("samples", json!([r]));
    out
}
