//! C02 part F - the LISTENER as the sending side: the receiver settle mode that holds for the link is the one the
//! listener's own attach announces, whatever the acceptor supports and whatever the remote receiver asked for.
//! "When the receiver settles second ... the sender sends that settling disposition for every delivery the receiver
//! reported a terminal outcome for", and every send resolves once with the outcome the receiver applied.
use fe2o3_amqp::acceptor::{ConnectionAcceptor, LinkAcceptor, LinkEndpoint, SessionAcceptor, SupportedReceiverSettleModes};
use fe2o3_amqp_types::definitions::{Handle, ReceiverSettleMode, Role, SenderSettleMode};
use fe2o3_amqp_types::messaging::{Accepted, DeliveryState, Released, Source, Target};
use fe2o3_amqp_types::performatives::*;
use serde_json::json;
use std::sync::{Arc, Mutex};
use vlib::peer::{settle, trace_to_strings, Auto, Body, Dirn, Peer, AMQP_HEADER};
use vlib::report::Outcome;
use vlib::runner::{run_exec, RunCfg, Scenario};
use vlib::vpipe::Pipe;

#[derive(Debug, Clone, Copy, PartialEq, Eq)]
pub struct Case {
    /// 0 = First, 1 = Second, 2 = Both
    pub supported: u8,
    pub requested_second: bool,
    /// the receiver's outcome: accepted / released
    pub released: bool,
    pub deliveries: usize,
}

type Res = (Vec<(String, String)>, Vec<String>, Option<String>);

pub async fn scenario(c: Case) -> Res {
    let mut fails = vec![];
    let (pipe, a, _b) = Pipe::new();
    let mut auto = Auto::none();
    auto.max_frame_size = 512;
    let mut peer = Peer::new(pipe.clone(), 1, auto);
    let results: Arc<Mutex<Vec<String>>> = Default::default();
    let notes: Arc<Mutex<Vec<String>>> = Default::default();
    {
        let (results, notes) = (results.clone(), notes.clone());
        let n = c.deliveries;
        let supported = match c.supported {
            0 => SupportedReceiverSettleModes::First,
            1 => SupportedReceiverSettleModes::Second,
            _ => SupportedReceiverSettleModes::Both,
        };
        tokio::spawn(async move {
            let acceptor = ConnectionAcceptor::builder().container_id("lib-listener").max_frame_size(512).build();
            let mut conn = match acceptor.accept(a).await {
                Ok(c) => c,
                Err(e) => return notes.lock().unwrap().push(format!("accept connection: {e:?}")),
            };
            let mut sess = match SessionAcceptor::new().accept(&mut conn).await {
                Ok(s) => s,
                Err(e) => return notes.lock().unwrap().push(format!("accept session: {e:?}")),
            };
            let lacc = LinkAcceptor::builder().supported_receiver_settle_modes(supported).build();
            let mut sender = match lacc.accept(&mut sess).await {
                Ok(LinkEndpoint::Sender(s)) => s,
                Ok(_) => return notes.lock().unwrap().push("accepted a receiver?".into()),
                Err(e) => return notes.lock().unwrap().push(format!("accept link: {e:?}")),
            };
            for k in 0..n {
                let r = sender.send(format!("m{k}")).await;
                results.lock().unwrap().push(format!("{:?}", r.map_err(|e| e.to_string())));
            }
            // keep the link, session and connection alive until the scenario ends
            std::future::pending::<()>().await;
        });
    }
    peer.send_proto_header(AMQP_HEADER);
    peer.send(
        0,
        Performative::Open(Open {
            container_id: "scripted-client".into(),
            hostname: None,
            max_frame_size: 512.into(),
            channel_max: 100.into(),
            idle_time_out: None,
            outgoing_locales: None,
            incoming_locales: None,
            offered_capabilities: None,
            desired_capabilities: None,
            properties: None,
        }),
    );
    peer.send(
        0,
        Performative::Begin(Begin {
            remote_channel: None,
            next_outgoing_id: 0,
            incoming_window: 1000,
            outgoing_window: 1000,
            handle_max: Handle(100),
            offered_capabilities: None,
            desired_capabilities: None,
            properties: None,
        }),
    );
    let requested = if c.requested_second { ReceiverSettleMode::Second } else { ReceiverSettleMode::First };
    peer.send(
        0,
        Performative::Attach(Attach {
            name: "l".into(),
            handle: Handle(0),
            role: Role::Receiver,
            snd_settle_mode: SenderSettleMode::Unsettled,
            rcv_settle_mode: requested.clone(),
            source: Some(Box::new(Source::builder().address("q").build())),
            target: Some(Box::new(Target::builder().address("client").build().into())),
            unsettled: None,
            incomplete_unsettled: false,
            initial_delivery_count: None,
            max_message_size: None,
            offered_capabilities: None,
            desired_capabilities: None,
            properties: None,
        }),
    );
    settle(&mut peer, 4).await;
    let lib_attach = peer.trace.iter().find_map(|w| match (w.dir, w.perf()) {
        (Dirn::FromLib, Some(Performative::Attach(a))) => Some((w.channel, a.clone())),
        _ => None,
    });
    let Some((lch, la)) = lib_attach else {
        // the listener may refuse a mode it does not support: not C02's business
        return (fails, trace_to_strings(&peer.trace), if notes.lock().unwrap().is_empty() { Some("part F: the listener did not attach".into()) } else { None });
    };
    let negotiated_second = la.rcv_settle_mode == ReceiverSettleMode::Second;
    // credit for all deliveries
    let mut f = peer.flow_for(lch);
    f.next_incoming_id = Some(0);
    f.incoming_window = 1000;
    f.handle = Some(Handle(0));
    f.delivery_count = Some(la.initial_delivery_count.unwrap_or(0));
    f.link_credit = Some(10);
    peer.send(0, Performative::Flow(f));
    let state = if c.released { DeliveryState::Released(Released {}) } else { DeliveryState::Accepted(Accepted {}) };
    let mut answered = 0usize;
    for _round in 0..(c.deliveries * 3 + 3) {
        settle(&mut peer, 2).await;
        // answer every complete unsettled delivery not yet answered: terminal outcome, settled iff the mode that holds is first
        let ids: Vec<u32> = peer.trace.iter().filter_map(|w| match (w.dir, w.perf()) {
            (Dirn::FromLib, Some(Performative::Transfer(t))) if !t.more && t.settled != Some(true) => t.delivery_id,
            _ => None,
        }).collect();
        while answered < ids.len() {
            peer.send(0, Performative::Disposition(Disposition { role: Role::Receiver, first: ids[answered], last: None, settled: !negotiated_second, state: Some(state.clone()), batchable: false }));
            answered += 1;
        }
    }
    settle(&mut peer, 3).await;
    let what = format!("listener LinkAcceptor supports {}, the remote receiver asked for {:?}, the listener's attach says {:?}", ["First", "Second", "Both"][c.supported as usize], requested, la.rcv_settle_mode);
    // every send resolves with the receiver's outcome
    let res = results.lock().unwrap().clone();
    let want = if c.released { "Ok(Released(Released))" } else { "Ok(Accepted(Accepted))" };
    if res.len() != c.deliveries || res.iter().any(|r| r != want) {
        fails.push(("listener-sender: send-outcome".into(), format!("{what}; the receiver applied {want} to {answered} deliveries; send() results: {:?}", res)));
    }
    if negotiated_second {
        let ids: Vec<u32> = peer.trace.iter().filter_map(|w| match (w.dir, w.perf()) {
            (Dirn::FromLib, Some(Performative::Transfer(t))) if !t.more => t.delivery_id,
            _ => None,
        }).collect();
        let settled_by_sender: Vec<u32> = peer.trace.iter().filter_map(|w| match (w.dir, w.perf()) {
            (Dirn::FromLib, Some(Performative::Disposition(d))) if d.role == Role::Sender && d.settled => Some((d.first, d.last.unwrap_or(d.first))),
            _ => None,
        }).flat_map(|(f, l)| (f..=l).collect::<Vec<_>>()).collect();
        let missing: Vec<u32> = ids.iter().copied().filter(|i| !settled_by_sender.contains(i)).collect();
        if !missing.is_empty() {
            fails.push((
                "listener-sender: settling-disposition-missing".into(),
                format!("{what}: the receiver reported a terminal outcome (unsettled) for deliveries {:?}; the listener's sender wrote no settling disposition for {:?}", ids, missing),
            ));
        }
    }
    let _ = Body::Empty;
    (fails, trace_to_strings(&peer.trace), None)
}

fn run_case(c: Case) -> Res {
    let scen: Scenario<Res> = Arc::new(move || Box::pin(scenario(c)));
    let ex = run_exec(vec![], &RunCfg::none(), &scen);
    match ex.out {
        Some((mut f, t, m)) => {
            if let Some((sig, msg)) = vlib::util::library_panic(&ex.panics) {
                f.push((sig, format!("a library task panicked: {msg}")));
            }
            (f, t, m)
        }
        None => (vec![], vec![], Some(format!("part F {:?} died: {:?}", c, ex.panics))),
    }
}

/// (cases, cases in which the mode that holds is second)
pub fn part_f(out: &mut Outcome) -> (u64, u64) {
    let mut n = 0;
    let mut second = 0;
    for supported in 0..3u8 {
        for requested_second in [false, true] {
            for released in [false, true] {
                for deliveries in [1usize, 3] {
                    let c = Case { supported, requested_second, released, deliveries };
                    let (fails, trace, mach) = run_case(c);
                    n += 1;
                    if trace.iter().any(|l| l.starts_with("<-lib") && l.contains("attach(") && l.contains("rcv=Second")) {
                        second += 1;
                    }
                    if let Some(m) = mach {
                        if out.machinery_errors.len() < 6 {
                            out.machinery_errors.push(m);
                        }
                    }
                    for (s, d) in fails {
                        out.violation(s, d, json!({"part": "F", "supported": supported, "requested_second": requested_second, "released": released, "deliveries": deliveries, "trace": trace}));
                    }
                }
            }
        }
    }
    (n, second)
}

pub fn replay_f(r: &serde_json::Value, out: &mut Outcome) {
    let c = Case {
        supported: r["supported"].as_u64().unwrap_or(2) as u8,
        requested_second: r["requested_second"].as_bool().unwrap_or(true),
        released: r["released"].as_bool().unwrap_or(false),
        deliveries: r["deliveries"].as_u64().unwrap_or(1) as usize,
    };
    println!("replaying part F: {:?}", c);
    let (fails, trace, mach) = run_case(c);
    for l in &trace {
        println!("  {l}");
    }
    if let Some(m) = mach {
        out.machinery_errors.push(m);
    }
    for (s, d) in fails {
        println!("  FAIL {s}: {d}");
        out.violation(s, d, r.clone());
    }
}
